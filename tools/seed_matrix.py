#!/verif/.venv/bin/python
"""run every kept seeded change against the check of its own property (and, when that passes, against the other
properties named in ALT) and write /verif/seeded/MATRIX.json: which obligation reports it"""
import json, os, re, subprocess, sys
ROOT = "/verif"
ALT = {"C01-1": ["C03"], "C05-2": ["C03", "C09"], "C02-2": ["C03", "C09"], "C09-2": ["C03"], "C04-1": ["C19"], "C03-2": ["C09"],
       "C10-2": ["C10", "C01"]}
seeds = sorted(d for d in os.listdir(f"{ROOT}/seeded") if re.fullmatch(r"C\d\d-\d", d))
only = sys.argv[1:]
out = {}
if os.path.exists(f"{ROOT}/seeded/MATRIX.json"):
    out = json.load(open(f"{ROOT}/seeded/MATRIX.json"))
for s in seeds:
    if only and s not in only:
        continue
    props = [s[:3]] + [p for p in ALT.get(s, []) if p != s[:3]]
    rec = {"caught_by": None, "obligations": [], "tried": []}
    for p in props:
        r = subprocess.run([f"{ROOT}/tools/try_seed.sh", f"{ROOT}/seeded/{s}", p], capture_output=True, text=True)
        rec["tried"].append({"property": p, "exit": r.returncode})
        obls = re.findall(r"obligation (\S+) \((\S+)\) refuted", r.stdout)
        if r.returncode == 1 and obls:
            rec["caught_by"] = p
            rec["obligations"] = sorted({o for o, _ in obls})[:4]
            break
    out[s] = rec
    print(s, rec["caught_by"], rec["obligations"][:2], flush=True)
    json.dump(out, open(f"{ROOT}/seeded/MATRIX.json", "w"), indent=1)
subprocess.run(["git", "-C", "/repo", "status", "--short"])
