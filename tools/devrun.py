#!/verif/.venv/bin/python
"""dev helper: run one unit in-process and print a summary"""
import sys, time, collections, importlib
sys.path.insert(0, '/verif')
from pyvc import explore, U
from pyvc.registry import UNITS
mod, name = sys.argv[1], sys.argv[2]
importlib.import_module(f'contracts.{mod}')
d = UNITS[name]
t=time.time()
res = explore(lambda c: d.fn(U(c)), name=name, timeout_ms=10000, max_paths=int(sys.argv[3]) if len(sys.argv)>3 else 20000)
print(f"paths={len(res.paths)} wall={res.wall:.1f}s errors={len(res.errors)} capped={res.capped}")
cnt = collections.Counter(); by = collections.defaultdict(collections.Counter)
for o in res.obls:
    by[o.name][o.verdict]+=1
for n in sorted(by): print(f"  {n:60s} {dict(by[n])}")
shown=set()
for o in res.obls:
    if o.verdict!='discharged' and o.name not in shown:
        shown.add(o.name); print("---", o.name, o.verdict, o.detail); print("   model:", {k:v for k,v in (o.model or {}).items() if k!='smt2'})
for e in res.errors[:3]: print("ERR", e)
cov=set()
for p in res.paths: cov|=p.covers
print("covers:", sorted(cov))
print("solver secs", sum(p.solver_secs for p in res.paths), "queries", sum(p.n_queries for p in res.paths))
