#!/venv/bin/python
"""Run the repository's test suite on a tree (default /repo) and report every
test of BASELINE.stable_pass that does not pass.  Exit 0 iff none.
usage: tools/suite.py [tree] [-- extra pytest args]"""
import json, os, subprocess, sys, tempfile, xml.etree.ElementTree as ET
tree = sys.argv[1] if len(sys.argv) > 1 and not sys.argv[1].startswith('-') else '/repo'
extra = sys.argv[sys.argv.index('--') + 1:] if '--' in sys.argv else []
base = json.load(open('/root/.vp/BASELINE.json'))
stable = set(base['stable_pass'])
with tempfile.TemporaryDirectory() as td:
    jx = os.path.join(td, 'j.xml')
    env = dict(os.environ)
    env.pop('AIOHTTP_VERIF', None)
    cmd = ['/venv/bin/python', '-m', 'pytest', '-q', '-p', 'no:cacheprovider', '--timeout=900',
           '--continue-on-collection-errors', '-n', '12', '--junitxml=' + jx] + extra
    r = subprocess.run(cmd, cwd=tree, env=env, stdout=subprocess.PIPE, stderr=subprocess.STDOUT, text=True)
    tail = r.stdout.strip().splitlines()[-1:] 
    passed = set()
    for tc in ET.parse(jx).getroot().iter('testcase'):
        if not any(ch.tag in ('failure', 'error', 'skipped') for ch in tc):
            passed.add(tc.get('classname') + '::' + tc.get('name'))
missing = sorted(stable - passed)
print('pytest:', *tail)
print(f'stable_pass={len(stable)} passed_now={len(passed)} stable_not_passing={len(missing)}')
for m in missing[:40]:
    print('  NOT PASSING:', m)
sys.exit(1 if missing else 0)
