#!/verif/.venv/bin/python
"""usage: tools/manifest_add.py <PROP> <json-file with level text/note/technique>  -- add or replace a check entry"""
import json, sys
prop, spec = sys.argv[1], json.load(open(sys.argv[2]))
m = json.load(open('/verif/MANIFEST.json'))
m['checks'] = [c for c in m['checks'] if c['property_id'] != prop]
m['checks'].append({
 "property_id": prop, "quick_cmd": f"./vcheck {prop} --tier quick", "thorough_cmd": f"./vcheck {prop} --tier thorough",
 "evidence_file": f"evidence/{prop}.json", "replay_cmd_template": f"./vcheck {prop} --replay {{path}}", "engine": "pyvc",
 "level_claimed": {"category": spec.get("category", "proof"), "text": spec["text"], "design_ref": f"DESIGN.md section 5 {prop}"},
 "level_note": spec["note"], "technique": spec["technique"]})
m['checks'].sort(key=lambda c: c['property_id'])
m['engines'][0]['serves_properties'] = sorted(c['property_id'] for c in m['checks'])
m['not_applicable'] = [n for n in m.get('not_applicable', []) if n['property_id'] != prop]
json.dump(m, open('/verif/MANIFEST.json', 'w'), indent=1)
import jsonschema
jsonschema.validate(m, json.load(open('/root/.vp/MANIFEST.schema.json'))); print('manifest ok', [c['property_id'] for c in m['checks']])
