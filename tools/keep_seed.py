#!/venv/bin/python
"""copy a verified seed from /tmp/seed-out/<id> to /verif/seeded/<id> with my verification record"""
import json, os, shutil, sys
for sid in sys.argv[1:]:
    src = f'/tmp/seed-out/{sid}'; dst = f'/verif/seeded/{sid}'
    v = json.load(open(f'/tmp/seed-out/{sid}.verify.json'))
    if not v.get('ok'): print('SKIP (not verified)', sid); continue
    os.makedirs(dst, exist_ok=True)
    for f in os.listdir(src):
        if f.endswith(('.diff', '.py', '.json')): shutil.copy(os.path.join(src, f), dst)
    m = json.load(open(f'{dst}/meta.json'))
    m['verified_by_me'] = {'ran': 'tools/verify_seed.py (fresh worktree of /repo HEAD: demo on clean tree, git apply, demo again, tools/suite.py = pinned suite vs BASELINE.stable_pass)', 'clean_demo_rc': v['clean_rc'], 'patched_demo_rc': v['patched_rc'], 'suite': v.get('suite', '').strip().splitlines()[-1:] }
    json.dump(m, open(f'{dst}/meta.json', 'w'), indent=1)
    print('kept', sid)
