#!/verif/.venv/bin/python
"""like seed_matrix.py, but every seeded change is applied to its own scratch worktree of /repo HEAD (under /tmp, removed
afterwards) and the check is pointed at it with PYVC_REPO - /repo itself is never touched, so it can run next to other work.
usage: tools/seed_matrix_wt.py [-j N] [seed ids...]   (writes /verif/seeded/MATRIX.json)"""
import concurrent.futures as cf
import json, os, re, shutil, subprocess, sys, tempfile

ROOT = "/verif"
sys.path.insert(0, f"{ROOT}/tools")
ALT = {"C01-1": ["C03"], "C05-2": ["C03", "C09"], "C02-2": ["C03", "C09"], "C09-2": ["C03"], "C04-1": ["C19"], "C03-2": ["C09"],
       "C10-2": ["C10", "C01"]}
args = sys.argv[1:]
jobs = 2
if args[:1] == ["-j"]:
    jobs = int(args[1]); args = args[2:]
seeds = sorted(d for d in os.listdir(f"{ROOT}/seeded") if re.fullmatch(r"C\d\d-\d", d))
if args:
    seeds = [s for s in seeds if s in args]


def one(s):
    sd = f"{ROOT}/seeded/{s}"
    patch = f"{sd}/patch.rebased.diff" if os.path.exists(f"{sd}/patch.rebased.diff") else f"{sd}/patch.diff"
    wt = tempfile.mkdtemp(prefix=f"sm-{s}-", dir="/tmp")
    os.rmdir(wt)
    rec = {"caught_by": None, "obligations": [], "tried": []}
    try:
        subprocess.run(["git", "-C", "/repo", "worktree", "add", "-q", "--detach", wt, "HEAD"], check=True, capture_output=True)
        r = subprocess.run(["git", "-C", wt, "apply", patch], capture_output=True, text=True)
        if r.returncode != 0:
            rec["tried"].append({"property": s[:3], "exit": 9, "error": "patch does not apply: " + r.stderr[:200]})
            return s, rec
        for p in [s[:3]] + [q for q in ALT.get(s, []) if q != s[:3]]:
            r = subprocess.run([f"{ROOT}/vcheck", p, "--no-evidence"], capture_output=True, text=True, cwd=ROOT,
                               env=dict(os.environ, PYVC_REPO=wt))
            lines = re.findall(r"^VIOLATION .*$", r.stdout, re.M)
            obls = re.findall(r"obligation (\S+) \((\S+)\) refuted", r.stdout)
            rec["tried"].append({"property": p, "exit": r.returncode})
            if r.returncode == 1 and obls:
                rec["caught_by"] = p
                rec["obligations"] = sorted({o for o, _ in obls})[:4]
                rec["replayed_natively"] = any(not ln.rstrip().endswith("no-failing-input-found") for ln in lines)
                break
    finally:
        subprocess.run(["git", "-C", "/repo", "worktree", "remove", "--force", wt], capture_output=True)
        shutil.rmtree(wt, ignore_errors=True)
    return s, rec


out = {}
if os.path.exists(f"{ROOT}/seeded/MATRIX.json"):
    out = json.load(open(f"{ROOT}/seeded/MATRIX.json"))
with cf.ThreadPoolExecutor(jobs) as ex:
    for s, rec in ex.map(one, seeds):
        out[s] = rec
        print(s, rec["caught_by"], rec["obligations"][:2], "native" if rec.get("replayed_natively") else "", flush=True)
        json.dump(out, open(f"{ROOT}/seeded/MATRIX.json", "w"), indent=1, sort_keys=True)
subprocess.run(["git", "-C", "/repo", "worktree", "prune"])
