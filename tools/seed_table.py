#!/verif/.venv/bin/python
"""render seeded/MATRIX.json as the markdown table of DESIGN.md section 11.5 (replaces the block between the markers)"""
import json
import os
import re

ROOT = "/verif"
m = json.load(open(f"{ROOT}/seeded/MATRIX.json"))
rows = ["| seed | what it changes | reported by | first violated obligation(s) |", "|------|-----------------|-------------|------------------------------|"]
missed = []
for s in sorted(m):
    meta = json.load(open(f"{ROOT}/seeded/{s}/meta.json"))
    what = (meta.get("summary") or meta.get("description") or "").replace("|", "/").replace("\n", " ")
    what = what[:230].rsplit(" ", 1)[0] + " ..."
    rec = m[s]
    if rec["caught_by"]:
        rows.append(f"| {s} | {what} | {rec['caught_by']}{' (replayed natively)' if rec.get('replayed_natively') else ''} | "
                    + ", ".join(f"`{o}`" for o in rec["obligations"][:2]) + " |")
    else:
        rows.append(f"| {s} | {what} | **missed** | tried: " + ", ".join(t["property"] for t in rec["tried"]) + " |")
        missed.append(s)
n = len(m)
rows.append("")
nat = sum(1 for r in m.values() if r.get("replayed_natively"))
rows.append(f"{n - len(missed)} of {n} seeded changes are reported by a registered check ({nat} with the counterexample replayed on "
            f"the real code, the others with the refuted obligation and the solver's model: `no-failing-input-found`)"
            + (f"; not reported: {', '.join(missed)}." if missed else "."))
table = "\n".join(rows)
p = f"{ROOT}/DESIGN.md"
s = open(p).read()
begin, end = "<!-- SEED-TABLE-BEGIN -->", "<!-- SEED-TABLE-END -->"
if "SEED_TABLE_PLACEHOLDER" in s:
    s = s.replace("SEED_TABLE_PLACEHOLDER", f"{begin}\n{table}\n{end}")
else:
    s = re.sub(re.escape(begin) + r".*?" + re.escape(end), lambda _: f"{begin}\n{table}\n{end}", s, flags=re.S)
open(p, "w").write(s)
print(table[-400:])
