#!/venv/bin/python
"""Confirm a seeded change: demo passes on clean tree, fails with patch, suite still passes.
usage: tools/verify_seed.py <seed-dir> [--no-suite]   (seed-dir holds patch.diff, demo.py|test_demo.py, meta.json)"""
import json, os, subprocess, sys, shutil, tempfile
sd = os.path.abspath(sys.argv[1]); nosuite = '--no-suite' in sys.argv
wt = tempfile.mkdtemp(prefix='seedchk-', dir='/tmp'); os.rmdir(wt)
def sh(cmd, **kw): return subprocess.run(cmd, shell=True, stdout=subprocess.PIPE, stderr=subprocess.STDOUT, text=True, **kw)
r = sh(f'git -C /repo worktree add -q --detach {wt} HEAD'); assert r.returncode == 0, r.stdout
res = {}
try:
    demo = 'demo.py' if os.path.exists(f'{sd}/demo.py') else 'test_demo.py'
    run = (f'cd {wt} && PYTHONPATH={wt} timeout 600 /venv/bin/python {sd}/{demo}' if demo == 'demo.py'
           else f'cd {wt} && PYTHONPATH={wt} timeout 600 /venv/bin/python -m pytest -q -p no:cacheprovider {sd}/{demo}')
    a = sh(run); res['clean_rc'] = a.returncode
    p = sh(f'git -C {wt} apply {sd}/patch.diff'); res['apply_rc'] = p.returncode
    b = sh(run); res['patched_rc'] = b.returncode; res['patched_tail'] = b.stdout[-600:]
    if not nosuite:
        s = sh(f'/venv/bin/python /verif/tools/suite.py {wt}'); res['suite_rc'] = s.returncode; res['suite'] = s.stdout[-300:]
    res['ok'] = res['clean_rc'] == 0 and res['apply_rc'] == 0 and res['patched_rc'] != 0 and (nosuite or res['suite_rc'] == 0)
finally:
    sh(f'git -C /repo worktree remove --force {wt}'); shutil.rmtree(wt, ignore_errors=True)
print(json.dumps(res, indent=1)); sys.exit(0 if res.get('ok') else 1)
