#!/bin/sh
# usage: tools/try_seed.sh <seed-dir> <PROP> [vcheck args]   -- apply the seeded change to /repo, run the check, undo
sd=$1; prop=$2; shift 2
cd /repo || exit 9
if ! git diff --quiet; then echo "/repo has uncommitted changes"; exit 9; fi
git apply "$( [ -f "$sd/patch.rebased.diff" ] && echo "$sd/patch.rebased.diff" || echo "$sd/patch.diff")" || { echo "patch does not apply"; exit 9; }
cd /verif && ./vcheck "$prop" --no-evidence "$@"; rc=$?
git -C /repo checkout -- . 
echo "== seed $(basename $sd) on $prop: exit=$rc"
exit $rc
