"""Property-side definitions written from RFC 6455 / RFC 7692 (not from the code).

All functions work on proxies and on real ints (they are also used by native replay)."""
from pyvc import And, Implies, Not, Or

# RFC 6455 section 5.2 / 11.8: defined opcodes
OP_CONT, OP_TEXT, OP_BINARY, OP_CLOSE, OP_PING, OP_PONG = 0x0, 0x1, 0x2, 0x8, 0x9, 0xA
DATA_OPCODES = (OP_CONT, OP_TEXT, OP_BINARY)
CONTROL_OPCODES = (OP_CLOSE, OP_PING, OP_PONG)
VALID_OPCODES = DATA_OPCODES + CONTROL_OPCODES

# RFC 6455 section 7.4.1 close codes
CLOSE_PROTOCOL_ERROR = 1002
CLOSE_INVALID_TEXT = 1007
CLOSE_MESSAGE_TOO_BIG = 1009
CLOSE_ABNORMAL = 1006


def one_of(x, values):
    return Or(*[x == v for v in values])


def is_control(op):
    """control frames are identified by opcodes where the most significant bit of the opcode is 1 (5.5)"""
    return op >= 0x8


def header_fields(b0, b1):
    """decode the first two bytes of a frame (section 5.2 base framing)"""
    return {
        "fin": (b0 >> 7) & 1,
        "rsv1": (b0 >> 6) & 1,
        "rsv2": (b0 >> 5) & 1,
        "rsv3": (b0 >> 4) & 1,
        "opcode": b0 & 0x0F,
        "mask": (b1 >> 7) & 1,
        "len7": b1 & 0x7F,
    }


def header_violation(b0, b1, *, deflate_negotiated, first_fragment):
    """True iff the two header bytes violate the protocol (-> close 1002):
    * RSV2/RSV3 set (no extension defines them)                       [5.2]
    * RSV1 set without negotiated permessage-deflate                  [5.2, RFC 7692 6]
    * RSV1 set on a control frame or on a non-first fragment          [RFC 7692 6.1]
    * unknown opcode                                                  [5.2]
    * fragmented control frame (FIN clear)                            [5.5]
    * control frame with payload length > 125                         [5.5]
    """
    h = header_fields(b0, b1)
    op = h["opcode"]
    return Or(
        h["rsv2"] != 0,
        h["rsv3"] != 0,
        And(h["rsv1"] != 0, Not(deflate_negotiated)),
        And(h["rsv1"] != 0, is_control(op)),
        And(h["rsv1"] != 0, Not(is_control(op)), Not(first_fragment)),
        Not(one_of(op, VALID_OPCODES)),
        And(is_control(op), h["fin"] == 0),
        And(is_control(op), h["len7"] > 125),
    )


def close_code_valid(code):
    """7.4: 1000-2999 reserved for the protocol (only the defined ones may appear on the wire),
    3000-4999 registered/private; everything else invalid.  Defined & sendable codes (7.4.1 + IANA):"""
    defined = (1000, 1001, 1002, 1003, 1007, 1008, 1009, 1010, 1011, 1012, 1013, 1014)
    return Or(And(code >= 3000, code <= 4999), one_of(code, defined))
