"""Property-side grammar written from RFC 9110 / RFC 9112 ABNF (not from the code), as z3 regular expressions."""
import z3

from pyvc import regexlang as RL


def cls(*ranges):
    return RL.ranges_to_re([(ord(a), ord(b)) if isinstance(a, str) else (a, b) for a, b in ranges])


# RFC 9110 5.6.2:  tchar = "!" / "#" / "$" / "%" / "&" / "'" / "*" / "+" / "-" / "." / "^" / "_" / "`" / "|" / "~"
#                          / DIGIT / ALPHA ;  token = 1*tchar
TCHAR = RL.union([cls(("0", "9"), ("A", "Z"), ("a", "z"))] + [RL.lit(ord(c)) for c in "!#$%&'*+-.^_`|~"])
TOKEN = z3.Plus(TCHAR)
DIGIT = cls(("0", "9"))
DIGITS = z3.Plus(DIGIT)  # Content-Length = 1*DIGIT (RFC 9110 8.6)
HEXDIG = cls(("0", "9"), ("A", "F"), ("a", "f"))
HEXDIGITS = z3.Plus(HEXDIG)  # chunk-size = 1*HEXDIG (RFC 9112 7.1)
# HTTP-version = "HTTP/" DIGIT "." DIGIT (RFC 9112 2.3)
VERSION = z3.Concat(z3.Re("HTTP/"), DIGIT, z3.Re("."), DIGIT)
# RFC 9110 5.5: field values containing CR, LF or NUL are invalid/dangerous; other CTLs (except HTAB) are invalid
FIELD_VALUE_BAD = [(0x00, 0x08), (0x0A, 0x1F), (0x7F, 0x7F)]
OWS_CHARS = [(0x20, 0x20), (0x09, 0x09)]


def contains_any(ranges, is_bytes=False):
    anyc = RL.universe(is_bytes)
    return z3.Concat(anyc, RL.ranges_to_re(ranges), anyc)


def caseless(word):
    """ASCII case-insensitive literal"""
    parts = []
    for ch in word:
        if ch.isalpha():
            parts.append(RL.ranges_to_re([(ord(ch.lower()), ord(ch.lower())), (ord(ch.upper()), ord(ch.upper()))]))
        else:
            parts.append(RL.lit(ord(ch)))
    return z3.Concat(*parts) if len(parts) > 1 else parts[0]
