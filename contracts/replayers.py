"""Native replayers: given the solver's counterexample for a refuted obligation of a unit, call the REAL, uninstrumented
code of the current /repo tree with those concrete inputs and evaluate the same clause in plain Python.  A VIOLATION line
carries no `no-failing-input-found` suffix exactly when the replayer confirms.  (Units whose inputs are abstract - event
logs, havocked heaps, prefix-domain texts - have no replayer: their replay file carries the model and the failed
obligation only.)"""
import asyncio

from pyvc.registry import native


def _b(x, default=b""):
    if x is None:
        return default
    if isinstance(x, (bytes, bytearray)):
        return bytes(x)
    if isinstance(x, dict) and "__bytes__" in x:
        return bytes.fromhex(x["__bytes__"])
    return default


@native("C16.domain_match")
def r_domain_match(model, obligation):
    from aiohttp.cookiejar import CookieJar
    from aiohttp.helpers import is_ip_address

    d, h = model.get("domain", ""), model.get("hostname", "")
    try:
        got = CookieJar._is_domain_match(d, h)
    except Exception as e:  # noqa: BLE001
        return {"confirmed": True, "detail": f"_is_domain_match({d!r}, {h!r}) raised {e!r}", "input": [d, h]}
    want = (h == d) or (d != "" and h.endswith("." + d) and not is_ip_address(h))
    return {"confirmed": bool(got) != bool(want), "detail": f"_is_domain_match({d!r}, {h!r}) = {got!r}, RFC 6265 5.1.3 says {want!r}",
            "input": [d, h]}


@native("C19.writer.base64")
def r_b64_writer(model, obligation):
    import base64

    from aiohttp.multipart import MultipartPayloadWriter

    pending, chunk = _b(model.get("pending")), _b(model.get("chunk"))
    # the obligation constrains only the LENGTHS (contents are free in the counterexample): give every byte a
    # distinct value so that loss, duplication or reordering is visible
    pending = bytes((i + 1) % 256 for i in range(len(pending)))
    chunk = bytes((len(pending) + i + 1) % 256 for i in range(len(chunk)))
    out = []

    class W:
        async def write(self, b):
            out.append(bytes(b))

    async def run():
        w = MultipartPayloadWriter(W())
        w.enable_encoding("base64")
        w._encoding_buffer = bytearray(pending)
        await w.write(chunk)
        await w.write_eof()

    asyncio.run(run())
    decoded = b"".join(base64.b64decode(x) for x in out)
    ok = decoded == pending + chunk
    return {"confirmed": not ok, "detail": f"pending={pending!r} chunk={chunk!r}: decoded pieces give {decoded!r}",
            "input": {"pending": pending.hex(), "chunk": chunk.hex()}}


@native("C19.reader.align_base64")
def r_align(model, obligation):
    """the solver's chunk first; its bytes are only constrained through the ghost count of base64 characters, so when
    the concrete model does not reproduce, the inputs of the refuted path's class are tried: a delivery shorter than
    `size` that holds one to three base64 characters"""
    first = _r_align_one(_b(model.get("chunk")), int(model.get("size", 1)), bool(model.get("at_eof", False)))
    if first["confirmed"] or "whole_quartets" not in obligation:
        return first
    for chunk in (b"Q", b"QU", b"QUJ", b"Q\r\nU"):
        r = _r_align_one(chunk, 8192, False)
        if r["confirmed"]:
            return r
    return first


def _r_align_one(chunk, size, at_eof):
    from aiohttp.multipart import BodyPartReader

    r = BodyPartReader.__new__(BodyPartReader)
    r._at_eof, r._length, r._read_bytes, r._b64_carry = at_eof, None, 0, b""
    try:
        res = r._align_base64_chunk(chunk, size)
    except Exception as e:  # noqa: BLE001
        return {"confirmed": True, "detail": f"_align_base64_chunk({chunk!r}, {size}) raised {e!r}"}
    from aiohttp.multipart import _BASE64_CHARS

    nb64 = lambda b: sum(1 for x in b if x in _BASE64_CHARS)  # noqa: E731
    cur = chunk if at_eof else chunk[:size]
    short = (not at_eof) and len(chunk) < size
    conserved = res + r._b64_carry == chunk
    progress = bool(res) or not chunk or short
    quartets = at_eof or nb64(res) % 4 == 0 or (len(chunk) >= size and nb64(cur) < 4)
    ok = conserved and progress and quartets
    why = [] if conserved else ["bytes lost or reordered"]
    why += [] if progress else ["nothing handed back"]
    why += [] if quartets else [f"{nb64(res)} base64 characters handed back before the end of the part: cut mid-quartet, "
                                "the chunk does not decode on its own"]
    return {"confirmed": not ok, "detail": f"chunk={chunk[:40]!r}{'...' if len(chunk) > 40 else ''} (len {len(chunk)}) size={size}: "
                                            f"returned {len(res)} bytes, carried {len(r._b64_carry)}: {'; '.join(why) or 'as specified'}",
            "input": {"chunk": chunk.hex(), "size": size, "at_eof": at_eof}}


@native("C18.total.deadline")
def r_deadline(model, obligation):
    from aiohttp.helpers import TimeoutHandle

    now, timeout, thr = (float(model.get(k, 0.0) or 0.0) for k in ("now", "timeout", "ceil_threshold"))
    sched = []

    class Loop:
        def time(self):
            return now

        def call_at(self, when, cb):
            sched.append(when)
            return "H"

    h = TimeoutHandle(Loop(), timeout, ceil_threshold=thr)
    h.start()
    if timeout <= 0:
        return {"confirmed": bool(sched), "detail": f"timeout={timeout}: timers {sched}"}
    bad = (not sched) or not (now + timeout <= sched[0] < now + timeout + 1) or (timeout < thr and sched[0] != now + timeout)
    return {"confirmed": bool(bad), "detail": f"now={now} timeout={timeout} threshold={thr}: scheduled at {sched}",
            "input": {"now": now, "timeout": timeout, "ceil_threshold": thr}}


@native("C04.inj.safe_header")
def r_safe_header(model, obligation):
    from aiohttp.http_writer import _safe_header

    s = model.get("s", "")
    if not isinstance(s, str):
        return {"confirmed": False, "detail": "no string in the model"}
    forbidden = any(ord(ch) in (*range(0, 9), *range(10, 32), 127) for ch in s)
    try:
        r = _safe_header(s)
    except ValueError:
        return {"confirmed": not forbidden, "detail": f"_safe_header({s!r}) refused a clean string" if not forbidden else "refused", "input": s}
    except Exception as e:  # noqa: BLE001
        return {"confirmed": True, "detail": f"_safe_header({s!r}) raised {e!r}", "input": s}
    return {"confirmed": forbidden or r != s, "detail": f"_safe_header({s!r}) -> {r!r} (forbidden char present: {forbidden})", "input": s}


@native("C02.client.framing")
def r_client_framing(model, obligation):
    """rebuild the request with the real ClientRequest and look at headers + writer mode"""
    w = model.get("__witness__") or {}
    if not w:
        return {"confirmed": False, "detail": "no witness in the model"}
    import aiohttp
    from aiohttp.client_reqrep import ClientRequest
    from multidict import CIMultiDict
    from yarl import URL

    async def run():
        loop = asyncio.get_running_loop()
        headers = CIMultiDict()
        if w.get("caller_cl"):
            headers["Content-Length"] = "5"
        if w.get("caller_te"):
            headers["Transfer-Encoding"] = "chunked"
        data = {0: None, 1: b"hello"}.get(w.get("body"), None)
        async with aiohttp.ClientSession() as s:
            req = ClientRequest("POST" if data is not None else "GET", URL("http://h/"), params=None, headers=headers,
                                skip_auto_headers=None, data=data, cookies=None, version=aiohttp.HttpVersion11,
                                compress=False, chunked=w.get("chunked"), expect100=False, loop=loop, response_class=None,
                                proxy=None, response_params=None, timer=None, timeout=None, session=s, ssl=True,
                                proxy_headers=None, traces=[], trust_env=False, server_hostname=None)
            import unittest.mock as mock

            wr = req._create_writer(mock.Mock())
            return dict(req.headers), wr.chunked

    try:
        hdrs, chunking = asyncio.run(run())
    except ValueError as e:
        return {"confirmed": False, "detail": f"refused: {e}"}
    cl = any(k.lower() == "content-length" for k in hdrs)
    te = "chunked" in {k.lower(): v for k, v in hdrs.items()}.get("transfer-encoding", "").lower()
    bad = (cl and te) or (chunking != te)
    return {"confirmed": bool(bad), "detail": f"headers={hdrs} writer.chunked={chunking}", "input": w}


@native("C02.client.status_line")
def r_status_line(model, obligation):
    """feed the witness status line + headers to the real HttpResponseParser.parse_message"""
    w = model.get("__witness__") or {}
    if obligation != "C02.ka.response_default" or "version" not in w:
        return {"confirmed": False, "detail": "no replayable witness for this obligation"}
    import unittest.mock as mock

    from aiohttp.http_parser import HttpResponseParserPy

    (major, minor), code = w["version"], int(w["code"])
    if not (0 <= major <= 9 and 0 <= minor <= 9 and 0 <= code <= 999):
        return {"confirmed": False, "detail": f"witness outside the status-line grammar: {w}"}
    lines = [b"HTTP/%d.%d %03d OK" % (major, minor, code)]
    if w.get("content_length"):
        lines.append(b"Content-Length: 0")
    if w.get("transfer_encoding"):
        lines.append(b"Transfer-Encoding: chunked")
    lines.append(b"")
    p = HttpResponseParserPy(mock.Mock(), asyncio.new_event_loop(), 65536)
    try:
        m = p.parse_message(lines)
    except Exception as e:  # noqa: BLE001
        return {"confirmed": False, "detail": f"refused: {e!r}"}
    old = (major, minor) <= (1, 0)
    delimited = 100 <= code < 200 or code in (204, 304) or bool(w.get("content_length")) or bool(w.get("transfer_encoding"))
    want = True if old else not delimited
    return {"confirmed": m.should_close is not want,
            "detail": f"{lines[:-1]!r}: should_close={m.should_close!r}, receiver rule says {want!r}", "input": [x.decode() for x in lines]}


@native("C02.server.write_eof")
def r_write_eof(model, obligation):
    """real Response with the witness body kind, marked must-be-empty as after prepare() for HEAD / 204 / 304"""
    w = model.get("__witness__") or {}
    if obligation != "C02.frame.resp.bodiless_sends_no_body" or "body_kind" not in w:
        return {"confirmed": False, "detail": "no replayable witness for this obligation"}
    import io

    from aiohttp import web

    wire = []

    class W:
        output_size = 0

        async def write(self, b, **k):
            wire.append(bytes(b))

        async def write_eof(self, b=b""):
            if b:
                wire.append(bytes(b))

    kind = w["body_kind"]
    body = {"none": None, "bytes": b"BODY", "compressed": b"BODY", "payload": io.BytesIO(b"BODY")}[kind]

    async def run():
        r = web.Response(body=body, status=204)
        if kind == "compressed":
            r._compressed_body = b"COMPRESSED"
        r._must_be_empty_body = True
        r._req = mock_req
        r._payload_writer = W()
        await r.write_eof()

    import unittest.mock as mock

    mock_req = mock.Mock()
    asyncio.run(run())
    return {"confirmed": bool(wire), "detail": f"Response(body={kind}, 204).write_eof() put {wire!r} on the wire after the headers",
            "input": w}


@native("C08.iterators")
def r_iterators(model, obligation):
    """the real ChunkTupleAsyncStreamIterator over a stream whose readchunk() gives the witness pair"""
    w = model.get("__witness__") or {}
    if obligation != "C08.iter.chunks.stops_only_at_end_of_stream" or "len" not in w:
        return {"confirmed": False, "detail": "no replayable witness for this obligation"}
    from aiohttp.streams import ChunkTupleAsyncStreamIterator

    pair = (b"x" * int(w["len"]), bool(w["end_of_http_chunk"]))

    class S:
        async def readchunk(self):
            return pair

    async def run():
        try:
            return await ChunkTupleAsyncStreamIterator(S()).__anext__()
        except StopAsyncIteration:
            return "stop"

    got = asyncio.run(run())
    want = "stop" if pair == (b"", False) else pair
    return {"confirmed": got != want, "detail": f"readchunk() -> {pair!r}: iteration step gave {got!r}, expected {want!r}",
            "input": [pair[0].hex(), pair[1]]}


@native("C12.handle_frame.contract")
def r_close_code(model, obligation):
    """a real WebSocketReader fed one unmasked Close frame carrying the witness status code"""
    w = model.get("__witness__") or {}
    if "close_code" not in w or not (obligation.startswith("C11.close.") or obligation == "C12.handle.close.code_valid"):
        return {"confirmed": False, "detail": "no replayable witness for this obligation"}
    import unittest.mock as mock

    from aiohttp._websocket.reader import WebSocketDataQueue
    from aiohttp._websocket.reader_py import WebSocketReader

    cc = int(w["close_code"])
    if not 0 <= cc <= 65535:
        return {"confirmed": False, "detail": f"code {cc} does not fit the frame"}
    loop = asyncio.new_event_loop()
    q = WebSocketDataQueue(mock.Mock(_reading_paused=False), 2 ** 16, loop=loop)
    r = WebSocketReader(q, 4 * 2 ** 20, False, True)
    frame = bytes([0x88, 2, cc >> 8, cc & 255])
    r.feed_data(frame)
    refused = q.exception() is not None
    valid = 3000 <= cc <= 4999 or cc in (1000, 1001, 1002, 1003, 1007, 1008, 1009, 1010, 1011, 1012, 1013, 1014)
    return {"confirmed": refused == valid, "detail": f"Close frame with status {cc}: "
            f"{'refused with ' + repr(q.exception()) if refused else 'delivered'}; wire-valid per RFC 6455 7.4 / IANA: {valid}",
            "input": frame.hex()}


@native("C15.conditional.precedence")
def r_conditional(model, obligation):
    """a real FileResponse on a temporary file whose mtime / entity tag stand in the witness relation to the request's
    conditional headers (dates are mapped order-preservingly into a range utime() accepts)"""
    w = model.get("__witness__") or {}
    if obligation != "C15.cond.precedence" or "present" not in w:
        return {"confirmed": False, "detail": "no replayable witness for this obligation"}
    import datetime
    import os
    import tempfile
    import unittest.mock as mock

    from aiohttp.helpers import ETag
    from aiohttp.web_fileresponse import FileResponse, _FileResponseResult as R

    has = w["present"]
    raw = {"mtime": int(w["mtime"]), "ius": int(w["if_unmodified_since"]), "ims": int(w["if_modified_since"])}
    rank = {v: i for i, v in enumerate(sorted(set(raw.values())))}
    t = {k: 1_000_000_000 + 1000 * rank[v] for k, v in raw.items()}
    with tempfile.TemporaryDirectory() as td:
        p = os.path.join(td, "f.bin")
        with open(p, "wb") as fh:
            fh.write(b"hello")
        os.utime(p, (t["mtime"], t["mtime"]))
        st = os.stat(p)
        tag = f"{st.st_mtime_ns:x}-{st.st_size:x}"
        dt = lambda s: datetime.datetime.fromtimestamp(s, datetime.timezone.utc)
        req = mock.Mock()
        req.if_match = (ETag(value=tag if w["if_match.matches"] else "other"),) if has["if_match"] else None
        req.if_none_match = (ETag(value=tag if w["if_none_match.matches"] else "other"),) if has["if_none_match"] else None
        req.if_unmodified_since = dt(t["ius"]) if has["if_unmodified_since"] else None
        req.if_modified_since = dt(t["ims"]) if has["if_modified_since"] else None
        res, fobj, _, _ = FileResponse(p)._make_response(req, "")
        if fobj is not None:
            fobj.close()
    pre_failed = (has["if_match"] and not w["if_match.matches"]) or \
        (not has["if_match"] and has["if_unmodified_since"] and t["mtime"] > t["ius"])
    not_mod = not pre_failed and ((has["if_none_match"] and w["if_none_match.matches"]) or
                                  (not has["if_none_match"] and has["if_modified_since"] and t["mtime"] <= t["ims"]))
    want = R.PRE_CONDITION_FAILED if pre_failed else R.NOT_MODIFIED if not_mod else R.SEND_FILE
    return {"confirmed": res is not want, "detail": f"headers present={has}, tag matches: If-Match={w['if_match.matches']} "
            f"If-None-Match={w['if_none_match.matches']}, mtime/IUS/IMS ranks={[rank[raw[k]] for k in ('mtime', 'ius', 'ims')]}: "
            f"real _make_response -> {res.name}, RFC 9110 13.2.2 -> {want.name}", "input": w}


def _req_parser(**kw):
    import unittest.mock as mock

    from aiohttp.http_parser import HttpRequestParserPy

    return HttpRequestParserPy(mock.Mock(_reading_paused=False), asyncio.new_event_loop(), 65536, **kw)


@native("C03.http.feed_data")
def r_http_feed_data(model, obligation):
    """the real HttpRequestParserPy, fed what the witness of the refuted obligation describes"""
    from aiohttp.http_exceptions import HttpProcessingError, LineTooLong

    w = model.get("__witness__") or {}
    if obligation == "C01.skip.only_empty_lines":
        # the rope domain knows the skipped bytes only through their end points, so the model's bytes in between are
        # not meaningful: replay the clause itself on the shortest strays (a lone CR, a lone LF, CR CR LF, LF CR LF)
        req = b"GET / HTTP/1.1\r\nHost: a\r\n\r\n"
        hits = []
        for stray in (b"\r", b"\n", b"\r\r\n", b"\n\r\n"):
            p = _req_parser()
            try:
                msgs, _, _ = p.feed_data(stray + req)
            except HttpProcessingError:
                continue
            if msgs:
                hits.append(stray)
        return {"confirmed": bool(hits), "detail": f"request accepted although preceded by {hits!r} (not whole CRLF sequences): "
                "the stray bytes were dropped" if hits else "every stray CR / LF in front of the start line is refused",
                "input": [(h + req).hex() for h in hits]}
    if obligation == "C10.limit.header_count" and "max_headers" in w:
        m = max(1, min(int(w["max_headers"]), 2000))
        p = _req_parser(max_headers=m)
        data = b"GET / HTTP/1.1\r\n" + b"".join(b"X-%d: y\r\n" % i for i in range(m + 5))
        try:
            p.feed_data(data)
        except HttpProcessingError as e:
            return {"confirmed": False, "detail": f"refused: {e!r}"}
        return {"confirmed": len(p._lines) > m, "detail": f"max_headers={m}: {len(p._lines)} header lines buffered for an "
                "unfinished message head without a refusal", "input": {"max_headers": m, "lines_sent": m + 6}}
    if obligation == "C10.limit.body_parser_inherits_limits":
        p = _req_parser(max_line_size=8000, max_field_size=9000)
        p.feed_data(b"POST / HTTP/1.1\r\nHost: a\r\nTransfer-Encoding: chunked\r\n\r\n")
        pp = p._payload_parser
        got = (getattr(pp, "_max_line_size", None), getattr(pp, "_max_field_size", None))
        return {"confirmed": got != (8000, 9000), "detail": f"parser(max_line_size=8000, max_field_size=9000): the chunked "
                f"body parser works with (max_line_size, max_field_size) = {got}", "input": "POST with Transfer-Encoding: chunked"}
    if obligation == "C03.limit.partial_line_not_early" and "limit" in w:
        lim = max(20, min(int(w["limit"]), 8190))
        first = bool(w.get("first_line", True))
        if first:
            line = b"GET /" + b"a" * (lim - len("GET / HTTP/1.1")) + b" HTTP/1.1"
            whole, cut = [line + b"\r\nHost: a\r\n\r\n"], [line + b"\r", b"\nHost: a\r\n\r\n"]
            kw = {"max_line_size": lim}
        else:
            fld = b"X: " + b"b" * (lim - 3)
            head = b"GET / HTTP/1.1\r\nHost: a\r\n"
            whole, cut = [head + fld + b"\r\n\r\n"], [head + fld + b"\r", b"\n\r\n"]
            kw = {"max_field_size": lim, "max_line_size": 8190}

        def run(chunks):
            p = _req_parser(**kw)
            n = 0
            try:
                for c in chunks:
                    n += len(p.feed_data(c)[0])
                return n
            except LineTooLong:
                return "LineTooLong"

        a, b_ = run(whole), run(cut)
        return {"confirmed": a != b_, "detail": f"{'start line' if first else 'field'} of exactly {lim} bytes: one read -> {a}, "
                f"cut between CR and LF -> {b_}", "input": {"limit": lim, "first_line": first}}
    return {"confirmed": False, "detail": "no replayable witness for this obligation"}


@native("C03.payload.entry_limits")
def r_entry_limits(model, obligation):
    """chunk-size lines and trailer fields around their limit through the real request parser, in one read and cut
    (in the middle, and between CR and LF), for max_line_size < max_field_size and the reverse; plus an over-long partial
    line that never ends.  The clauses replayed are the unit's: same verdict however the line is cut, and a partial line
    over its limit is refused at the next feed."""
    head = b"POST / HTTP/1.1\r\nHost: a\r\nTransfer-Encoding: chunked\r\n\r\n"

    def run(chunks, **kw):
        p = _req_parser(**kw)
        pl = None
        try:
            for c in chunks:
                msgs, _, _ = p.feed_data(c)
                if msgs:
                    pl = msgs[0][1]
        except Exception as e:  # noqa: BLE001
            return type(e).__name__
        if pl is not None and pl.exception() is not None:
            return type(pl.exception()).__name__
        return "accepted" if pl is not None and pl.is_eof() else "incomplete"

    bad = []
    for mls, mfs in ((40, 80), (80, 40)):
        kw = {"max_line_size": mls, "max_field_size": mfs}
        for kind, lim in (("chunk-size line", mls), ("trailer field", mfs)):
            for n in (lim, lim + 1):
                if kind == "chunk-size line":
                    line = b"5;x=" + b"e" * (n - 4)
                    pre, post = head, b"\r\nhello\r\n0\r\n\r\n"
                else:
                    line = b"X: " + b"t" * (n - 3)
                    pre, post = head + b"5\r\nhello\r\n0\r\n", b"\r\n\r\n"
                whole = run([pre + line + post], **kw)
                for name, chunks in (("mid-line", [pre + line[: n - 3], line[n - 3:] + post]),
                                     ("between CR and LF", [pre + line + b"\r", post[1:]])):
                    got = run(chunks, **kw)
                    if got != whole:
                        bad.append(f"{kind} of {n} bytes (limit {lim}, limits {mls}/{mfs}): one read -> {whole}, cut {name} -> {got}")
            # a partial line that is already over its limit must be refused when the next bytes arrive
            over = (b"5;x=" + b"e" * (lim + 6)) if kind == "chunk-size line" else (b"X: " + b"t" * (lim + 7))
            pre = head if kind == "chunk-size line" else head + b"5\r\nhello\r\n0\r\n"
            got = run([pre + over, b"e", b"e"], **kw)
            if got != "LineTooLong":
                bad.append(f"partial {kind} of {len(over)} bytes (limit {lim}, limits {mls}/{mfs}) is continued: {got}")
    return {"confirmed": bool(bad), "detail": "; ".join(bad[:4]) or "all line-limit verdicts independent of the cut", "input": bad}


@native("C01.te.is_chunked")
def r_is_chunked_te(model, obligation):
    """the real HttpRequestParser._is_chunked_te on the witness Transfer-Encoding value; the clause is re-evaluated on the
    value as the real code will split it"""
    w = model.get("__witness__") or {}
    if "codings" not in w:
        return {"confirmed": False, "detail": "no witness in the model"}
    from aiohttp.http_exceptions import BadHttpMessage
    from aiohttp.http_parser import HttpRequestParserPy

    te = ",".join(str(x) for x in w["codings"])
    parts = te.split(",")
    is_chunked = lambda p: p.strip(" \t").encode("latin1", "replace").lower() == b"chunked" and p.strip(" \t").isascii()
    ok = is_chunked(parts[-1]) and sum(1 for p in parts if is_chunked(p)) == 1
    try:
        got = HttpRequestParserPy._is_chunked_te(None, te)
    except BadHttpMessage:
        got = "refused"
    except Exception as e:  # noqa: BLE001
        return {"confirmed": True, "detail": f"_is_chunked_te({te!r}) raised {e!r}", "input": te}
    want = True if ok else "refused"
    return {"confirmed": got != want, "detail": f"Transfer-Encoding: {te!r} -> {got!r}; RFC 9112 6.1 (single, final chunked) -> {want!r}",
            "input": te}


@native("C06.proto.should_close")
def r_should_close(model, obligation):
    """a real ResponseHandler put into the witness state; should_close against 'not clean' as the property defines it"""
    w = (model.get("__witness__") or {}).get("state")
    ww = model.get("__witness__") or {}
    if not w or obligation != "C06.proto.should_close.equals_not_clean":
        return {"confirmed": False, "detail": "no replayable witness for this obligation"}
    import collections
    import unittest.mock as mock

    from aiohttp.client_proto import ResponseHandler
    from aiohttp.http_parser import HttpResponseParserPy

    loop = asyncio.new_event_loop()
    p = ResponseHandler(loop)
    p._should_close = bool(w["forced"])
    if w["has_payload"]:
        p._payload = mock.Mock()
        p._payload.is_eof.return_value = bool(w["payload_eof"])
    p._upgraded = bool(w["upgraded"])
    p._exception = RuntimeError("x") if w["failed"] else None
    p._payload_parser = mock.Mock() if w["custom_parser"] else None
    p._buffer = collections.deque([("msg", "payload")] if w["queued"] else [])
    p._tail = _b(w["tail"])
    retains = bool(ww.get("parser_retains_input"))
    if retains:
        p._parser = HttpResponseParserPy(p, loop, 65536)
        p._parser.feed_data(b"HTTP/1.1 200 OK\r\nContent-Le")  # an incomplete header block is held back inside
    clean = (not p._should_close and (not w["has_payload"] or w["payload_eof"]) and not p._upgraded and p._exception is None
             and p._payload_parser is None and not p._buffer and not p._tail and not retains)
    got = p.should_close
    return {"confirmed": bool(got) == bool(clean), "detail": f"state {w}, parser holds back input: {retains}: should_close={got!r}, "
            f"clean (property) = {clean!r}", "input": {"state": {k: (v if not isinstance(v, dict) else v) for k, v in w.items()}}}


@native("C15.range.parse")
def r_range_parse(model, obligation):
    """the real BaseRequest.http_range on 'Range: bytes=<first>-<last>' built from the counterexample's digit strings"""
    if "first.empty" not in model or "last.empty" not in model:
        return {"confirmed": False, "detail": "the counterexample does not describe a matched Range header"}
    from aiohttp.test_utils import make_mocked_request

    def digits(prefix):
        if model.get(prefix + ".empty"):
            return ""
        v = int(model.get(prefix + ".value", 0))
        return str(v) if v < 10 ** 40 else None

    a, b = digits("first"), digits("last")
    if a is None or b is None:
        return {"confirmed": False, "detail": "numbers too long to replay"}
    hdr = f"bytes={a}-{b}"
    req = make_mocked_request("GET", "/", headers={"Range": hdr})
    try:
        got = req.http_range
        got = (got.start, got.stop, got.step)
    except ValueError:
        got = "ValueError"
    if a == "" and b == "":
        want = "ValueError"
    elif a == "":
        want = "ValueError" if int(b) == 0 else (-int(b), None, 1)
    elif b == "":
        want = (int(a), None, 1)
    else:
        want = "ValueError" if int(a) > int(b) else (int(a), int(b) + 1, 1)
    return {"confirmed": got != want, "detail": f"Range: {hdr} -> {got!r}; RFC 7233 2.1 -> {want!r}", "input": hdr}


def _r_if_range(model):
    """a 10-byte static file over loop-back, `Range: bytes=2-` with If-Range = another entity-tag / the current one / the
    current one marked weak / no validator at all: 200 + whole file unless the validator is the current strong tag"""
    import os
    import tempfile

    import aiohttp
    from aiohttp import web

    got = {}

    async def run(td):
        p = os.path.join(td, "f.bin")
        with open(p, "wb") as fh:
            fh.write(b"0123456789")

        async def handler(request):
            return web.FileResponse(p)

        app = web.Application()
        app.router.add_get("/f", handler)
        runner = web.AppRunner(app)
        await runner.setup()
        site = web.TCPSite(runner, "127.0.0.1", 0)
        await site.start()
        url = f"http://127.0.0.1:{site._server.sockets[0].getsockname()[1]}/f"
        async with aiohttp.ClientSession() as cs:
            async with cs.get(url) as r:
                etag = r.headers["ETag"]
            for name, v in (("another entity-tag", '"deadbeef-a"'), ("current entity-tag", etag),
                            ("weak current tag", "W/" + etag), ("no validator", "yesterday")):
                async with cs.get(url, headers={"Range": "bytes=2-", "If-Range": v}) as r:
                    got[name] = (r.status, await r.read())
        await runner.cleanup()

    with tempfile.TemporaryDirectory() as td:
        asyncio.run(run(td))
    full = (200, b"0123456789")
    want = {"another entity-tag": full, "current entity-tag": (206, b"23456789"), "weak current tag": full,
            "no validator": full}
    bad = [f"If-Range: <{k}> + Range: bytes=2- -> {got[k][0]} with {len(got[k][1])} bytes (RFC 9110 13.1.5: {want[k][0]})"
           for k in want if got[k] != want[k]]
    return {"confirmed": bool(bad), "detail": "; ".join(bad) or "If-Range validators honoured",
            "input": {"file": "0123456789", "Range": "bytes=2-"}}


@native("C15.range.arith")
def r_range_arith(model, obligation):
    """a real static file of the counterexample's size served by web.FileResponse over loop-back, requested with the
    counterexample's Range: status, Content-Range, Content-Length and body against RFC 7233"""
    path = model.get("__path__") or []
    if "if_range" in obligation:
        return _r_if_range(model)
    keys = ("file_size", "first_pos", "last_pos", "suffix_len")
    if not all(k in model for k in keys):
        return {"confirmed": False, "detail": "counterexample lacks the range inputs"}
    size, a, b, s = (int(model[k]) for k in keys)
    if not (0 <= size <= 1 << 16 and 0 <= a <= 1 << 20 and 0 <= b <= 1 << 20 and 1 <= s <= 1 << 20):
        return {"confirmed": False, "detail": "numbers too large to replay on a real file"}
    import os
    import tempfile

    import aiohttp
    from aiohttp import web

    content = bytes(i % 251 for i in range(size))
    results = []

    async def run(td):
        p = os.path.join(td, "f.bin")
        with open(p, "wb") as fh:
            fh.write(content)
        app = web.Application()
        async def handler(request):
            return web.FileResponse(p)

        app.router.add_get("/f", handler)
        runner = web.AppRunner(app)
        await runner.setup()
        site = web.TCPSite(runner, "127.0.0.1", 0)
        await site.start()
        port = site._server.sockets[0].getsockname()[1]
        async with aiohttp.ClientSession(auto_decompress=False) as cs:
            for spec, want in ((f"bytes={a}-", (a, size - 1) if a < size else None),
                               (f"bytes={a}-{b}", (a, min(b, size - 1)) if a <= b and a < size else None),
                               (f"bytes=-{s}", (max(size - s, 0), size - 1) if size > 0 else None)):
                if spec == f"bytes={a}-{b}" and a > b:
                    continue
                async with cs.get(f"http://127.0.0.1:{port}/f", headers={"Range": spec, "Accept-Encoding": "identity"}) as r:
                    body = await r.read()
                    if want is None:
                        ok = r.status == 416 and r.headers.get("Content-Range") == f"bytes */{size}" and body == b""
                    else:
                        f_, l_ = want
                        ok = (r.status == 206 and r.headers.get("Content-Range") == f"bytes {f_}-{l_}/{size}"
                              and int(r.headers.get("Content-Length", -1)) == l_ - f_ + 1 and body == content[f_:l_ + 1])
                    if not ok:
                        results.append(f"size={size} Range: {spec} -> {r.status} Content-Range={r.headers.get('Content-Range')!r} "
                                       f"Content-Length={r.headers.get('Content-Length')!r} body[{len(body)}]; RFC 7233: "
                                       + (f"206 bytes {want[0]}-{want[1]}/{size}" if want else f"416 bytes */{size}"))
        await runner.cleanup()

    with tempfile.TemporaryDirectory() as td:
        asyncio.run(run(td))
    return {"confirmed": bool(results), "detail": "; ".join(results[:3]) or "all three range forms answered per RFC 7233",
            "input": {"size": size, "first": a, "last": b, "suffix": s}}
