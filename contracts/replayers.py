"""Native replayers: given the solver's counterexample for a refuted obligation of a unit, call the REAL, uninstrumented
code of the current /repo tree with those concrete inputs and evaluate the same clause in plain Python.  A VIOLATION line
carries no `no-failing-input-found` suffix exactly when the replayer confirms.  (Units whose inputs are abstract - event
logs, havocked heaps, prefix-domain texts - have no replayer: their replay file carries the model and the failed
obligation only.)"""
import asyncio

from pyvc.registry import native


def _b(x, default=b""):
    if x is None:
        return default
    if isinstance(x, (bytes, bytearray)):
        return bytes(x)
    if isinstance(x, dict) and "__bytes__" in x:
        return bytes.fromhex(x["__bytes__"])
    return default


@native("C16.domain_match")
def r_domain_match(model, obligation):
    from aiohttp.cookiejar import CookieJar
    from aiohttp.helpers import is_ip_address

    d, h = model.get("domain", ""), model.get("hostname", "")
    try:
        got = CookieJar._is_domain_match(d, h)
    except Exception as e:  # noqa: BLE001
        return {"confirmed": True, "detail": f"_is_domain_match({d!r}, {h!r}) raised {e!r}", "input": [d, h]}
    want = (h == d) or (d != "" and h.endswith("." + d) and not is_ip_address(h))
    return {"confirmed": bool(got) != bool(want), "detail": f"_is_domain_match({d!r}, {h!r}) = {got!r}, RFC 6265 5.1.3 says {want!r}",
            "input": [d, h]}


@native("C19.writer.base64")
def r_b64_writer(model, obligation):
    import base64

    from aiohttp.multipart import MultipartPayloadWriter

    pending, chunk = _b(model.get("pending")), _b(model.get("chunk"))
    # the obligation constrains only the LENGTHS (contents are free in the counterexample): give every byte a
    # distinct value so that loss, duplication or reordering is visible
    pending = bytes((i + 1) % 256 for i in range(len(pending)))
    chunk = bytes((len(pending) + i + 1) % 256 for i in range(len(chunk)))
    out = []

    class W:
        async def write(self, b):
            out.append(bytes(b))

    async def run():
        w = MultipartPayloadWriter(W())
        w.enable_encoding("base64")
        w._encoding_buffer = bytearray(pending)
        await w.write(chunk)
        await w.write_eof()

    asyncio.run(run())
    decoded = b"".join(base64.b64decode(x) for x in out)
    ok = decoded == pending + chunk
    return {"confirmed": not ok, "detail": f"pending={pending!r} chunk={chunk!r}: decoded pieces give {decoded!r}",
            "input": {"pending": pending.hex(), "chunk": chunk.hex()}}


@native("C19.reader.align_base64")
def r_align(model, obligation):
    from aiohttp.multipart import BodyPartReader

    chunk, size, at_eof = _b(model.get("chunk")), int(model.get("size", 1)), bool(model.get("at_eof", False))
    r = BodyPartReader.__new__(BodyPartReader)
    r._at_eof, r._length, r._read_bytes, r._b64_carry = at_eof, None, 0, b""
    try:
        res = r._align_base64_chunk(chunk, size)
    except Exception as e:  # noqa: BLE001
        return {"confirmed": True, "detail": f"_align_base64_chunk({chunk!r}, {size}) raised {e!r}"}
    ok = res + r._b64_carry == chunk and (res or not chunk)
    return {"confirmed": not ok, "detail": f"chunk={chunk!r} size={size}: returned {res!r}, carried {r._b64_carry!r}",
            "input": {"chunk": chunk.hex(), "size": size, "at_eof": at_eof}}


@native("C18.total.deadline")
def r_deadline(model, obligation):
    from aiohttp.helpers import TimeoutHandle

    now, timeout, thr = (float(model.get(k, 0.0) or 0.0) for k in ("now", "timeout", "ceil_threshold"))
    sched = []

    class Loop:
        def time(self):
            return now

        def call_at(self, when, cb):
            sched.append(when)
            return "H"

    h = TimeoutHandle(Loop(), timeout, ceil_threshold=thr)
    h.start()
    if timeout <= 0:
        return {"confirmed": bool(sched), "detail": f"timeout={timeout}: timers {sched}"}
    bad = (not sched) or not (now + timeout <= sched[0] < now + timeout + 1) or (timeout < thr and sched[0] != now + timeout)
    return {"confirmed": bool(bad), "detail": f"now={now} timeout={timeout} threshold={thr}: scheduled at {sched}",
            "input": {"now": now, "timeout": timeout, "ceil_threshold": thr}}


@native("C04.inj.safe_header")
def r_safe_header(model, obligation):
    from aiohttp.http_writer import _safe_header

    s = model.get("s", "")
    if not isinstance(s, str):
        return {"confirmed": False, "detail": "no string in the model"}
    forbidden = any(ord(ch) in (*range(0, 9), *range(10, 32), 127) for ch in s)
    try:
        r = _safe_header(s)
    except ValueError:
        return {"confirmed": not forbidden, "detail": f"_safe_header({s!r}) refused a clean string" if not forbidden else "refused", "input": s}
    except Exception as e:  # noqa: BLE001
        return {"confirmed": True, "detail": f"_safe_header({s!r}) raised {e!r}", "input": s}
    return {"confirmed": forbidden or r != s, "detail": f"_safe_header({s!r}) -> {r!r} (forbidden char present: {forbidden})", "input": s}


@native("C02.client.framing")
def r_client_framing(model, obligation):
    """rebuild the request with the real ClientRequest and look at headers + writer mode"""
    w = model.get("__witness__") or {}
    if not w:
        return {"confirmed": False, "detail": "no witness in the model"}
    import aiohttp
    from aiohttp.client_reqrep import ClientRequest
    from multidict import CIMultiDict
    from yarl import URL

    async def run():
        loop = asyncio.get_running_loop()
        headers = CIMultiDict()
        if w.get("caller_cl"):
            headers["Content-Length"] = "5"
        if w.get("caller_te"):
            headers["Transfer-Encoding"] = "chunked"
        data = {0: None, 1: b"hello"}.get(w.get("body"), None)
        async with aiohttp.ClientSession() as s:
            req = ClientRequest("POST" if data is not None else "GET", URL("http://h/"), params=None, headers=headers,
                                skip_auto_headers=None, data=data, cookies=None, version=aiohttp.HttpVersion11,
                                compress=False, chunked=w.get("chunked"), expect100=False, loop=loop, response_class=None,
                                proxy=None, response_params=None, timer=None, timeout=None, session=s, ssl=True,
                                proxy_headers=None, traces=[], trust_env=False, server_hostname=None)
            import unittest.mock as mock

            wr = req._create_writer(mock.Mock())
            return dict(req.headers), wr.chunked

    try:
        hdrs, chunking = asyncio.run(run())
    except ValueError as e:
        return {"confirmed": False, "detail": f"refused: {e}"}
    cl = any(k.lower() == "content-length" for k in hdrs)
    te = "chunked" in {k.lower(): v for k, v in hdrs.items()}.get("transfer-encoding", "").lower()
    bad = (cl and te) or (chunking != te)
    return {"confirmed": bool(bad), "detail": f"headers={hdrs} writer.chunked={chunking}", "input": w}
