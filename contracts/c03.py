"""C03 / C10 / C01 (body level) - the resumable HTTP parsers: segmentation independence as resumability, limits,
totality, chunked-coding gates.

Functions under contract (real text from /repo/aiohttp/http_parser.py):
  HttpPayloadParser.feed_data (PARSE_LENGTH, PARSE_CHUNKED, PARSE_UNTIL_EOF), HttpParser.feed_data

Resumability (DESIGN section 1): the outcome cannot depend on how the stream is cut iff at every exit that leaves
input unconsumed (a) the unconsumed bytes are stored exactly and re-prepended by the next call, (b) every local that
is carried across loop iterations is recomputable from the object state (no per-call hidden state), (c) the limit
applied to a partial line is the limit of the complete line.

Stream data are provenance ropes (positions are exact, LIA); content predicates on them (b"\\n" in x, regex gates)
are uninterpreted but functional - "this very value passed that very test on this path" (dominance) is what the
obligations need.
"""
import z3

from pyvc import And, Implies, Ite, Not, Or, SBytes, SInt, U, blen, fields, is_sym, mk_bool, mk_int, stubs, tint
from pyvc import regexlang as RL
from pyvc.registry import unit
from specs import rfc9110 as rfc

MOD = "aiohttp.http_parser"
FN_PP = "http_parser:HttpPayloadParser.feed_data"


def live():
    import importlib

    from pyvc import instrument

    instrument._ensure_repo_on_path()
    return importlib.import_module(MOD)


def errs():
    import importlib

    live()
    return importlib.import_module("aiohttp.http_exceptions")


def rope_eq(a, b):
    """equality of two byte strings by provenance (ropes) or by value (concrete)"""
    if isinstance(a, SBytes) or isinstance(b, SBytes):
        return SBytes.of(a).prov_eq(SBytes.of(b))
    return a == b


class AbsLines:
    """list[bytes] field: `count` earlier lines (summary) + lines appended during this call"""

    _pyvc_sym = True

    def __init__(self, u, name):
        self.u = u
        self.count = u.int(name + ".count", 0)
        self.new = []

    def append(self, x):
        self.new.append(x)

    def sym_len(self):
        return self.count + len(self.new)

    def sym_getitem(self, i):
        if i == -1 and self.new:
            return self.new[-1]
        raise AssertionError(f"AbsLines[{i!r}]")

    def clear(self):
        self.count = 0
        self.new = []

    def __bool__(self):
        return self.u.branch(self.sym_len() != 0, "lines.nonempty")


class Payload:
    """StreamReader / DeflateBuffer seen from the parser: feed_data returns 'more data available' (a decompressor
    holds pending output); every call is logged"""

    def __init__(self, u):
        self.u = u
        self.log = []

    def feed_data(self, data):
        more = self.u.bool("more_data_available")
        self.log.append(("feed", data, more))
        # re-entrancy: the reader may cross its high-water mark and call protocol.pause_reading(), which reaches
        # HttpPayloadParser.pause_reading() and sets _paused on the very parser that is feeding
        if self.parser is not None and self.u.choose(2, "reader_requests_pause"):
            fields(self.parser)["_paused"] = True
        return more

    parser = None

    def feed_eof(self):
        self.log.append(("eof",))

    def begin_http_chunk_receiving(self):
        self.log.append(("begin_chunk",))

    def end_http_chunk_receiving(self):
        self.log.append(("end_chunk",))


def mk_payload_parser(u: U, kind):
    payload = Payload(u)
    hp_calls = []

    def parse_headers(self, lines):
        hp_calls.append((lines, lines.sym_len() if isinstance(lines, AbsLines) else len(lines)))
        if u.choose(2, "trailer_headers_invalid"):
            raise errs().InvalidHeader(b"bad trailer")
        return {}, ()

    p = u.obj("HttpPayloadParser", {
        "_length": u.int("length", 0),
        "_length_expected": u.int("length_expected", 0),
        "_paused": False,  # invariant between calls (re-established at every exit: C09.pause.*)
        "_type": int(kind),
        "_chunk": u.int("chunk_state"),
        "_chunk_size": u.int("chunk_size", 0),
        "_chunk_tail": SBytes.fresh("chunk_tail"),
        "_auto_decompress": True,
        "_lax": bool(u.choose(2, "lax")),
        "_headers_parser": u.obj("HeadersParser", {}, {"parse_headers": parse_headers}),
        "_max_line_size": u.int("max_line_size", 1),
        "_max_field_size": u.int("max_field_size", 1),
        "_max_trailers": u.int("max_trailers", 0),
        "_more_data_available": u.bool("more_data_available0"),
        "_trailer_lines": AbsLines(u, "trailer_lines"),
        "done": False,
        "_eof_pending": u.bool("eof_pending"),
        "payload": payload,
    }, {}, const=("_type", "_lax", "_headers_parser", "_max_line_size", "_max_field_size", "_max_trailers", "payload",
                  "_auto_decompress"),
        init=(MOD, "HttpPayloadParser.__init__", (payload,), {"headers_parser": None}))
    payload.parser = p
    return p, payload, hp_calls


SIZE, CHUNK, CHUNK_EOF, TRAILERS = 0, 1, 2, 4


def Ipp(p):
    """state invariant of the chunked payload parser between calls"""
    st = p._chunk
    return [
        ("state", Or(st == SIZE, st == CHUNK, st == CHUNK_EOF, st == TRAILERS)),
        ("chunk_size", p._chunk_size >= 0),
        ("trailers_only_in_trailers", Implies(st != TRAILERS, p._trailer_lines.sym_len() == 0)),
        ("trailer_count", p._trailer_lines.sym_len() <= p._max_trailers),
    ]


def _length_loop(u, p):
    u.loop(FN_PP, 0, inv=lambda L: [("true", True)], havoc=lambda L: (fields(p).__setitem__("_paused", u.bool("paused@loop")),
                                                                       fields(p).__setitem__("_more_data_available", u.bool("more@loop"))))


@unit("C03", "payload.length", functions=[f"{MOD}:HttpPayloadParser.feed_data"], also=("C10", "C02", "C09"))
def payload_length(u: U):
    """PARSE_LENGTH: exactly the first `remaining` bytes of (stored tail ++ chunk) go to the payload, the rest is
    returned (complete) or stored (paused) - never dropped or duplicated - and the remaining length is exact."""
    H = live()
    p, payload, _ = mk_payload_parser(u, H.ParseState.PARSE_LENGTH)
    chunk_in = u.bytes("chunk")
    tail0 = p._chunk_tail
    T = tail0 + chunk_in
    need0 = p._length
    u.assume(need0 >= 1)  # a finished body never reaches feed_data (done)
    f = u.load(MOD, "HttpPayloadParser.feed_data")
    _length_loop(u, p)
    out = u.call(f, p, chunk_in)
    u.check("C10.escape.payload.length", out.ok, f"PARSE_LENGTH raises nothing, got {out.exc!r}")
    if not out.ok:
        return
    state, rest = out.value
    n = blen(T)
    take = Ite(n < need0, n, need0)
    feeds = [e for e in payload.log if e[0] == "feed"]
    first = feeds[0][1] if feeds else None
    u.check("C02.body.length.fed_prefix", rope_eq(first, T.slice(0, take)) if first is not None else False,
            "the payload receives exactly the first min(remaining, available) bytes, in order")
    u.check("C02.body.length.only_drain_after", all((not isinstance(e[1], SBytes)) and e[1] == b"" for e in feeds[1:]),
            "further feed_data calls only drain the decompressor (empty input)")
    u.check("C03.restart.length.remaining", p._length == need0 - take, "remaining length decreases by exactly the bytes fed")
    remainder = T.slice(take, None)
    if state is H.PayloadState.PAYLOAD_COMPLETE:
        u.check("C03.tail.length.complete", And(p._length == 0, rope_eq(rest, remainder), ("eof",) in payload.log,
                                                blen(p._chunk_tail) == 0),
                "body complete: the bytes after it are returned untouched, nothing is kept")
    elif state is H.PayloadState.PAYLOAD_HAS_PENDING_INPUT:
        u.check("C03.tail.length.paused", And(blen(rest) == 0, rope_eq(p._chunk_tail, remainder)),
                "paused: the unconsumed bytes (everything after the body part) are stored exactly",
                witness={"need": need0, "available": n})
        u.check("C09.pause.length.flag_consumed", Not(p._paused), "the pause request is consumed")
    else:
        u.check("C03.tail.length.needs_input", And(p._length >= 1, blen(rest) == 0, n <= need0, blen(p._chunk_tail) == 0),
                "needs input only when everything available was fed and the body is still incomplete")
        u.check("C09.pause.no_stale_flag.length", Not(p._paused),
                "when the parser asks for more input no pause request is left behind")


def _exc_locals(exc):
    tb = exc.__traceback__
    loc = None
    while tb is not None:
        if tb.tb_frame.f_code.co_filename.startswith("<pyvc:"):
            loc = tb.tb_frame.f_locals
        tb = tb.tb_next
    return dict(loc or {})


@unit("C03", "payload.chunked", functions=[f"{MOD}:HttpPayloadParser.feed_data"], also=("C10", "C01", "C09"))
def payload_chunked(u: U):
    """PARSE_CHUNKED: loop invariant (state well-formed, nothing stored inside the loop); each iteration only drops a
    prefix of the unconsumed input; chunk-size gate, LF rejection, CRLF after data, trailer validation incl. lines from
    earlier calls, exact tail at every incomplete exit, limits, only protocol errors."""
    H = live()
    E = errs()
    p, payload, hp_calls = mk_payload_parser(u, H.ParseState.PARSE_CHUNKED)
    for _, c in Ipp(p):
        u.assume(c)
    chunk_in = u.bytes("chunk")
    tail0 = p._chunk_tail
    lax = p._lax
    SEP = b"\r\n" if not lax else (b"\r\n", b"\n")[u.choose(2, "sep")]
    n_tr0 = p._trailer_lines.count
    f = u.load(MOD, "HttpPayloadParser.feed_data", globals={"set_exception": lambda pl, exc, *a: None})
    head = {}

    def inv(L):
        return Ipp(p) + [("tail_empty_inside", blen(p._chunk_tail) == 0)]

    def havoc(L):
        fs = fields(p)
        fs["_chunk"] = u.int("chunk_state@loop")
        fs["_chunk_size"] = u.int("chunk_size@loop", 0)
        fs["_paused"] = u.bool("paused@loop")
        fs["_more_data_available"] = u.bool("more@loop")
        fs["_chunk_tail"] = b""
        tl = fs["_trailer_lines"]
        tl.count, tl.new = u.int("trailer_count@loop", 0), []

    def at_head(L):
        head.update(chunk=SBytes.of(L["chunk"]), state=p._chunk, size=p._chunk_size, nlog=len(payload.log),
                    ntr=p._trailer_lines.sym_len())

    def size_line_obligations(L):
        # an accepted chunk-size line (we were in SIZE at the head and the state moved on)
        if "chunk" not in head or "size_b" not in L or "pos" not in L or not isinstance(L["size_b"], SBytes):
            return
        if not u.branch(And(head["state"] == SIZE, p._chunk != SIZE), "accepted_size_line"):
            return
        size_b, hc = L["size_b"], head["chunk"]
        gates = getattr(size_b, "matched", ())
        gate_ok = any(RL.subset(RL.lang(pt, "fullmatch"), rfc.HEXDIGITS)[0] == "subset" for pt in gates)
        u.check("C01.chunk.size.hex", gate_ok, "an accepted chunk size passed a gate whose language is within 1*HEXDIG")
        i_loc = L.get("i")
        has_ext = is_sym(i_loc) or (isinstance(i_loc, int) and i_loc >= 0)
        ext = L.get("ext")
        with_ext = has_ext and u.branch(i_loc >= 0, "has_ext")
        if isinstance(ext, SBytes) and with_ext:
            u.check("C01.chunk.ext.no_lf", Not(ext.sym_contains(b"\n")), "an accepted chunk extension contains no bare LF")
            u.check("C01.chunk.ext.no_bare_cr", Not(ext.sym_contains(b"\r")),
                    "an accepted chunk extension contains no bare CR either (RFC 9112 7.1.1: chunk-ext is tokens and quoted "
                    "strings; a CR that is not part of the line's CRLF is a control byte another parser may take for a "
                    "line end)", known=[("F1c", True)], witness={"chunk_size_line": "5;a\\rb"})
        # `pos` is re-used by the trailer section when the size was 0 (same iteration): the positional facts are
        # observable at the back edge only for a non-zero size
        if "size" in L and u.branch(L["size"] != 0, "nonzero_size"):
            if not lax:
                cut = i_loc if with_ext else L["pos"]
                u.check("C01.chunk.size.untrimmed", size_b.prov_eq(hc.slice(0, cut)),
                        "strict mode: the digits are the untrimmed bytes before ';' or the line end (no whitespace tolerated)")
            u.check("C10.limit.chunk_size_line", L["pos"] <= p._max_line_size,
                    "a chunk-size line longer than max_line_size is refused")

    def suffix_step(cur):
        if "chunk" not in head or cur is None:
            return
        hc, ch = head["chunk"], SBytes.of(cur)
        n = blen(hc)
        # new == head[k:] for k = len(head) - len(new): dropping a prefix only
        k = n - blen(ch)
        u.check("C03.tail.chunked.suffix_step", And(k >= 0, ch.prov_eq(hc.slice(k, None))),
                "each iteration only drops a prefix of the unconsumed input (never reorders, inserts or duplicates)")

    def at_back(L):
        size_line_obligations(L)
        suffix_step(L["chunk"])

    u.loop(FN_PP, 1, inv=inv, havoc=havoc, at_head=at_head, at_back=at_back,
           types={"chunk": lambda nm: SBytes.fresh(nm, register=False)})
    out = u.call(f, p, chunk_in, SEP)
    L = u.last_locals.get(FN_PP, {}) if out.ok else _exc_locals(out.exc)
    if not out.ok:
        u.check("C10.escape.payload.chunked",
                isinstance(out.exc, (E.TransferEncodingError, E.LineTooLong, E.BadHttpMessage, E.InvalidHeader)),
                f"only HTTP protocol errors escape the chunked parser, got {type(out.exc).__name__}")
        if isinstance(out.exc, E.LineTooLong) and head:
            u.cover("C10.limit.line_too_long")
        msg = getattr(out.exc, "message", None)
        u.check("C10.error_message_encodable.payload",
                not (isinstance(msg, stubs.SDecoded) and msg.errors == "surrogateescape"),
                "the message of a protocol error raised by the chunked parser is never raw surrogateescape-decoded wire "
                "text: the server renders it into the 400 response (UTF-8), where a lone surrogate raises inside the "
                "connection task and the client gets an empty reply instead of the 400",
                known=[("F10c", True)], witness={"request": "chunk-size line b'\\xff'"})
        return
    state, rest = out.value
    if head:
        size_line_obligations(L)
    cur = L.get("chunk")
    if state is H.PayloadState.PAYLOAD_COMPLETE:
        u.cover("C03.chunked.complete")
        suffix_step(cur)
        u.check("C03.tail.chunked.complete", And(rope_eq(rest, cur) if cur is not None else blen(rest) == 0,
                                                 ("eof",) in payload.log, blen(p._chunk_tail) == 0),
                "message complete: exactly the bytes after the terminating CRLF are handed back")
        u.check("C01.trailers.validated", len(hp_calls) == 1, "completion goes through HeadersParser.parse_headers exactly once")
        if hp_calls:
            lines, ln = hp_calls[-1]
            u.check("C01.trailers.all_lines_validated", And(lines is p._trailer_lines, ln == head.get("ntr", n_tr0) + 1),
                    "the trailer section is validated as a whole: every trailer line received since the last chunk "
                    "(also in earlier calls) goes through the header parser")
        return
    # PAYLOAD_NEEDS_INPUT / PAYLOAD_HAS_PENDING_INPUT: resumability
    u.cover("C03.chunked.incomplete")
    u.check("C03.tail.chunked.rest_empty", blen(rest) == 0, "nothing is handed back while the body is incomplete")
    tail = p._chunk_tail
    st = p._chunk
    if head:
        suffix_step(cur)
        stored_ok = rope_eq(tail, cur) if cur is not None else blen(tail) == 0
        fed_all = And(blen(tail) == 0, blen(cur) == 0 if cur is not None else True, st == CHUNK,
                      state is H.PayloadState.PAYLOAD_NEEDS_INPUT)
        u.check("C03.tail.chunked.exact", Or(stored_ok, fed_all),
                "the unconsumed input is stored byte for byte (or everything was fed into the current chunk)")
        # position = (state, tail): a byte taken off the input without being delivered as chunk data and without a
        # state change is forgotten - the next call takes the same kind of byte off again (lax mode: CR CR LF after
        # the chunk data is refused in one read, accepted when the read ends between the two CRs).  Stated for an
        # iteration that starts in CHUNK or CHUNK_EOF (one that starts at a size line also consumes that line; the
        # code after the size line sees a (state, input) pair that is itself an admissible loop-head configuration)
        fed = sum((blen(e[1]) for e in payload.log[head["nlog"]:] if e[0] == "feed"), 0)
        u.check("C03.restart.chunk_eof.nothing_of_the_terminator_consumed",
                Implies(And(st == CHUNK_EOF, Or(head["state"] == CHUNK, head["state"] == CHUNK_EOF)),
                        blen(head["chunk"]) - blen(tail) == fed),
                "a call that stops between the chunk data and its line end has taken nothing but chunk data off the "
                "input: whatever it saw of the terminator (a lone CR in lax mode too) is kept for the next call, so that "
                "one read and two reads accept the same terminators", witness={"lax": lax, "stream": "3\\r\\nabc\\r|\\r\\n0\\r\\n\\r\\n"})
    else:
        # no iteration at all: (tail0 ++ chunk) was empty and nothing pending
        u.check("C03.tail.chunked.noop", blen(tail0) + blen(chunk_in) == 0, "the loop is skipped only when there is no input")
    if isinstance(tail, SBytes):
        u.check("C01.lf.chunk_tail", Implies(Or(st == SIZE, st == TRAILERS), Not(tail.sym_contains(b"\n"))),
                "a partial chunk-size / trailer line kept for the next read contains no LF")
        if not lax:
            u.check("C03.restart.chunk_eof.partial_crlf", Implies(And(st == CHUNK_EOF, blen(tail) > 0), tail == b"\r"),
                    "between chunk data and its CRLF only a proper prefix of CRLF is ever kept")
    for nm, c in Ipp(p):
        u.check(f"C03.restart.state.{nm}", c, "the parser state describes the same position as the in-call state")
    if state is H.PayloadState.PAYLOAD_NEEDS_INPUT:
        # a pause request is either honoured (HAS_PENDING_INPUT, input stored) or void; it must not survive a
        # return that asks for more network input: the next segment would be parked although nobody will resume
        u.check("C09.pause.no_stale_flag", Not(p._paused),
                "when the parser asks for more input no pause request is left behind", witness={"state": st})
    if state is H.PayloadState.PAYLOAD_HAS_PENDING_INPUT:
        u.check("C09.pause.chunked", And(Not(p._paused), st == CHUNK), "a pause is honoured before feeding more chunk data, and consumed")


@unit("C03", "payload.entry_limits", functions=[f"{MOD}:HttpPayloadParser.feed_data"], also=("C10",))
def payload_entry_limits(u: U):
    """a stored partial line longer than its limit (max_line_size for a chunk-size line, max_field_size for a trailer
    line) is refused at the next feed: same limit for the partial and the complete line."""
    H = live()
    E = errs()
    p, payload, _ = mk_payload_parser(u, H.ParseState.PARSE_CHUNKED)
    for _, c in Ipp(p):
        u.assume(c)
    tail0 = p._chunk_tail
    st0 = p._chunk
    u.assume(blen(tail0) > 0)
    f = u.load(MOD, "HttpPayloadParser.feed_data", globals={"set_exception": lambda *a: None})
    reached = []
    u.loop(FN_PP, 1, inv=lambda L: [("t", True)], at_head=lambda L: reached.append(1), havoc=lambda L: None,
           types={"chunk": lambda nm: SBytes.fresh(nm, register=False)})
    out = u.call(f, p, u.bytes("chunk"))
    limit = Ite(st0 == TRAILERS, p._max_field_size, p._max_line_size)
    # the length of a line excludes its terminator: a trailing CR may be the first half of CRLF and is not counted
    # (the complete-line path measures the line up to the CR), so at most limit + 1 bytes are retained
    content = blen(tail0) - Ite(tail0.byte_at(blen(tail0) - 1) == 13, 1, 0)
    too_long = And(st0 != CHUNK, content > limit)
    if reached:
        u.check("C10.limit.partial_line_checked", Not(too_long),
                "parsing continues past the stored partial line only if it is within the limit of its line kind "
                "(chunk-size line: max_line_size, trailer line: max_field_size)")
    elif not out.ok:
        u.check("C10.limit.partial_line_error", isinstance(out.exc, E.LineTooLong),
                "the only early refusal is LineTooLong (for an over-long partial line: next obligation)")
        if isinstance(out.exc, E.LineTooLong):
            u.check("C03.limit.chunk_partial_line_not_early", too_long,
                    "a stored partial chunk-size / trailer line is refused only if no continuation can make it acceptable: "
                    "a line of exactly the limit cut between its CR and LF is the same line as in one read",
                    known=[("F3f", And(st0 != CHUNK, blen(tail0) == limit + 1))],
                    witness={"tail_len": blen(tail0), "limit": limit, "state": st0})


FN_HP = "http_parser:HttpParser.feed_data"


class _Msg:
    """RawRequestMessage / RawResponseMessage as produced by parse_message (its contract: C01.request_line)"""

    def __init__(self, u, is_request):
        from pyvc.text import SText

        self.u = u
        self.upgrade = u.bool("msg.upgrade")
        self.chunked = u.bool("msg.chunked")
        self.should_close = u.bool("msg.should_close")
        self.compression = None
        from pyvc.text import SNumText

        cl = bool(u.choose(2, "content_length_header"))
        self.cl_text = SNumText("content_length") if cl else None
        if is_request:
            self.method = ("GET", "POST", "CONNECT", "HEAD")[u.choose(4, "method")]
        else:
            self.code = (200, 204, 101)[u.choose(3, "code")]
        msg = self

        class _H:
            def get(self, name, default=None):
                return msg.cl_text if str(name) == "Content-Length" else default

            def sym_contains(self, name):
                return bool(u.choose(2, "has_sec_websocket_key1")) if "Key1" in str(name) else False

        self.headers = _H()

    def sym_isinstance(self, ts):
        return True  # it is the message type of the parser under verification


def mk_http_parser(u: U, *, is_request=True):
    from pyvc.values import SList

    E = errs()
    msgs = []
    pp_feeds = []

    def parse_message(self, lines):
        k = u.choose(2, "parse_message.raises")
        if k:
            raise E.BadHttpMessage("symbolic bad message")
        m = _Msg(u, is_request)
        msgs.append((m, lines, lines.sym_len() if hasattr(lines, "sym_len") else len(lines)))
        return m

    class _PP:
        """HttpPayloadParser seen from HttpParser.feed_data (contract proved in payload.* units)"""

        def __init__(self, done=None, **kw):
            self.kw = kw
            self.done = u.bool("payload_parser.done") if done is None else done
            self.payload = "PAYLOAD"

        def feed_data(self, data, SEP=None):
            H = live()
            k = u.choose(4, "payload.feed_data")
            pp_feeds.append((data, k))
            if k == 3:
                raise E.TransferEncodingError("symbolic")
            if k == 0:
                return H.PayloadState.PAYLOAD_NEEDS_INPUT, b""
            if k == 1:
                return H.PayloadState.PAYLOAD_HAS_PENDING_INPUT, b""
            # complete: the rest is a suffix of the input
            d = SBytes.of(data)
            j = u.int("payload.rest_from", 0)
            u.assume(j <= blen(d))
            return H.PayloadState.PAYLOAD_COMPLETE, d.slice(j, None)

    has_pp = bool(u.choose(2, "payload_parser_active"))
    p = u.obj("HttpParser", {
        "protocol": "PROTOCOL", "loop": None, "timer": None, "code": None, "method": None, "payload_exception": None,
        "response_with_body": True, "read_until_eof": u.bool("read_until_eof"),
        "max_line_size": u.int("max_line_size", 1), "max_field_size": u.int("max_field_size", 1),
        "max_headers": u.int("max_headers", 1),
        "_lines": SList("lines"), "_tail": SBytes.fresh("tail"), "_upgraded": u.bool("upgraded"),
        "_pending_upgrade": u.bool("pending_upgrade"), "_payload": None,
        "_payload_parser": _PP(done=False) if has_pp else None,
        "_payload_has_more_data": u.bool("payload_has_more_data"),
        "_auto_decompress": True, "_limit": 65536, "_headers_parser": "HEADERS_PARSER",
        "_max_msg_queue_size": u.int("max_msg_queue_size", 0), "_msg_in_flight": u.int("msg_in_flight", 0),
        "lax": False,
    }, {"parse_message": parse_message},
        init=(MOD, "HttpParser.__init__", ("PROTOCOL", None, 65536), {}), real=(MOD, "HttpParser"),
        const=("protocol", "loop", "timer", "max_line_size", "max_field_size", "max_headers", "_max_msg_queue_size",
               "read_until_eof", "lax", "_limit", "_headers_parser", "_auto_decompress", "code", "method",
               "payload_exception", "response_with_body"))
    return p, msgs, pp_feeds, _PP, has_pp


def Ihp(p):
    return [
        ("lines_bound", p._lines.sym_len() <= p.max_headers),
        ("in_flight", p._msg_in_flight >= 0),
        ("no_lines_while_body", Implies(Or(p._payload_parser is not None, p._upgraded), p._lines.sym_len() == 0)),
    ]


@unit("C03", "http.feed_data", functions=[f"{MOD}:HttpParser.feed_data"], timeout_ms=20000, also=("C10", "C01", "C05", "C02"))
def http_feed_data(u: U):
    """HttpParser.feed_data: resumability of the message-head loop - exact tail, no hidden per-call state, same limit
    for a partial and a complete line, bare LF refused, limits, queue cap, only protocol errors."""
    from pyvc.values import SList

    H = live()
    E = errs()
    p, msgs, pp_feeds, _PP, has_pp = mk_http_parser(u)
    for _, c in Ihp(p):
        u.assume(c)
    # between calls with buffered header lines there is no LF in the tail and the tail is a partial line
    data_in = u.bytes("data")
    tail0 = p._tail
    nlines0 = p._lines.sym_len()
    inflight0 = p._msg_in_flight
    mk_sr = lambda *a, **k: "STREAMREADER"

    def mk_pp(payload, **kw):
        # the body parser of a message works under the limits of the connection's parser (its own __init__ contract,
        # C09.payload_parser.init, stores what it is given)
        same = lambda k, v: k in kw and (kw[k] is v or (not is_sym(kw[k]) and not is_sym(v) and kw[k] == v))
        u.check("C10.limit.body_parser_inherits_limits",
                same("max_line_size", p.max_line_size) and same("max_field_size", p.max_field_size)
                and same("limit", p._limit) and same("headers_parser", p._headers_parser) and "max_trailers" in kw,
                "the payload parser created for a message body is given this parser's max_line_size, max_field_size, read "
                "limit and header parser (chunk-size lines and trailer fields are held to the configured limits)",
                witness={"kwargs": sorted(kw)})
        if "max_trailers" in kw and head:
            u.check("C10.limit.trailers_share_header_budget", kw["max_trailers"] == p.max_headers - (head["nlines"] + 1),
                    "trailer fields are limited to what the header block left of max_headers")
        return _PP(**kw)

    # helper methods of the real class (followed through real=) see the same stand-ins for the collaborators
    u.module_globals[MOD] = {"StreamReader": mk_sr, "HttpPayloadParser": mk_pp}
    f = u.load(MOD, "HttpParser.feed_data",
               globals={"StreamReader": mk_sr, "HttpPayloadParser": mk_pp,
                        "_is_supported_upgrade": lambda h: u.bool("supported_upgrade"), "EMPTY_PAYLOAD": "EMPTY_PAYLOAD",
                        "set_exception": lambda *a: None})
    head = {}

    def inv(L):
        return Ihp(p) + [
            ("pos", And(L["start_pos"] >= 0, L["start_pos"] <= L["data_len"])),
            ("data_len", L["data_len"] == blen(L["data"])),
            ("tail_empty_inside", blen(p._tail) == 0),
            # resumability invariant: the carried local is a function of the object state, i.e. exactly what the
            # entry code of a fresh call computes (init obligation = the entry code does compute it)
            ("line_limit_from_state", L.get("max_line_length") == Ite(p._lines.sym_len() > 0, p.max_field_size, p.max_line_size)
             if "max_line_length" in L else True),
        ]

    def havoc(L):
        fs = fields(p)
        fs["_lines"] = SList("lines@loop")
        fs["_tail"] = b""
        fs["_upgraded"] = u.bool("upgraded@loop")
        fs["_pending_upgrade"] = u.bool("pending_upgrade@loop")
        fs["_payload_has_more_data"] = u.bool("more@loop")
        fs["_msg_in_flight"] = u.int("in_flight@loop", 0)
        fs["_payload_parser"] = _PP(done=False) if u.choose(2, "payload_parser@loop") else None
        # every other attribute the loop body stores to (read from the AST of the current tree) is havocked too
        handled = {"_lines", "_tail", "_upgraded", "_pending_upgrade", "_payload_has_more_data", "_msg_in_flight", "_payload_parser"}
        rest_attrs = [a for a in u.fn_infos[FN_HP].loops[0]["stored_attrs"] if a not in handled and a in fs]
        u.havoc_obj(p, only=rest_attrs)

    def at_head(L):
        head.update(start_pos=L["start_pos"], data=SBytes.of(L["data"]), nlines=p._lines.sym_len(),
                    mll=L.get("max_line_length"), sc=L.get("should_close"), nmsgs=len(msgs), inflight=p._msg_in_flight,
                    pp=p._payload_parser, upgraded=p._upgraded)
        info = u.fn_infos[FN_HP].loops[0]
        carried = sorted(v for v in info["assigned"] if v in L and not v.startswith("__vc"))
        # data / data_len / start_pos describe the current chunk and the cursor in it, `messages` is the output
        exempt = {"data", "data_len", "start_pos", "messages"}
        hidden = [v for v in carried if v not in exempt]
        head["hidden"] = hidden
        u.check("C03.nolocal.declared", set(hidden) <= {"max_line_length", "should_close"},
                f"loop-carried locals besides cursor/accumulator: {hidden} (each needs a resumability obligation)")

    def line_obligations(L):
        # an iteration that accepted a complete line
        if head.get("pp") is not None or "line" not in L or "pos" not in L:
            return
        line = L["line"]
        if not isinstance(line, (SBytes, bytes)):
            return
        first = head["nlines"] == 0
        limit = Ite(first, p.max_line_size, p.max_field_size)
        u.check("C10.limit.line", blen(line) <= limit,
                "an accepted start line is at most max_line_size, an accepted field line at most max_field_size",
                known=[("F3a", Not(first))], witness={"len": blen(line), "first_line": first})

    def body_obligations(L):
        # a request emitted in this iteration: its body is delimited by Content-Length / Transfer-Encoding whatever
        # its method (RFC 9112 6.3) - if it announces a body and gets no payload reader, the body bytes that follow
        # are parsed as the next request
        ms = L.get("messages")
        new = ms.new if isinstance(ms, SList) else []
        for item in new:
            m, pl = item
            if not isinstance(m, _Msg) or not hasattr(m, "method") or m.method == "CONNECT":
                continue
            has_len = And(m.cl_text.value > 0) if m.cl_text is not None else False
            announced = Or(m.chunked, has_len)
            u.check("C01.body.request_framed_by_headers_not_method", Implies(announced, pl == "STREAMREADER"),
                    "a request that announces a body (Content-Length > 0 or chunked) is given a payload reader for it, "
                    "for every method - a bodyless reading of 'HEAD / ... Content-Length: 5' would hand the 5 body bytes "
                    "to the request parser as the start of the next request",
                    known=[("F1a", m.method == "HEAD")], witness={"method": m.method})

    def skip_obligations(L):
        # an iteration in the message head that neither buffered a line nor emitted a message only skipped bytes in
        # front of a start line: RFC 9112 2.2 lets a server skip empty lines (CRLF) there and nothing else - a bare CR
        # or LF is not an empty line
        if head.get("pp") is not None or p._payload_parser is not None:
            return
        if not u.branch(And(Not(head["upgraded"]), head["nlines"] == 0, p._lines.sym_len() == 0,
                            L["start_pos"] > head["start_pos"]), "skipped_bytes"):
            return
        if len(msgs) != head["nmsgs"]:
            return
        hd, a, b = head["data"], tint(head["start_pos"]), tint(L["start_pos"])
        j = z3.Int("skip.j")
        crlf = z3.ForAll([j], z3.Implies(z3.And(j >= 0, j < b - a),
                                         hd._byte_term(a + j) == z3.If(j % 2 == 0, z3.IntVal(13), z3.IntVal(10))))
        u.check("C01.skip.only_empty_lines", mk_bool(z3.And((b - a) % 2 == 0, crlf)),
                "the only bytes dropped in front of a start line are whole CRLF sequences (empty lines); a bare CR or LF "
                "there is not skipped but left to be refused",
                witness={"skipped": mk_int(b - a), "unconsumed_input": hd.slice(head["start_pos"], None)})

    def retained_obligations():
        u.check("C10.limit.header_count", p._lines.sym_len() <= p.max_headers,
                "the header lines buffered for an unfinished message head never number more than max_headers: the count is "
                "checked as each line is buffered, not when the block ends",
                witness={"lines": p._lines.sym_len(), "max_headers": p.max_headers})

    def at_back(L):
        line_obligations(L)
        body_obligations(L)
        skip_obligations(L)
        retained_obligations()
        u.check("C10.variant.http.progress", Or(L["start_pos"] > head["start_pos"], head["pp"] is not None,
                                                p._payload_parser is not None, L["data_len"] != blen(head["data"])),
                "every iteration of the message-head loop consumes at least one byte")

    u.loop(FN_HP, 0, inv=inv, havoc=havoc, at_head=at_head, at_back=at_back,
           types={"data": lambda nm: SBytes.fresh(nm, register=False), "messages": lambda nm: SList(nm),
                  "msg": lambda nm: None, "payload": lambda nm: None, "payload_parser": lambda nm: None,
                  "get_content_length": lambda nm: None, "length": lambda nm: None, "method": lambda nm: None,
                  "line": lambda nm: None, "payload_state": lambda nm: None, "upgraded": lambda nm: None,
                  "code": lambda nm: None, "empty_body": lambda nm: None, "max_trailers": lambda nm: None,
                  "underlying_exc": lambda nm: None, "reraised_exc": lambda nm: None})
    out = u.call(f, p, data_in)
    if not out.ok:
        u.check("C10.escape.http_feed_data", isinstance(out.exc, E.HttpProcessingError),
                f"only HTTP protocol errors (-> 400 / client error) may escape feed_data, got {type(out.exc).__name__}: "
                f"{str(out.exc)[:60]}",
                known=[("F10b", isinstance(out.exc, ValueError))])
        # a partial line refused as too long: inside the loop the tail is empty (invariant), so a non-empty tail at a
        # LineTooLong exit is the partial line that was just refused
        t = p._tail
        EL = _exc_locals(out.exc)
        if head and head.get("pp") is None and "data" in EL and "start_pos" in EL and isinstance(EL["data"], (SBytes, bytes)):
            # whatever the reason given: unconsumed input that is just a CR may be the first half of a CRLF - of an empty
            # line that is skipped in front of a start line, or of the line that ends a header block - so refusing it
            # now makes the verdict depend on whether the read boundary fell between that CR and its LF
            rest = SBytes.of(EL["data"]).slice(EL["start_pos"], None)
            # (no line was taken in this iteration: the error is about the unconsumed byte, not about a message just parsed)
            if u.branch(And(Not(head["upgraded"]), blen(rest) == 1, p._lines.sym_len() == head["nlines"]), "one_byte_left"):
                u.check("C03.tail.lone_cr_is_kept", rest.byte_at(0) != 13,
                        "a read that ends in a lone CR is never refused for that CR: the same stream in one read is "
                        "accepted when LF follows", witness={"error": type(out.exc).__name__})
        if isinstance(out.exc, E.LineTooLong) and isinstance(t, SBytes) and u.branch(blen(t) > 0, "partial_line_refused"):
            first = p._lines.sym_len() == 0
            limit = Ite(first, p.max_line_size, p.max_field_size)
            last = t.byte_at(blen(t) - 1)
            content = blen(t) - Ite(last == 13, 1, 0)
            u.check("C03.limit.partial_line_not_early", content > limit,
                    "a partial line is refused only if no continuation can make it acceptable: a trailing CR may be the "
                    "first half of the terminator and does not count towards the line - otherwise a line of exactly the "
                    "limit is accepted in one read and refused when the read boundary falls between its CR and LF",
                    known=[("F3e", And(last == 13, blen(t) == limit + 1))],
                    witness={"tail_len": blen(t), "limit": limit, "last_byte": last, "first_line": first})
        return
    L = u.last_locals.get(FN_HP, {})
    messages, upgraded, rest = out.value
    u.cover("C03.http.exit")
    body_obligations({"messages": messages})
    retained_obligations()
    if not head:
        return
    # ---- exits that leave a partial message head behind
    in_head = And(p._payload_parser is None, Not(p._upgraded))
    tail = p._tail
    if p._payload_parser is None and u.branch(Not(p._upgraded), "in_message_head"):
        if isinstance(tail, SBytes) and u.branch(blen(tail) > 0, "tail_kept"):
            hd = head["data"]
            u.check("C03.tail.http.exact", And(SBytes.of(tail).prov_eq(hd.slice(head["start_pos"], None)), blen(rest) == 0),
                    "the unconsumed bytes are stored exactly (and not returned as well)")
            queue_full = And(p._max_msg_queue_size > 0, p._msg_in_flight >= p._max_msg_queue_size)
            if not u.branch(queue_full, "stopped_for_queue"):
                u.check("C01.lf.tail", Not(tail.sym_contains(b"\n")), "a partial line kept for the next read contains no LF")
                u.check("C03.tail.http.no_complete_line", Not(tail.sym_contains(b"\r\n")),
                        "input is kept as 'incomplete' only if it really holds no line terminator: every terminator "
                        "that is present is found whatever the history of the parser (no stale scan offsets)",
                        # C02 'however the bytes are segmented in transit': a request head cut between CR and LF is the
                        # same request
                        also_as=("C02.seg.every_line_terminator_is_found",))
                first = p._lines.sym_len() == 0
                limit = Ite(first, p.max_line_size, p.max_field_size)
                # the length of a line excludes its terminator (that is what the complete-line path measures), so a
                # trailing CR - possibly the first half of CRLF - is not counted; the retained bytes are <= limit + 1
                kept_last = tail.byte_at(blen(tail) - 1)
                u.check("C03.limit.partial_line", blen(tail) - Ite(kept_last == 13, 1, 0) <= limit,
                        "a partial line is kept only if it is within the limit of the line it belongs to "
                        "(start line: max_line_size, field line: max_field_size): a cut can only move the moment of rejection",
                        known=[("F3b", And(Not(first), p.max_field_size < p.max_line_size))],
                        witness={"tail_len": blen(tail), "first_line": first},
                        # C10: the bytes retained for an incomplete line never exceed what the limits allow (limit + 1)
                        also_as=("C10.limit.retained_partial_line",))
        # per-call hidden state: the value a fresh call would start with must equal the value carried so far
        if "max_line_length" in head.get("hidden", ()):
            # what the entry code of the NEXT call computes from the object state left behind by this call
            # (evaluated here on the exit state; the entry expression itself is checked by unit http.entry_limit)
            fresh = Ite(p._lines.sym_len() > 0, p.max_field_size, p.max_line_size)
            u.check("C03.nolocal.feed_data.max_line_length", L.get("max_line_length") == fresh,
                    "the line limit carried in a local equals what the next call recomputes from the object state")
        if "should_close" in head.get("hidden", ()):
            u.check("C03.nolocal.feed_data.should_close", Not(L.get("should_close")),
                    "'Connection: close was seen' must survive the end of the call (a per-call local is re-initialised)")
    # ---- queue cap (C05): no message is emitted beyond the cap
    u.check("C05.cap.parser", Implies(p._max_msg_queue_size > 0, p._msg_in_flight <= Ite(head["inflight"] > p._max_msg_queue_size, head["inflight"], p._max_msg_queue_size)),
            "the parser never has more than max_msg_queue_size messages in flight")


@unit("C03", "canary.length_never_completes", functions=[f"{MOD}:HttpPayloadParser.feed_data"], expect="canary")
def canary_length(u: U):
    """deliberately false: the Content-Length parser never reports PAYLOAD_COMPLETE"""
    H = live()
    p, payload, _ = mk_payload_parser(u, H.ParseState.PARSE_LENGTH)
    u.assume(p._length >= 1)
    f = u.load(MOD, "HttpPayloadParser.feed_data")
    _length_loop(u, p)
    out = u.call(f, p, u.bytes("chunk"))
    if out.ok:
        u.check("C03.canary", out.value[0] is not H.PayloadState.PAYLOAD_COMPLETE, "false: complete bodies exist")
