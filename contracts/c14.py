"""C14 - URL dispatch follows the documented resolution rule.

Functions under contract (real text from /repo, aiohttp/web_urldispatcher.py unless noted):
  UrlDispatcher._get_resource_index_key, index_resource, unindex_resource, resolve; Resource.resolve;
  PlainResource._match; DynamicResource._match / GOOD; PrefixedSubAppResource._add_prefix_to_resources, resolve;
  aiohttp/web_middlewares.py: normalize_path_middleware (the redirect target).

Decomposition of "the handler chosen is that of the documented rule":
  walk(P)  := { P } + { K : P starts with K + "/" } + { "/" }         the url parts the resolver looks up, longest first
  (index)   a resource that can match path P is filed under a key in walk(P)          [_get_resource_index_key]
  (walk)    resolve() looks up every key of walk(P), longest first, unless it returned earlier   [loop invariant]
  (order)   candidates under one key are consulted in list (= registration) order; the first whose resolve() yields a
            match is returned at once; the allowed methods of all consulted non-matching candidates are accumulated;
            404 iff that set is empty, else 405 with exactly that set
  (method)  Resource.resolve: a match needs the path AND (the method or a wildcard route)
"""
import z3

from pyvc import And, Iff, Implies, Not, Or, U, fields, is_sym, mk_bool, mk_int, stubs
from pyvc import regexlang as RL
from pyvc.registry import unit
from pyvc.stubs import SAwait
from pyvc.text import SText, sval

MOD = "aiohttp.web_urldispatcher"
MW = "aiohttp.web_middlewares"
FN_RES = "web_urldispatcher:UrlDispatcher.resolve"
FN_ADDP = "web_urldispatcher:PrefixedSubAppResource._add_prefix_to_resources"
FN_MW = "web_middlewares:normalize_path_middleware"


def live():
    import importlib

    from pyvc import instrument

    instrument._ensure_repo_on_path()
    return importlib.import_module(MOD)


def in_walk(K: SText, P: SText):
    return Or(K == P, K == "/", mk_bool(z3.PrefixOf(z3.Concat(K.t, sval("/")), P.t)))


# ---------------------------------------------------------------------------------------------------------------
# 1. index key


class _Res:
    def __init__(self, canonical):
        self.canonical = canonical


@unit("C14", "index.key", functions=[f"{MOD}:UrlDispatcher._get_resource_index_key"], timeout_ms=20000)
def index_key(u: U):
    """for every canonical string and every request path P the resource could match (plain: P == canonical; with
    variables: P begins with the literal text before the first '{'), the index key is one of the url parts the
    resolver looks up for P - so an indexed resource is never overlooked.  (prefix domain: canonical is a text of
    unknown length with '/' and '{' positions as uninterpreted predicates; P shares its first b characters.)"""
    from pyvc.prefix import PText, Pref

    T = PText("canonical", tracked=("/", "{"))
    canon = T.whole()
    u.assume(canon.startswith("/"))
    f = u.load(MOD, "UrlDispatcher._get_resource_index_key")
    out = u.call(f, None, _Res(canon))
    u.check("C14.index.key.total", out.ok, repr(out))
    if not out.ok:
        return
    key = out.value
    if isinstance(key, str):
        u.check("C14.index.key.root", key == "/", "the only constant key is the root")
        u.cover("C14.index.key.root")
        return
    u.check("C14.index.key.is_prefix_of_canonical", isinstance(key, Pref) and key.text is T,
            "the key is a prefix of the canonical path: longest-prefix-first = most specific first")
    m = key.n
    slash = T.pred("/")
    has_var, b = canon._first("{")
    if u.branch(mk_bool(has_var), "canonical.has_variable"):
        # a path P the resource can match agrees with canonical on [0, b): key == P[:m] and P[m] == '/' need m < b
        u.check("C14.index.key.in_walk", mk_bool(z3.And(m < b, slash(m))),
                "with variables: the key ends before the first '{' and is followed by '/' inside the literal prefix, so "
                "for every P that begins with that literal prefix, key is a url part of walk(P)")
    else:
        u.check("C14.index.key.in_walk", mk_bool(z3.Or(m == T.N, z3.And(m < T.N, slash(m)))),
                "plain: P == canonical, and the key is P itself or P cut at a '/'")
    u.check("C14.index.key.shape", mk_bool(z3.And(m >= 1, z3.Not(slash(m - 1)))),
            "keys other than '/' are non-empty and have no trailing slash (the walk produces no such part)")


@unit("C14", "canary.index", functions=[f"{MOD}:UrlDispatcher._get_resource_index_key"], expect="canary")
def canary_index(u: U):
    """deliberately false: the key always equals the canonical path"""
    canon = SText.fresh("canonical")
    u.assume(canon.startswith("/"))
    f = u.load(MOD, "UrlDispatcher._get_resource_index_key")
    out = u.call(f, None, _Res(canon))
    if out.ok:
        u.check("C14.canary", SText.of(out.value) == canon, "false")


@unit("C14", "index.update", functions=[f"{MOD}:UrlDispatcher.index_resource", f"{MOD}:UrlDispatcher.unindex_resource",
                                        f"{MOD}:PrefixedSubAppResource._add_prefix_to_resources"])
def index_update(u: U):
    """(un)indexing uses the key of the resource's CURRENT canonical path, appends at the end of the key's list
    (registration order), and a prefix change re-files every resource: unindex under the old key, add the prefix,
    index under the new key"""
    log = []

    class _Index(dict):
        pass

    keyno = {"n": 0}

    def keyfn(self, resource):
        log.append(("key", resource, resource.canonical))
        return ("KEY", resource.canonical)

    idx = {}
    r1 = _Res("/old")
    d = u.obj("UrlDispatcher", {"_resource_index": idx}, {"_get_resource_index_key": keyfn}, shared=False)
    f = u.load(MOD, "UrlDispatcher.index_resource")
    g = u.load(MOD, "UrlDispatcher.unindex_resource")
    other = _Res("/other")
    idx[("KEY", "/old")] = [other]
    u.call(f, d, r1)
    u.check("C14.index.append_in_order", idx[("KEY", "/old")] == [other, r1], "filed last under its key: registration order")
    o = u.call(g, d, r1)
    u.check("C14.index.unindex", o.ok and idx[("KEY", "/old")] == [other], "removed from the list of its current key")

    # registration order among the resources of ONE bucket holds whatever their kinds (plain, dynamic, prefixed sub-app):
    # "first registered, first tried" is the documented rule among resources that can match the same path
    import importlib

    M = importlib.import_module(MOD)

    def mk(kind, canonical):
        cls = {"plain": M.PlainResource, "dynamic": M.DynamicResource, "subapp": M.PrefixedSubAppResource}[kind]
        sub = type("_K_" + kind, (cls,), {"__init__": lambda self, c: setattr(self, "canonical_", c),
                                         "canonical": property(lambda self: self.canonical_),
                                         "__repr__": lambda self: f"<{kind} resource {self.canonical_}>"})
        return sub(canonical)

    kinds = ("plain", "dynamic", "subapp")
    existing = [mk(kinds[u.choose(3, f"bucket[{i}].kind")], "/same") for i in range(u.choose(3, "bucket_size"))]
    new = mk(kinds[u.choose(3, "new.kind")], "/same")
    idx2 = {("KEY", "/same"): list(existing)} if existing else {}
    d2 = u.obj("UrlDispatcher", {"_resource_index": idx2}, {"_get_resource_index_key": keyfn}, shared=False)
    o2 = u.call(f, d2, new)
    got = idx2.get(("KEY", "/same"))
    u.check("C14.index.registration_order_whatever_the_kind",
            o2.ok and got is not None and len(got) == len(existing) + 1 and all(a is b for a, b in zip(got, existing + [new])),
            "a newly registered resource is filed behind everything already in its bucket, whatever the kinds involved: "
            f"bucket {[type(x).__name__ for x in existing]} + {type(new).__name__}")

    # prefix change
    class _R(_Res):
        def add_prefix(self, p):
            log.append(("add_prefix", self, p))
            self.canonical = p + self.canonical

    class _Router:
        def __init__(self):
            self.rs = [_R("/a"), _R("/b")]

        def resources(self):
            return list(self.rs)

        def unindex_resource(self, r):
            log.append(("unindex", r, r.canonical))

        def index_resource(self, r):
            log.append(("index", r, r.canonical))

    class _App:
        router = _Router()

    log.clear()
    sub = u.obj("PrefixedSubAppResource", {"_app": _App()}, {}, shared=False)
    h = u.load(MOD, "PrefixedSubAppResource._add_prefix_to_resources")
    u.loop(FN_ADDP, 0, unroll=True, bound=3)
    o = u.call(h, sub, "/pfx")
    want = []
    for r, c in ((_App.router.rs[0], "/a"), (_App.router.rs[1], "/b")):
        want += [("unindex", r, c), ("add_prefix", r, "/pfx"), ("index", r, "/pfx" + c)]
    u.check("C14.index.prefix_refile", o.ok and log == want,
            "each resource: unindexed under the OLD canonical, prefixed, indexed under the NEW canonical")

    # a domain-matched sub-application among the resources: register_resource does not index those (they are kept
    # in _matched_sub_app_resources), so a prefix change must not try to unindex / index them either
    class _M(_R):
        pass

    class _Router2(_Router):
        def __init__(self):
            self.rs = [_R("/a"), _M("example.com")]

        def unindex_resource(self, r):
            u.check("C14.index.unindex_only_indexed", not isinstance(r, _M),
                    "unindex_resource is called only for resources that are in the index (a matched sub-app resource is "
                    "not: removing it raises KeyError and a prefixed app containing add_domain() cannot be mounted)")
            log.append(("unindex", r, r.canonical))

        def index_resource(self, r):
            u.check("C14.index.matched_never_indexed", not isinstance(r, _M),
                    "a matched sub-app resource is never put into the path index")
            log.append(("index", r, r.canonical))

    class _App2:
        router = _Router2()

    log.clear()
    sub2 = u.obj("PrefixedSubAppResource", {"_app": _App2()}, {}, shared=False)
    h2 = u.load(MOD, "PrefixedSubAppResource._add_prefix_to_resources", globals={"MatchedSubAppResource": _M})
    o = u.call(h2, sub2, "/pfx")
    u.check("C14.index.matched_still_prefixed", o.ok and ("add_prefix", _App2.router.rs[1], "/pfx") in log,
            "... but it still receives the prefix (its own sub-application's resources are re-filed by its add_prefix)")


# ---------------------------------------------------------------------------------------------------------------
# 2. resolve()


class Allowed:
    """a set of method names seen through one arbitrary method m: ne = non-empty, hm = contains m"""

    _pyvc_sym = True

    def __init__(self, ne, hm, owner=None, unit=None):
        self.ne, self.hm = ne, hm
        self.owner, self.unit = owner, unit  # owner: the resource whose own `_allowed_methods` this object is

    def __ior__(self, o):
        if self.owner is not None and self.unit is not None:
            # in-place union on a set that belongs to a resource: the router would rewrite that resource's Allow set
            self.unit.check("C14.resolve.frame.resource_sets_untouched", False,
                            "resolve() accumulates allowed methods in a set of its own: it never updates, in place, the set "
                            "a resource returned (that is the resource's own _allowed_methods)")
        if isinstance(o, (set, frozenset)):
            assert not o
            return self
        return Allowed(Or(self.ne, o.ne), Or(self.hm, o.hm))

    def __ror__(self, o):
        # set() | x : a NEW set with x's elements
        assert isinstance(o, (set, frozenset)) and not o
        return Allowed(self.ne, self.hm)

    def __bool__(self):
        from pyvc import ctx
        from pyvc.values import tbool

        t = tbool(self.ne)
        return t if isinstance(t, bool) else ctx().branch(t, "allowed.nonempty")


@unit("C14", "resolve.walk", functions=[f"{MOD}:UrlDispatcher.resolve"], timeout_ms=20000)
def resolve_walk(u: U):
    """UrlDispatcher.resolve for an arbitrary request path P, an arbitrary index content and an arbitrary key K of
    walk(P): K is looked up unless a match was returned earlier; candidates are consulted in list order and the first
    match wins; 404 / 405 reflect exactly the consulted candidates"""
    from pyvc.prefix import PText, Pref

    # prefix domain: P is a text of unknown length N with uninterpreted '/' positions; every url part is P[:n]
    T = PText("path_safe")
    P = T.whole()
    N = T.N
    slash = T.pred("/")
    u.assume(P.startswith("/"))
    k = u.int("K.len", 1)
    T.register(k)
    K = Pref(T, k.t)
    # K in walk(P): P itself, P cut at a '/', or the root
    u.assume(mk_bool(z3.Or(k.t == N, z3.And(k.t < N, slash(k.t)), k.t == 1)))

    def n_of(x):
        return x.n if isinstance(x, Pref) else z3.IntVal(len(x))

    G = {"visited_K": False, "seen_ne": False, "seen_hm": False, "consulted": [], "matched": None, "keys": []}

    class _Cand:
        def __init__(self, tag):
            self.tag = tag

        def resolve(self, request):
            me = self

            def result():
                u.check("C14.resolve.stop_at_first_match", G["matched"] is None,
                        "no candidate is consulted after one has matched")
                G["consulted"].append(me)
                if u.choose(2, "candidate.matches") == 1:
                    G["matched"] = me
                    return (("MATCH", me), set())
                a = Allowed(u.bool("cand.allowed.nonempty"), u.bool("cand.allowed.has_m"), owner=me, unit=u)
                u.assume(Implies(a.hm, a.ne))
                G["seen_ne"] = Or(G["seen_ne"], a.ne)
                G["seen_hm"] = Or(G["seen_hm"], a.hm)
                return (None, a)

            return SAwait(result=result, name="candidate.resolve")

    class _Index:
        def get(self, key, default=None):
            assert isinstance(key, Pref) or key == "/", key
            G["keys"].append(key)
            G["visited_K"] = Or(G["visited_K"], K == key)
            from pyvc.registry import width

            n = u.choose(width(3, 4), "index.candidates")
            lst = [_Cand(f"c{len(G['keys'])}.{i}") for i in range(n)]
            G.setdefault("lists", []).append(lst)
            return lst if n else default

    class _RelUrl:
        path_safe = P

    class _Req:
        rel_url = _RelUrl()
        method = "M"

    n_sub = u.choose(2, "matched_sub_apps")
    subs = [_Cand("domain-sub")][:n_sub]
    d = u.obj("UrlDispatcher", {"_resource_index": _Index(), "_matched_sub_app_resources": subs,
                                "HTTP_NOT_FOUND": "HTTP_NOT_FOUND"}, {}, shared=False)
    errs = []

    def mnf(method, allowed):
        errs.append(("405", method, allowed))
        return ("405", allowed)

    f = u.load(MOD, "UrlDispatcher.resolve", globals={"HTTPMethodNotAllowed": mnf,
                                                       "MatchInfoError": lambda e: ("ERROR", e)})
    u.loop(FN_RES, 0, unroll=True, bound=2)
    u.loop(FN_RES, 2, unroll=True, bound=5)

    def havoc(L):
        G["visited_K"] = u.bool("visited_K@loop")
        G["seen_ne"], G["seen_hm"] = u.bool("seen_ne@loop"), u.bool("seen_hm@loop")
        G["consulted"] = []

    def types_allowed(nm):
        return Allowed(u.bool("allowed.ne@loop"), u.bool("allowed.hm@loop"))

    def al(L):
        a = L["allowed_methods"]
        if isinstance(a, set):
            assert not a
            return Allowed(False, False)
        return a

    def inv(L):
        n = n_of(L["url_part"])
        a = al(L)
        return [("reach", Or(G["visited_K"], mk_bool(k.t <= n))),  # K is a prefix of the current part
                ("is_part", mk_bool(z3.And(n >= 1, n <= N, z3.Or(n == N, slash(n), n == 1)))),
                ("allowed_ne", Iff(a.ne, G["seen_ne"])), ("allowed_hm", Iff(a.hm, G["seen_hm"])),
                ("no_match_yet", G["matched"] is None)]

    def fresh_part(nm):
        n = u.int(nm + ".len", 0)
        T.register(n.t)
        return Pref(T, n.t)

    u.loop(FN_RES, 1, inv=inv, havoc=havoc, variant=lambda L: mk_int(n_of(L["url_part"])),
           types={"url_part": fresh_part, "allowed_methods": types_allowed})
    out = u.call(f, d, _Req())
    u.check("C14.resolve.total", out.ok, repr(out))
    if not out.ok:
        return
    v = out.value
    if G["matched"] is not None:
        u.check("C14.resolve.first_match_returned", v == ("MATCH", G["matched"]) and G["consulted"][-1] is G["matched"],
                "the match info returned is that of the first candidate (in consultation order) that matched")
        # order inside one key's list = list order
        for lst in G.get("lists", []):
            seq = [c for c in G["consulted"] if c in lst]
            u.check("C14.resolve.registration_order", seq == lst[: len(seq)], "candidates of one key: in list order, no skipping")
        u.cover("C14.resolve.match")
        return
    u.check("C14.resolve.every_part_looked_up", G["visited_K"],
            "no match returned: every url part K of walk(P) was looked up (so with C14.index.key.in_walk: every resource "
            "that can match P was consulted)")
    if isinstance(v, tuple) and v[0] == "ERROR" and v[1] == "HTTP_NOT_FOUND":
        u.check("C14.resolve.404_only_if_nothing_matched_path", Not(G["seen_ne"]),
                "404 only if no consulted resource matched the path (every path match contributes its methods)")
        u.cover("C14.resolve.404")
    else:
        u.check("C14.resolve.405_shape", isinstance(v, tuple) and v[0] == "ERROR" and isinstance(v[1], tuple)
                and v[1][0] == "405" and errs and errs[-1][1] == "M", f"405 for the request method: {v!r}")
        if errs:
            a = errs[-1][2]
            u.check("C14.resolve.405_complete_set", And(G["seen_ne"], Iff(a.hm, G["seen_hm"])),
                    "405 only if some resource matched the path; its Allow set is exactly the union of the allowed "
                    "methods of the consulted resources (for an arbitrary method m)")
        u.cover("C14.resolve.405")


@unit("C14", "resource.resolve", functions=[f"{MOD}:Resource.resolve", f"{MOD}:PlainResource._match"])
def resource_resolve(u: U):
    """Resource.resolve: a match needs the path (per _match on path_safe) AND a route for the method (or the wildcard
    route); a path match without method match reports the resource's allowed methods; no path match reports none"""
    P = SText.fresh("path_safe")
    own = SText.fresh("resource_path")
    has_method = u.choose(2, "route.for_method") == 1
    has_any = u.choose(2, "route.any") == 1
    pm = u.load(MOD, "PlainResource._match")

    class _Routes(dict):
        pass

    routes = _Routes()
    if has_method:
        routes["GET"] = "ROUTE-GET"

    class _RelUrl:
        path_safe = P

    class _Req:
        rel_url = _RelUrl()
        method = "GET"

    r = u.obj("PlainResource", {"_path": own, "_routes": routes, "_any_route": "ROUTE-ANY" if has_any else None,
                                "_allowed_methods": {"POST"}}, {"_match": lambda self, p: pm(self, p)}, shared=False)
    f = u.load(MOD, "Resource.resolve", globals={"UrlMappingMatchInfo": lambda md, route: ("MI", md, route)})
    out = u.call(f, r, _Req())
    u.check("C14.resource.total", out.ok, repr(out))
    if not out.ok:
        return
    mi, allowed = out.value
    path_matches = P == own
    if mi is not None:
        u.check("C14.resource.match_needs_path_and_method", And(path_matches, bool(has_method or has_any)),
                "a match is reported only for an equal path and an accepted method")
        u.check("C14.resource.route_choice", mi[2] == ("ROUTE-GET" if has_method else "ROUTE-ANY"),
                "the method's own route wins over the wildcard route")
    else:
        u.check("C14.resource.no_match_reason", Or(Not(path_matches), bool(not has_method and not has_any)),
                "no match only if the path differs or no route accepts the method")
        u.check("C14.resource.allowed_iff_path_matched", Iff(path_matches, bool(allowed)),
                "allowed methods are reported exactly when the path matched (404 vs 405 upstream)")


@unit("C14", "dyn.good", kind="lemma", functions=[f"{MOD}:DynamicResource.GOOD", f"{MOD}:DynamicResource._match"])
def dyn_good(u: U):
    """the LIVE default pattern of a {var} accepts exactly the non-empty strings free of '/', '{' and '}' (all code
    points; decided on the regular languages) - the parameter values for which url_for/resolve must be inverse"""
    import re

    H = live()
    code = RL.lang(re.compile(H.DynamicResource.GOOD), "fullmatch")
    spec = z3.Plus(RL.ranges_to_re(RL._complement([(47, 47), (123, 123), (125, 125)], RL.MAXCHAR)))
    v, w = RL.equivalent(code, spec)
    u.check("C14.dyn.good_equals_spec", v == "equal", f"GOOD == [^/{{}}]+ (witness {w!r})")
    # _match: the groups of a full match, unquoted by _unquote_path_safe; None without a full match
    log = []

    class _M:
        def groupdict(self):
            return {"x": "raw%2Fvalue"}

    class _Pat:
        def __init__(self, ok):
            self.ok = ok

        def fullmatch(self, path):
            log.append(path)
            return _M() if self.ok else None

    f = u.load(MOD, "DynamicResource._match", globals={"_unquote_path_safe": lambda v: ("UNQ", v)})
    ok = u.choose(2, "fullmatch") == 1
    r = u.obj("DynamicResource", {"_pattern": _Pat(ok)}, {}, shared=False)
    out = u.call(f, r, "PATH")
    u.check("C14.dyn.match_is_fullmatch", out.ok and log == ["PATH"] and
            (out.value == {"x": ("UNQ", "raw%2Fvalue")} if ok else out.value is None),
            "match_info = unquoted groups of a FULL match of the compiled template; no partial matches")


# ---------------------------------------------------------------------------------------------------------------
# 3. redirects of normalize_path_middleware stay on-site


@unit("C14", "redirect.onsite", functions=[f"{MW}:normalize_path_middleware"], timeout_ms=20000)
def redirect_onsite(u: U):
    """every path handed to the router for a normalising redirect - and hence every Location raised - begins with
    exactly one '/': never '//host/...' (scheme-relative, off-site) whatever the request target was"""
    raw = SText.fresh("raw_path")
    u.assume(raw.startswith("/"))
    checked = []

    class _reT:
        @staticmethod
        def sub(pat, repl, s):
            s = SText.of(s)
            if pat == "^//+" and repl == "/":
                stubs.used("re.sub('^//+', '/', s): s with its leading run of two or more '/' replaced by one")
                c = u.c
                if c.branch(z3.PrefixOf(sval("//"), s.t), "leading.double_slash"):
                    sl, rest = z3.String(c.fresh_name("slashes")), z3.String(c.fresh_name("rest"))
                    c.add(s.t == z3.Concat(sl, rest))
                    c.add(z3.InRe(sl, z3.Concat(z3.Re("//"), z3.Star(z3.Re("/")))))
                    c.add(z3.Not(z3.PrefixOf(sval("/"), rest)))
                    return SText(z3.Concat(sval("/"), rest), str)
                return s
            if pat == "//+" and repl == "/":
                stubs.used("re.sub('//+', '/', s): some string (over-approximated: any text beginning like s does)")
                r = SText.fresh("merged", register=False)
                # merging keeps "begins with '/'" and cannot create anything; nothing else is relied upon
                u.assume(Implies(s.startswith("/"), r.startswith("/")))
                return r
            raise AssertionError(f"unmodelled re.sub({pat!r})")

    class _Exc(Exception):
        def __init__(self, location):
            self.location = location

    class _MI:
        http_exception = "NF"

    class _Req:
        def __init__(self, rp):
            self.raw_path = rp
            self.path = SText.fresh("decoded_path", register=False)
            self.match_info = _MI()

    def check_resolves(request, path):
        p = SText.of(path)
        checked.append(p)
        u.check("C14.redirect.candidate_single_slash", Or(p == "", And(p.startswith("/"), Not(p.startswith("//")))),
                "a candidate handed to request.clone(rel_url=...) is empty or begins with exactly one '/' - two would "
                "be parsed as an authority and redirect off-site")
        res = u.choose(2, "resolves") == 1
        return SAwait(result=(res, _Req(p) if res else request), name="_check_request_resolves")

    outer = u.load(MW, "normalize_path_middleware",
                   globals={"re": _reT, "_check_request_resolves": check_resolves, "HTTPNotFound": str,
                            "HTTPMethodNotAllowed": str})
    cfg = u.choose(3, "config")
    kw = [dict(append_slash=True, merge_slashes=True), dict(append_slash=False, remove_slash=True, merge_slashes=True),
          dict(append_slash=False, remove_slash=False, merge_slashes=False)][cfg]
    info = u.fn_infos[FN_MW]
    for k in range(len(info.loops)):
        u.loop(FN_MW, k, unroll=True, bound=6)
    o = u.call(outer, redirect_class=_Exc, **kw)
    if not o.ok:
        u.check("C14.redirect.factory", False, repr(o))
        return
    impl = o.value
    out = u.call(impl, _Req(raw), lambda req: SAwait(result="RESPONSE", name="handler"))
    if out.ok:
        u.check("C14.redirect.fallthrough", out.value == "RESPONSE", "nothing resolves: the handler's (error) response")
        return
    u.check("C14.redirect.only_redirects", isinstance(out.exc, _Exc), repr(out))
    if isinstance(out.exc, _Exc):
        loc = SText.of(out.exc.location)
        u.check("C14.redirect.location_onsite",
                And(Or(loc.startswith("/"), loc.startswith("?"), loc == ""), Not(loc.startswith("//"))),
                "the Location of a normalising redirect is a path (or bare query) on this site, never //authority")
        u.cover("C14.redirect.raised")


# ---------------------------------------------------------------------------------------------------------------
# 4. bounded stand-in: url_for / resolve round trip through yarl (NOT a proof)

_TEMPLATES = ["/{x}", "/a/{x}", "/a/{x}/b", "/a{x}", "/{x}/{y}", "/a b/{x}", "/é/{x}", "/a/{x:[^/]+}", "/a/b{x}c/d"]
_VALUES = ["v", "a b", "é", "%", "%2F", "a%20b", "~", "+", "a;b", "?", "#", "@:", "..", "%25"]


@unit("C14", "bounded.url_for_roundtrip", kind="bounded",
      functions=[f"{MOD}:DynamicResource.__init__", f"{MOD}:DynamicResource.url_for", f"{MOD}:DynamicResource._match",
                 f"{MOD}:_quote_path", f"{MOD}:_unquote_path_safe", f"{MOD}:_requote_path"])
def bounded_roundtrip(u: U):
    """url_for() and resolution are inverse for parameter values free of '/', '{', '}'.  The quoting is done by yarl
    (outside the verifier's reach), so this is a native run of the real code, not a proof.
    BOUND: 9 path templates x 14 parameter values (both listed in contracts/c14.py), one or two variables"""
    import asyncio

    from pyvc import instrument

    instrument._ensure_repo_on_path()
    from aiohttp import web
    from aiohttp.test_utils import make_mocked_request

    async def handler(request):
        return web.Response()

    async def run():
        bad = []
        n = 0
        for t in _TEMPLATES:
            app = web.Application()
            res = app.router.add_resource(t)
            res.add_route("GET", handler)
            names = ["x", "y"] if "{y}" in t else ["x"]
            for v in _VALUES:
                n += 1
                url = res.url_for(**{k: v for k in names})
                req = make_mocked_request("GET", str(url))
                mi = await app.router.resolve(req)
                got = dict(mi) if mi.http_exception is None else None
                if got != {k: v for k in names}:
                    bad.append((t, v, str(url), got))
        return n, bad

    n, bad = asyncio.run(run())
    needs_quoting = lambda t: any(ch in t.split("{")[0] + t.rsplit("}", 1)[-1] for ch in " é")
    other = [b for b in bad if not needs_quoting(b[0])]
    u.check("C14.bounded.roundtrip", not bad,
            f"{n} (template, value) pairs: url_for() then resolve() gives the values back; failing: {bad[:4]}",
            known=[("F14a", bool(bad) and not other)], witness={"failing": bad[:6]})


@unit("C14", "static.resolve", functions=[f"{MOD}:StaticResource.resolve"])
def static_resolve(u: U):
    """StaticResource.resolve: matches a path only if its normalised form lies under the prefix; the method must be
    allowed; match_info['filename'] is the REQUEST path after the prefix and one '/', taken verbatim (empty segments and
    a trailing slash are kept: '/s//f' names '/f', which the handler refuses as absolute)"""
    path = SText.fresh("path_safe")
    prefix = SText.fresh("prefix")
    norm = SText.fresh("normpath")
    u.assume(prefix.startswith("/"))

    class _os:
        class path:
            @staticmethod
            def normpath(p):
                stubs.used("os.path.normpath: some string (only its relation to the prefix is used)")
                return norm

    class _RelUrl:
        path_safe = path

    allowed = u.choose(2, "method_allowed") == 1

    class _Req:
        rel_url = _RelUrl()
        method = "GET" if allowed else "PUT"

    r = u.obj("StaticResource", {"_prefix": prefix, "_prefix2": prefix + "/", "_allowed_methods": {"GET", "HEAD"},
                                 "_routes": {"GET": "ROUTE-GET"}}, {}, shared=False)
    f = u.load(MOD, "StaticResource.resolve",
               globals={"os": _os, "IS_WINDOWS": False, "_unquote_path_safe": lambda v: ("UNQ", v),
                        "UrlMappingMatchInfo": lambda md, route: ("MI", md, route)})
    out = u.call(f, r, _Req())
    u.check("C14.static.total", out.ok, repr(out))
    if not out.ok:
        return
    mi, al = out.value
    under = Or(norm.startswith(prefix + "/"), norm == prefix)
    if mi is None:
        u.check("C14.static.no_match_reason", Or(Not(under), bool(not allowed)),
                "no match only if the normalised path leaves the prefix or the method is not allowed")
        u.check("C14.static.allowed_iff_under_prefix", Iff(under, bool(al)), "allowed methods are reported exactly for paths under the prefix")
    else:
        u.check("C14.static.match_needs_prefix_and_method", And(under, bool(allowed)), "a match needs both")
        fn = mi[1]["filename"]
        ok = isinstance(fn, tuple) and fn[0] == "UNQ" and isinstance(fn[1], SText) and getattr(fn[1], "suffix_of", None) is path
        u.check("C14.static.filename_from_request_path", ok,
                "the filename is a suffix of the request path itself (not of its normalised form)")
        if ok:
            u.check("C14.static.filename_after_prefix",
                    mk_bool(z3.Length(fn[1].t) == z3.If(z3.Length(path.t) - z3.Length(prefix.t) - 1 < 0, 0,
                                                        z3.Length(path.t) - z3.Length(prefix.t) - 1)),
                    "it starts right after the prefix and one '/'")
