"""C08 - StreamReader: exact ordered delivery with back-pressure.

Functions under contract (real text from /repo/aiohttp/streams.py):
  StreamReader.__init__, feed_data, feed_eof, begin_http_chunk_receiving, end_http_chunk_receiving,
  set_read_chunk_size, _read_nowait_chunk, _read_nowait, read, readany, readchunk, readexactly, _wait

Abstract view: the ghost stream S = everything ever passed to feed_data; total_bytes = len(S) so far; the reader
has delivered S[0:_cursor]; the buffer holds S[_cursor:total_bytes] as consecutive non-empty pieces (the first one
entered at _buffer_offset).  Bytes are provenance intervals of S, so "no loss, no duplication, in order" is interval
arithmetic.  (unread_data(), deprecated, is outside the contract: it re-inserts bytes that are not part of S.)
"""
import z3

from pyvc import (And, Implies, Ite, Not, Or, SBytes, SIncSeq, SInt, SOpt, SSeq, Seg, Src, U, blen, fields, is_none,
                  is_sym, mk_int, stubs, tint)
from pyvc.registry import unit

MOD = "aiohttp.streams"
CLS = "StreamReader"


def fid(name):
    return f"streams:{CLS}.{name}"


class _Timer:
    def assert_timeout(self):
        return None

    def __enter__(self):
        return self

    def __exit__(self, *a):
        return None


class _Fut:
    def __init__(self, name="future"):
        self.name = name

    def done(self):
        return False


def splits_of(r):
    s = r._http_chunk_splits
    if isinstance(s, SOpt):
        from pyvc import mk_bool

        return object.__getattribute__(s, "_val"), mk_bool(object.__getattribute__(s, "_isnone"))
    return s, (s is None)


class _Collections:
    """collections.deque() for the chunk-boundary list -> the abstract increasing-int sequence (empty)"""

    @staticmethod
    def deque(*a):
        assert not a
        return SIncSeq("splits.new", z3.IntVal(0), z3.IntVal(0), z3.IntVal(0))


def mk_stream(u: U, *, S=None, methods=None, refill=True):
    """fresh symbolic StreamReader + ghost stream S; protocol stub logs pause/resume and models the
    re-entrant refill of resume_reading (it may call feed_data: 0 or 1 new piece appended, see module doc)"""
    S = S or Src("S")
    u.c.add(S.len >= 0)
    box = {}

    def pause(self):
        u.event("pause_reading")
        fields(self)["_reading_paused"] = True

    def resume(self, resume_parser=True):
        u.event("resume_reading", resume_parser)
        fields(self)["_reading_paused"] = False
        r = box.get("reader")
        if refill and r is not None and resume_parser and not box.get("no_refill") and u.choose(2, "resume.refills"):
            # re-entrant data_received(b"") -> feed_data(piece)
            m = u.int("refill_len", 1)
            u.assume(r.total_bytes + m <= mk_int(S.len))  # S is the whole (future) stream
            piece =SBytes([Seg(S, tint(r.total_bytes), tint(m))])
            fs = fields(r)
            fs["_buffer"].append(piece)
            fs["_size"] = r._size + m
            fs["total_bytes"] = r.total_bytes + m
            u.event("refill", m)

    proto = u.obj("BaseProtocol", {"_reading_paused": u.bool("reading_paused"), "connected": u.bool("connected")},
                  {"pause_reading": pause, "resume_reading": resume})
    cursor = u.int("cursor", 0)
    off = u.int("buffer_offset", 0)
    buf = SSeq.fresh("buffer", nonempty_elems=True, kind="deque").with_prov(S, cursor - off)
    f = {
        "_protocol": proto,
        "_low_water": u.int("low_water"),
        "_high_water": u.int("high_water"),
        "_high_water_chunks": u.int("high_water_chunks"),
        "_low_water_chunks": u.int("low_water_chunks"),
        "_loop": None,
        "_size": u.int("size"),
        "_cursor": cursor,
        "_http_chunk_splits": SOpt.fresh("http_chunk_splits", lambda n: SIncSeq.fresh(n)),
        "_buffer": buf,
        "_buffer_offset": off,
        "_eof": u.bool("eof"),
        "_waiter": None,
        "_eof_waiter": None,
        "_exception": None,
        "_timer": _Timer(),
        "_eof_callbacks": [],
        "_eof_counter": 0,
        "_on_chunk_received": None,
        "total_bytes": u.int("total_bytes"),
        "total_compressed_bytes": None,
    }
    r = u.obj(CLS, f, methods or {}, const=("_protocol", "_loop", "_timer", "_high_water_chunks", "_low_water_chunks"),
              factories={"_waiter": lambda n: None, "_eof_waiter": lambda n: None, "_exception": lambda n: None,
                         "_on_chunk_received": lambda n: None, "total_compressed_bytes": lambda n: None,
                         "_eof_callbacks": lambda n: [], "_eof_counter": lambda n: 0})
    box["reader"] = r
    box["S"] = S
    r_box[id(u)] = box
    return r, S, proto, box


r_box: dict = {}


def buffer_len(b):
    return b.length() if isinstance(b, SSeq) else len(b)


def I8(r, S):
    """representation invariant (named conjuncts)"""
    b = r._buffer
    sp, sp_none = splits_of(r)
    total = r.total_bytes
    items = [
        ("cfg", And(r._low_water >= 1, r._high_water == 2 * r._low_water, r._low_water_chunks >= 2,
                    r._high_water_chunks >= 2 * r._low_water_chunks)),
        ("accounting", And(r._size >= 0, r._cursor >= 0, r._cursor + r._size == total, total <= mk_int(S.len))),
        ("size_is_buffered", r._size == b.total_len() - r._buffer_offset),
        ("offset", And(r._buffer_offset >= 0,
                       Implies(buffer_len(b) == 0, r._buffer_offset == 0),
                       Implies(buffer_len(b) > 0, r._buffer_offset < _first_len(b)))),
        ("buffer_is_stream_interval", b.covers(S, r._cursor - r._buffer_offset, total)),
    ]
    if sp_none is not True:
        items.append(("splits", Implies(Not(sp_none), And(sp.all_between(0, total), sp.increasing()))))
    return items


def _first_len(b: SSeq):
    return b.first_len()


def assume_all(u, items):
    for _, c in items:
        u.assume(c)


def check_all(u, prefix, items):
    for n, c in items:
        u.check(f"{prefix}.{n}", c)


# ---------------------------------------------------------------------------


@unit("C08", "init", functions=[f"{MOD}:{CLS}.__init__"])
def init_unit(u: U):
    """__init__ establishes I8 for every limit >= 1 (limit = 0 is outside the contract: see DESIGN F8)."""
    f = u.load(MOD, f"{CLS}.__init__", globals={"TimerNoop": _Timer})
    limit = u.int("limit", 1)
    r = u.obj(CLS, {}, {})
    proto = u.obj("BaseProtocol", {}, {})
    out = u.call(f, r, proto, limit, loop=None)
    u.check("C08.init.total", out.ok, f"{out.exc!r}")
    if out.ok:
        fs = fields(r)
        S = Src("S")
        u.c.add(S.len >= 0)
        # lift the concrete empty containers to the abstract view
        b = SSeq("buffer0", z3.IntVal(0), z3.IntVal(0), True, "deque").with_prov(S, 0)
        u.check("C08.init.empty", And(len(fs["_buffer"]) == 0, fs["_http_chunk_splits"] is None), "starts empty")
        fs["_buffer"] = b
        check_all(u, "C08.init.inv", I8(r, S))


@unit("C08", "feed_data", functions=[f"{MOD}:{CLS}.feed_data"])
def feed_data_unit(u: U):
    """feed_data appends exactly the new bytes at the end of the stream, wakes the waiter and pauses the
    transport iff the buffered size exceeds the high-water mark."""
    r, S, proto, box = mk_stream(u)
    assume_all(u, I8(r, S))
    u.assume(Not(r._eof))
    n = u.int("n", 0)
    u.assume(r.total_bytes + n <= mk_int(S.len))
    data = SBytes([Seg(S, tint(r.total_bytes), tint(n))])  # the next n bytes of the ghost stream
    waiter = _Fut() if u.choose(2, "has_waiter") else None
    fields(r)["_waiter"] = waiter
    woke = []
    f = u.load(MOD, f"{CLS}.feed_data", globals={"set_result": lambda fut, v: woke.append(fut)})
    size0, total0, cursor0 = r._size, r.total_bytes, r._cursor
    out = u.call(f, r, data)
    u.check("C08.feed.total", out.ok, f"{out.exc!r}")
    if not out.ok:
        return
    check_all(u, "C08.feed.inv", I8(r, S))
    u.check("C08.feed.appended", And(r.total_bytes == total0 + n, r._size == size0 + n, r._cursor == cursor0),
            "exactly n bytes are added at the end; nothing is consumed")
    pauses = [e for e in u.events if e[0] == "pause_reading"]
    over = And(n > 0, r._size > r._high_water)
    u.check("C08.pause.feed_data", And(Implies(over, len(pauses) == 1), Implies(Not(over), len(pauses) == 0)),
            "pause_reading is requested iff new data leaves the buffered size above the high-water mark")
    u.check("C08.feed.wakes_waiter", Implies(And(n > 0, waiter is not None), And(woke == [waiter], r._waiter is None)),
            "a blocked reader is woken by new data")


@unit("C08", "chunk_markers", functions=[f"{MOD}:{CLS}.begin_http_chunk_receiving",
                                         f"{MOD}:{CLS}.end_http_chunk_receiving"])
def chunk_markers(u: U):
    """end_http_chunk_receiving records the sender's chunk boundary = current end of stream (once), keeps the split
    list increasing and within the stream, pauses on too many pending boundaries and wakes the reader."""
    r, S, proto, box = mk_stream(u)
    assume_all(u, I8(r, S))
    which = u.choose(2, "which")
    woke = []
    g = {"set_result": lambda fut, v: woke.append(fut), "collections": _Collections}
    sp, sp_none = splits_of(r)
    if which == 0:
        f = u.load(MOD, f"{CLS}.begin_http_chunk_receiving", globals=g)
        total0 = r.total_bytes
        out = u.call(f, r)
        if out.ok:
            check_all(u, "C08.chunk.begin.inv", I8(r, S))
            u.check("C08.chunk.begin.enabled", Not(is_none(r._http_chunk_splits)), "chunk tracking is on")
        else:
            u.check("C08.chunk.begin.error", And(isinstance(out.exc, RuntimeError), sp_none, total0 != 0),
                    "begin after data was fed is refused")
        return
    f = u.load(MOD, f"{CLS}.end_http_chunk_receiving", globals=g)
    waiter = _Fut() if u.choose(2, "has_waiter") else None
    fields(r)["_waiter"] = waiter
    n0 = Ite(sp_none, 0, sp.length())
    last0_is_total = None
    out = u.call(f, r)
    if not out.ok:
        u.check("C08.chunk.end.error", And(isinstance(out.exc, RuntimeError), sp_none), "end without begin is refused")
        return
    check_all(u, "C08.chunk.end.inv", I8(r, S))
    sp2, _ = splits_of(r)
    n1 = sp2.length()
    u.check("C08.chunk.end.records_boundary",
            Or(And(n1 == n0 + 1, sp2.max_term() == r.total_bytes), n1 == n0),
            "at most one boundary is added and it is the current end of the stream")
    pauses = [e for e in u.events if e[0] == "pause_reading"]
    u.check("C08.pause.chunks", And(Implies(And(n1 == n0 + 1, n1 > r._high_water_chunks), len(pauses) == 1),
                                    Implies(Not(And(n1 == n0 + 1, n1 > r._high_water_chunks)), len(pauses) == 0)),
            "pause_reading iff more than high_water_chunks boundaries are pending")
    u.check("C08.chunk.end.wakes", Implies(And(n1 == n0 + 1, waiter is not None), woke == [waiter]),
            "readchunk is woken at the end of a chunk")


def _chunk_loop_spec(u, r, S):
    """inner loop of _read_nowait_chunk: drops boundaries before the cursor; touches only the split deque"""
    sp, sp_none = splits_of(r)

    def havoc(L):
        from pyvc.core import ctx

        c = ctx()
        nm = c.fresh_name("splits@loop")
        sp.count, sp.first, sp.last = z3.Int(f"{nm}.count"), z3.Int(f"{nm}.first"), z3.Int(f"{nm}.last")
        sp.tail = []
        sp._wf()

    def inv(L):
        return [("splits", Implies(Not(sp_none), And(sp.all_between(0, r.total_bytes), sp.increasing())))]

    return dict(inv=inv, havoc=havoc, keep=("chunk_splits",), variant=lambda L: Ite(sp_none, 0, sp.length()))


@unit("C08", "read_nowait_chunk", functions=[f"{MOD}:{CLS}._read_nowait_chunk"])
def read_nowait_chunk(u: U):
    """the read primitive: returns the next stream interval, moves the cursor by its length, keeps I8, resumes the
    transport iff both low-water tests hold, and never leaves an emptied buffer paused."""
    r, S, proto, box = mk_stream(u)
    assume_all(u, I8(r, S))
    n = u.int("n")
    u.assume(Or(n == -1, n >= 0))
    u.assume(buffer_len(r._buffer) > 0)  # requires: callers test `self._buffer` first
    f = u.load(MOD, f"{CLS}._read_nowait_chunk")
    u.loop(fid("_read_nowait_chunk"), 0, **_chunk_loop_spec(u, r, S))
    c0, size0, total0, off0 = r._cursor, r._size, r.total_bytes, r._buffer_offset
    first_len = _first_len(r._buffer)
    avail = first_len - off0
    paused0 = proto._reading_paused
    nbuf0 = buffer_len(r._buffer)
    out = u.call(f, r, n)
    u.check("C08.chunk_read.total", out.ok, f"{out.exc!r}")
    if not out.ok:
        return
    u.cover("C08.read_nowait_chunk.exit")
    data = out.value
    k = blen(data)
    refills = [e for e in u.events if e[0] == "refill"]
    m = refills[0][1] if refills else 0
    check_all(u, "C08.chunk_read.inv", I8(r, S))
    u.check("C08.conserve.chunk.interval", SBytes.of(data).is_slice_of(S, c0, c0 + k),
            "the returned bytes are exactly the next bytes of the stream: S[cursor : cursor + len]")
    u.check("C08.conserve.chunk.cursor", And(r._cursor == c0 + k, r._size == size0 - k + m, r.total_bytes == total0 + m),
            "cursor advances by the number of bytes returned; nothing else is consumed")
    u.check("C08.conserve.chunk.length", k == Ite(And(n != -1, avail > n), n, avail),
            "returns min(n, rest of the first piece) bytes (all of it for n == -1)")
    resumes = [e for e in u.events if e[0] == "resume_reading"]
    sp, sp_none = splits_of(r)
    size_after = size0 - k
    nsplits = Ite(sp_none, 0, sp.length()) if not refills else None
    if nsplits is not None:
        low = And(size_after < r._low_water, Or(sp_none, nsplits < r._low_water_chunks))
        u.check("C08.resume.iff_low_water", And(Implies(low, len(resumes) == 1), Implies(Not(low), len(resumes) == 0)),
                "resume_reading iff size < low_water and pending boundaries < low_water_chunks")
    u.check("C08.noblock.empty_buffer_resumes", Implies(size_after == 0, len(resumes) == 1),
            "whenever a read empties the buffer the transport is resumed in the same atomic step "
            "(a reader blocked on an empty buffer is never left paused)")
    u.check("C08.chunk_read.splits_trimmed", Implies(And(Not(sp_none), sp.length() > 0), sp.min_term() >= r._cursor),
            "boundaries before the cursor are dropped")
    u.check("C08.chunk_read.piece_count",
            buffer_len(r._buffer) == nbuf0 - Ite(k == avail, 1, 0) + len(refills),
            "a piece leaves the buffer exactly when it is exhausted")


# ---------------------------------------------------------------------------
# modular contract of _read_nowait_chunk (proved above), used at its call sites


def havoc_reader_state(u, r, S, *, cursor, keep_cfg=True):
    """fresh buffer/offset/size/total/splits/eof for the reader, with the cursor given"""
    fs = fields(r)
    off = u.int("buffer_offset'", 0)
    fs["_cursor"] = cursor
    fs["_buffer_offset"] = off
    fs["_buffer"] = SSeq.fresh("buffer'", nonempty_elems=True, kind="deque").with_prov(S, cursor - off)
    fs["_size"] = u.int("size'")
    fs["total_bytes"] = u.int("total_bytes'")
    sp = r._http_chunk_splits
    if isinstance(sp, SOpt):
        isn = object.__getattribute__(sp, "_isnone")
        fs["_http_chunk_splits"] = SOpt(isn, SIncSeq.fresh("splits'"))
    elif sp is not None:
        fs["_http_chunk_splits"] = SIncSeq.fresh("splits'")


def chunk_contract_stub(u, S):
    def stub(self, n):
        u.check("C08.call._read_nowait_chunk.requires.nonempty", buffer_len(self._buffer) > 0,
                "_read_nowait_chunk is only called with a non-empty buffer")
        u.check("C08.call._read_nowait_chunk.requires.n", Or(n == -1, n >= 0), "n is -1 or non-negative")
        c0, size0, total0, off0 = self._cursor, self._size, self.total_bytes, self._buffer_offset
        nbuf0 = buffer_len(self._buffer)
        avail = self._buffer.first_len() - off0
        k = u.int("chunk_len", 0)
        u.assume(k == Ite(And(n != -1, avail > n), n, avail))
        m = u.int("refilled", 0)
        p = u.int("refill_pieces", 0, 1)
        u.assume(Implies(p == 0, m == 0))
        u.assume(Implies(p == 1, m >= 1))
        eof0 = self._eof
        havoc_reader_state(u, self, S, cursor=c0 + k)
        assume_all(u, I8(self, S))
        u.assume(And(self._size == size0 - k + m, self.total_bytes == total0 + m))
        u.assume(buffer_len(self._buffer) == nbuf0 - Ite(k == avail, 1, 0) + p)
        u.event("chunk_read", c0, k)
        return SBytes([Seg(S, tint(c0), tint(k))])

    return stub


@unit("C08", "read_nowait", functions=[f"{MOD}:{CLS}._read_nowait"])
def read_nowait(u: U):
    """_read_nowait(n): concatenation of consecutive chunk reads = S[cursor : cursor + len]; at most n bytes;
    stops early only when the buffer is empty; n == -1 drains at least everything... of the pieces present."""
    r, S, proto, box = mk_stream(u, methods={"_read_nowait_chunk": chunk_contract_stub(u, None)})
    from pyvc.values import methods as _m

    _m(r)["_read_nowait_chunk"] = chunk_contract_stub(u, S)
    assume_all(u, I8(r, S))
    n = u.int("n")
    u.assume(Or(n == -1, n >= 1))
    c0, size0 = r._cursor, r._size
    FN = fid("_read_nowait")
    f = u.load(MOD, f"{CLS}._read_nowait")

    def lc_factory(name):
        return SSeq.fresh(name, nonempty_elems=False, kind="list").with_prov(S, c0)

    def havoc(L):
        havoc_reader_state(u, r, S, cursor=u.int("cursor@loop", 0))

    # loop 0: hoisted comprehension  [self._read_nowait_chunk(-1) for _ in range(count)]
    def inv0(L):
        it = L["__vc_it0"]
        acc = L["__vc_lc0"]
        return I8(r, S) + [
            ("acc_is_prefix", acc.covers(S, c0, r._cursor) if isinstance(acc, SSeq) else And(len(acc) == 0, r._cursor == c0)),
            ("enough_pieces", buffer_len(r._buffer) >= L["count"] - it.i),
            ("progress_per_piece", r._cursor - c0 >= it.i),
            ("consumed_from_entry", r._size >= size0 - (r._cursor - c0)),
            ("progress", And(r._cursor >= c0, Implies(r._cursor == c0, r._size == size0))),
        ]

    u.loop(FN, 0, inv=inv0, havoc=havoc, types={"__vc_lc0": lc_factory}, variant=lambda L: L["count"] - L["__vc_it0"].i)

    # loop 1: while self._buffer: chunk = _read_nowait_chunk(n); chunks.append(chunk); n -= len(chunk); if n == 0: break
    def inv1(L):
        ch = L["chunks"]
        return I8(r, S) + [
            ("chunks_is_prefix", ch.covers(S, c0, r._cursor) if isinstance(ch, SSeq) else And(len(ch) == 0, r._cursor == c0)),
            ("n_accounting", And(L["n"] >= 1, L["n"] == n - (r._cursor - c0))),
            ("consumed_from_entry", r._size >= size0 - (r._cursor - c0)),
            ("progress", And(r._cursor >= c0, Implies(r._cursor == c0, r._size == size0))),
        ]

    u.loop(FN, 1, inv=inv1, havoc=havoc, types={"chunks": lc_factory, "chunk": lambda nm: SBytes.fresh(nm, register=False)},
           variant=lambda L: L["n"])
    out = u.call(f, r, n)
    u.check("C08.read_nowait.total", out.ok, f"{out.exc!r}")
    if not out.ok:
        return
    u.cover("C08.read_nowait.exit")
    data = SBytes.of(out.value)
    k = blen(data)
    check_all(u, "C08.read_nowait.inv", I8(r, S))
    u.check("C08.conserve.read_nowait.interval", data.is_slice_of(S, c0, c0 + k),
            "the returned bytes are S[cursor : cursor + len] - adjacent chunks, no gap, no overlap")
    u.check("C08.conserve.read_nowait.cursor", r._cursor == c0 + k, "cursor advances by exactly len(result)")
    u.check("C08.read_nowait.bound", Implies(n >= 1, And(k <= n, Or(k == n, buffer_len(r._buffer) == 0))),
            "at most n bytes; fewer only if the buffer ran empty")
    u.check("C08.eof.read_nowait_empty", Implies(k == 0, size0 == 0),
            "an empty result means the buffer was empty")
    u.check("C08.read_nowait.at_least", Implies(n >= 1, k >= Ite(n < size0, n, size0)),
            "everything that was buffered is returned, up to n bytes")


# ---------------------------------------------------------------------------
# async readers: the only suspension point is _wait(); while suspended the producer may feed data, chunk markers,
# eof or an exception (arbitrary I8 state) but nobody else moves the cursor (single consumer, enforced by _wait)


def read_nowait_contract_stub(u, S):
    def stub(self, n):
        u.check("C08.call._read_nowait.requires.n", Or(n == -1, n >= 1), "n is -1 or positive")
        c0, size0 = self._cursor, self._size
        k = u.int("read_len", 0)
        havoc_reader_state(u, self, S, cursor=c0 + k)
        assume_all(u, I8(self, S))
        u.assume(Implies(k == 0, size0 == 0))
        u.assume(Implies(n >= 1, And(k <= n, Or(k == n, buffer_len(self._buffer) == 0))))
        u.assume(Implies(size0 > 0, k >= 1))
        u.assume(Implies(n >= 1, k >= Ite(n < size0, n, size0)))
        u.event("read_nowait", c0, k, n)
        return SBytes([Seg(S, tint(c0), tint(k))])

    return stub


def wait_stub(u, r, S, box):
    def _wait(self, func_name):
        def on_resume():
            # interference while suspended: anything the producer side may do, cursor untouched
            c = self._cursor
            havoc_reader_state(u, self, S, cursor=c)
            fs = fields(self)
            fs["_eof"] = u.bool("eof'")
            assume_all(u, I8(self, S))
            if u.choose(2, "exception_set_while_waiting"):
                fs["_exception"] = RuntimeError("symbolic stream error")

        u.event("wait", func_name, buffer_len(self._buffer), self._eof, self._protocol._reading_paused)
        return stubs.SAwait(name="_wait", on_resume=on_resume, raises=(RuntimeError("Connection closed."),))

    return _wait


def _async_reader_unit(u: U, name, args=()):
    r, S, proto, box = mk_stream(u)
    from pyvc.values import methods as _m

    _m(r)["_read_nowait"] = read_nowait_contract_stub(u, S)
    _m(r)["_read_nowait_chunk"] = chunk_contract_stub(u, S)
    _m(r)["_wait"] = wait_stub(u, r, S, box)
    _m(r)["set_read_chunk_size"] = lambda self, n: u.event("set_read_chunk_size", n)
    assume_all(u, I8(r, S))
    if u.choose(2, "exception_already_set"):
        fields(r)["_exception"] = RuntimeError("earlier error")
    u.cancel_at_awaits = True
    return r, S, proto, box


def _wait_obligations(u, r):
    """at every suspension in _wait: the reader really has nothing to return"""
    for e in u.events:
        if e[0] == "wait":
            u.check("C08.wait.only_when_empty", And(e[2] == 0, Not(e[3])),
                    "a reader suspends only on an empty buffer before end-of-stream")


@unit("C08", "read", functions=[f"{MOD}:{CLS}.read"])
def read_unit(u: U):
    """read(n), n > 0: returns S[cursor : cursor+len], 1 <= len <= n, or b'' only at end of stream."""
    import asyncio

    r, S, proto, box = _async_reader_unit(u, "read")
    n = u.int("n", 1)
    c0 = r._cursor
    exc0 = r._exception
    FN = fid("read")
    f = u.load(MOD, f"{CLS}.read")
    # loop 0 is the `while True` of the n < 0 branch (not reachable for n >= 1); loop 1 waits for data
    u.loop(FN, 0, inv=lambda L: [("unreachable", False)])
    u.loop(FN, 1, inv=lambda L: I8(r, S) + [("cursor_unchanged", r._cursor == c0), ("no_exception_check_needed", True)],
           havoc=lambda L: (havoc_reader_state(u, r, S, cursor=c0), fields(r).__setitem__("_eof", u.bool("eof@loop"))))
    out = u.call(f, r, n)
    _wait_obligations(u, r)
    if not out.ok:
        u.check("C08.read.errors", Or(out.exc is exc0, isinstance(out.exc, (RuntimeError, asyncio.CancelledError))),
                f"read raises only the stream's exception / connection closed / cancellation, got {out.exc!r}")
        u.check("C08.conserve.read.nothing_lost_on_error", r._cursor == c0, "an exceptional read consumes nothing")
        return
    data = SBytes.of(out.value)
    k = blen(data)
    check_all(u, "C08.read.inv", I8(r, S))
    u.check("C08.conserve.read.interval", And(data.is_slice_of(S, c0, c0 + k), r._cursor == c0 + k, k <= n),
            "read(n) returns the next k <= n bytes of the stream and advances the cursor by k")
    evs = [e for e in u.events if e[0] == "read_nowait"]
    u.check("C08.eof.read", Implies(k == 0, And(len(evs) == 1, r._eof)),
            "read(n > 0) returns b'' only after end-of-stream with an empty buffer")


@unit("C08", "readany", functions=[f"{MOD}:{CLS}.readany"])
def readany_unit(u: U):
    """readany(): everything buffered once data is available; b'' only at end of stream."""
    import asyncio

    r, S, proto, box = _async_reader_unit(u, "readany")
    c0 = r._cursor
    exc0 = r._exception
    FN = fid("readany")
    f = u.load(MOD, f"{CLS}.readany")
    u.loop(FN, 0, inv=lambda L: I8(r, S) + [("cursor_unchanged", r._cursor == c0)],
           havoc=lambda L: (havoc_reader_state(u, r, S, cursor=c0), fields(r).__setitem__("_eof", u.bool("eof@loop"))))
    out = u.call(f, r)
    _wait_obligations(u, r)
    if not out.ok:
        u.check("C08.readany.errors", Or(out.exc is exc0, isinstance(out.exc, (RuntimeError, asyncio.CancelledError))),
                f"got {out.exc!r}")
        u.check("C08.conserve.readany.nothing_lost_on_error", r._cursor == c0, "an exceptional read consumes nothing")
        return
    data = SBytes.of(out.value)
    k = blen(data)
    check_all(u, "C08.readany.inv", I8(r, S))
    u.check("C08.conserve.readany.interval", And(data.is_slice_of(S, c0, c0 + k), r._cursor == c0 + k),
            "readany returns the next bytes of the stream")
    u.check("C08.eof.readany", Implies(k == 0, r._eof), "b'' only after end-of-stream")


@unit("C08", "readchunk", functions=[f"{MOD}:{CLS}.readchunk"])
def readchunk_unit(u: U):
    """readchunk(): (data, True) only when the new cursor is a boundary recorded by end_http_chunk_receiving;
    (b'', False) only at end of stream; data is the next stream interval."""
    import asyncio

    r, S, proto, box = _async_reader_unit(u, "readchunk")
    c0 = r._cursor
    exc0 = r._exception
    FN = fid("readchunk")
    f = u.load(MOD, f"{CLS}.readchunk", globals={"internal_logger": type("L", (), {"warning": staticmethod(lambda *a: None)})})
    popped = []
    sp, sp_none = splits_of(r)
    real_popleft = SIncSeq.popleft

    def hv(L):
        havoc_reader_state(u, r, S, cursor=c0)
        fields(r)["_eof"] = u.bool("eof@loop")

    # loop 0: while True (outer), loop 1: while self._http_chunk_splits (inner)
    u.loop(FN, 0, inv=lambda L: I8(r, S) + [("cursor_unchanged", r._cursor == c0)], havoc=hv)
    u.loop(FN, 1, inv=lambda L: I8(r, S) + [("cursor_unchanged", r._cursor == c0)], havoc=hv,
           variant=lambda L: Ite(splits_of(r)[1], 0, splits_of(r)[0].length()))
    out = u.call(f, r)
    _wait_obligations(u, r)
    if not out.ok:
        u.check("C08.readchunk.errors", Or(out.exc is exc0, isinstance(out.exc, (RuntimeError, asyncio.CancelledError))),
                f"got {out.exc!r}")
        u.check("C08.conserve.readchunk.nothing_lost_on_error", r._cursor == c0, "an exceptional read consumes nothing")
        return
    data, end = out.value
    data = SBytes.of(data)
    k = blen(data)
    check_all(u, "C08.readchunk.inv", I8(r, S))
    u.check("C08.conserve.readchunk.interval", And(data.is_slice_of(S, c0, c0 + k), r._cursor == c0 + k),
            "readchunk returns the next bytes of the stream")
    L = u.last_locals.get(FN, {})
    if end is True:
        pos = L.get("pos")
        u.check("C08.chunk.boundary_is_senders", And(pos is not None, r._cursor == pos if pos is not None else False),
                "(data, True) is reported exactly at a boundary popped from the sender's split list")
    else:
        u.check("C08.eof.readchunk", Implies(k == 0, r._eof), "(b'', False) only after end-of-stream")


@unit("C08", "readexactly", functions=[f"{MOD}:{CLS}.readexactly"])
def readexactly_unit(u: U):
    """readexactly(n): exactly the next n bytes, or IncompleteReadError carrying the bytes consumed so far."""
    import asyncio

    r, S, proto, box = mk_stream(u)
    assume_all(u, I8(r, S))
    n = u.int("n")
    c0 = r._cursor
    FN = fid("readexactly")

    def read_stub(self, k):
        u.check("C08.call.read.requires.positive", k >= 1, "read(n) is called with n > 0")
        cc = self._cursor
        j = u.int("read_len", 0)
        u.assume(j <= k)

        def res():
            havoc_reader_state(u, self, S, cursor=cc + j)
            assume_all(u, I8(self, S))
            return SBytes([Seg(S, tint(cc), tint(j))])

        return stubs.SAwait(result=res, name="read", raises=(RuntimeError("stream error"),))

    from pyvc.values import methods as _m

    _m(r)["read"] = read_stub

    class _IncompleteReadError(asyncio.IncompleteReadError):
        def __init__(self, partial, expected):
            Exception.__init__(self, "incomplete read")
            self.partial = partial
            self.expected = expected

    class _Asyncio:
        IncompleteReadError = _IncompleteReadError

    f = u.load(MOD, f"{CLS}.readexactly", globals={"asyncio": _Asyncio})

    def inv(L):
        bl = L["blocks"]
        return I8(r, S) + [
            ("blocks_is_prefix", bl.covers(S, c0, r._cursor) if isinstance(bl, SSeq) else And(len(bl) == 0, r._cursor == c0)),
            ("n_accounting", L["n"] == n - (r._cursor - c0)),
            ("n_lower", L["n"] >= Ite(n > 0, 0, n)),
            ("cursor_monotone", r._cursor >= c0),
        ]

    u.loop(FN, 0, inv=inv, havoc=lambda L: havoc_reader_state(u, r, S, cursor=u.int("cursor@loop", 0)),
           types={"blocks": lambda nm: SSeq.fresh(nm, kind="list").with_prov(S, c0),
                  "block": lambda nm: SBytes.fresh(nm, register=False)},
           variant=lambda L: L["n"])
    u.cancel_at_awaits = True
    out = u.call(f, r, n)
    if out.ok:
        data = SBytes.of(out.value)
        k = blen(data)
        u.check("C08.conserve.readexactly", And(data.is_slice_of(S, c0, c0 + k), r._cursor == c0 + k,
                                                k == Ite(n > 0, n, 0)),
                "readexactly(n) returns exactly the next n bytes")
    elif isinstance(out.exc, asyncio.IncompleteReadError):
        part = SBytes.of(out.exc.partial)
        u.check("C08.conserve.readexactly.partial", And(part.is_slice_of(S, c0, r._cursor), blen(part) < n),
                "IncompleteReadError carries every byte consumed so far (nothing is lost)")
    else:
        u.check("C08.readexactly.errors", isinstance(out.exc, (RuntimeError, asyncio.CancelledError)), f"got {out.exc!r}")


@unit("C08", "feed_eof", functions=[f"{MOD}:{CLS}.feed_eof", f"{MOD}:{CLS}.set_read_chunk_size"])
def feed_eof_unit(u: U):
    """feed_eof latches eof, wakes the waiter, resumes the transport without re-entering the parser; I8 kept.
    set_read_chunk_size only raises the water marks and keeps high = 2*low."""
    r, S, proto, box = mk_stream(u)
    assume_all(u, I8(r, S))
    woke = []
    if u.choose(2, "which"):
        f = u.load(MOD, f"{CLS}.set_read_chunk_size")
        n = u.int("n")
        low0 = r._low_water
        out = u.call(f, r, n)
        u.check("C08.cfg.set_read_chunk_size.total", out.ok, f"{out.exc!r}")
        if out.ok:
            check_all(u, "C08.cfg.set_read_chunk_size.inv", I8(r, S))
            u.check("C08.cfg.set_read_chunk_size.monotone", And(r._low_water >= low0, r._low_water >= Ite(n > low0, n, low0)),
                    "water marks never decrease")
        return
    waiter = _Fut() if u.choose(2, "has_waiter") else None
    fields(r)["_waiter"] = waiter
    f = u.load(MOD, f"{CLS}.feed_eof", globals={"set_result": lambda fut, v: woke.append(fut)})
    c0, size0 = r._cursor, r._size
    out = u.call(f, r)
    u.check("C08.eof.feed_eof.total", out.ok, f"{out.exc!r}")
    if out.ok:
        check_all(u, "C08.eof.feed_eof.inv", I8(r, S))
        res = [e for e in u.events if e[0] == "resume_reading"]
        u.check("C08.eof.feed_eof.effects", And(r._eof == True, r._cursor == c0, r._size == size0,  # noqa: E712
                                                Implies(waiter is not None, woke[:1] == [waiter]),
                                                len(res) == 1, res[0][1] is False if res else False),
                "eof is latched, buffered data is kept, the waiter is woken, the transport is resumed (no parser re-entry)")


@unit("C08", "iterators", functions=[f"{MOD}:ChunkTupleAsyncStreamIterator.__anext__", f"{MOD}:AsyncStreamIterator.__anext__"])
def iterators_unit(u: U):
    """`async for` over a stream (iter_chunks / iter_chunked / iter_any / line iteration): each step hands on exactly what the
    read function returned and the iteration ends only on the read function's end-of-stream answer - (b'', False) for
    readchunk, b'' / EofStream for the others.  With the readchunk / read contracts (b'' only at end of stream) the
    iteration therefore ends only after all data, and a chunk boundary marker (b'', True) in mid-stream is delivered."""
    from pyvc.stubs import SAwait

    from aiohttp import streams as S

    which = u.choose(2, "iterator")
    data = u.bytes("chunk")
    if which == 0:
        flag = u.bool("end_of_http_chunk")
        rv0 = (data, flag)

        class _Stream:
            def readchunk(self):
                return SAwait(result=rv0, name="readchunk")

        it = u.obj("ChunkTupleAsyncStreamIterator", {"_stream": _Stream()}, {}, shared=False)
        f = u.load(MOD, "ChunkTupleAsyncStreamIterator.__anext__")
        out = u.call(f, it)
        at_end = And(blen(data) == 0, Not(flag))
        stopped = (not out.ok) and isinstance(out.exc, StopAsyncIteration)
        u.check("C08.iter.chunks.total", out.ok or stopped, f"only StopAsyncIteration ends the iteration: {out.exc!r}")
        u.check("C08.iter.chunks.stops_only_at_end_of_stream", at_end if stopped else Not(at_end),
                "iter_chunks() ends exactly on readchunk's end-of-stream answer (b'', False); an empty piece that carries a "
                "chunk boundary (b'', True) is mid-stream and is delivered - later chunks follow it",
                witness={"len": blen(data), "end_of_http_chunk": flag, "stopped": stopped})
        if out.ok:
            u.check("C08.iter.chunks.identity", out.value is rv0 or (isinstance(out.value, tuple) and len(out.value) == 2
                                                                   and out.value[0] is data and out.value[1] is flag),
                    "the (bytes, boundary) pair is handed on unchanged")
        return
    eof_exc = u.choose(2, "read_func_raises_EofStream") == 1

    thrown = []

    def read_func():
        return SAwait(result=data, raises=(S.EofStream(),) if eof_exc else (), name="read_func", on_raise=thrown.append)

    it = u.obj("AsyncStreamIterator", {"read_func": read_func}, {}, shared=False)
    f = u.load(MOD, "AsyncStreamIterator.__anext__")
    out = u.call(f, it)
    stopped = (not out.ok) and isinstance(out.exc, StopAsyncIteration)
    u.check("C08.iter.bytes.total", out.ok or stopped, f"only StopAsyncIteration ends the iteration: {out.exc!r}")
    if out.ok:
        u.check("C08.iter.bytes.identity", And(out.value is data, blen(data) > 0), "a non-empty read is handed on unchanged")
    else:
        u.check("C08.iter.bytes.stops_only_at_end_of_stream", Or(bool(thrown), blen(data) == 0),
                "the iteration ends only on the read function's end-of-stream answer (b'' or EofStream)")


@unit("C08", "protocol.flow", functions=["aiohttp.base_protocol:BaseProtocol.pause_reading",
                                         "aiohttp.base_protocol:BaseProtocol.resume_reading"])
def protocol_flow(u: U):
    """BaseProtocol.pause_reading / resume_reading (the contract StreamReader relies on): the paused flag and
    the transport agree; a pause requested re-entrantly during resume_reading (parser refilling the buffer above the
    high-water mark) is not overwritten - the transport stays paused."""
    PM = "aiohttp.base_protocol"
    tstate = {"paused": u.bool("transport_paused"), "calls": []}
    flow_control = bool(u.choose(2, "transport_has_flow_control"))

    def t_pause(self):
        tstate["calls"].append("pause")
        if not flow_control:
            raise NotImplementedError
        tstate["paused"] = True

    def t_resume(self):
        tstate["calls"].append("resume")
        if not flow_control:
            raise RuntimeError("not paused / no flow control")
        tstate["paused"] = False

    tr = u.obj("Transport", {}, {"pause_reading": t_pause, "resume_reading": t_resume}) if u.choose(2, "has_transport") else None
    parser = u.obj("HttpParser", {}, {"pause_reading": lambda s: u.event("parser.pause")})
    upgraded = u.bool("upgraded")
    msgq = u.bool("paused_for_msg_queue")
    repaused = []

    def data_received(self, data):
        u.event("data_received", data)
        if u.choose(2, "parser_pauses_again"):
            repaused.append(True)
            self.pause_reading()

    p = u.obj("BaseProtocol", {"_reading_paused": u.bool("reading_paused"), "_upgraded": upgraded, "_parser": parser,
                               "transport": tr},
              {"data_received": data_received, "_reading_paused_for_msg_queue": lambda s: msgq})
    from pyvc.values import methods as _m

    pause = u.load(PM, "BaseProtocol.pause_reading")
    _m(p)["pause_reading"] = lambda self: pause(self)
    if u.choose(2, "which"):
        out = u.call(pause, p)
        u.check("C08.protocol.pause.total", out.ok, f"{out.exc!r}")
        u.check("C08.protocol.pause.effect",
                And(p._reading_paused == True,  # noqa: E712
                    Implies(And(tr is not None, flow_control), tstate["paused"] == True)),  # noqa: E712
                "pause_reading sets the flag and pauses the transport")
        return
    resume = u.load(PM, "BaseProtocol.resume_reading")
    rp = bool(u.choose(2, "resume_parser"))
    out = u.call(resume, p, rp)
    u.check("C08.protocol.resume.total", out.ok, f"{out.exc!r}")
    if not out.ok:
        return
    if repaused:
        u.check("C08.pause.reentrant_pause_survives_resume",
                And(p._reading_paused == True,  # noqa: E712
                    Implies(And(tr is not None, flow_control), tstate["paused"] == True),  # noqa: E712
                    tstate["calls"][-1:] != ["resume"]),
                "a pause requested while resume_reading re-enters the parser wins: flag set, transport still paused")
    else:
        can = And(Not(msgq), tr is not None)
        u.check("C08.resume.transport_resumed",
                And(Implies(can, And(tstate["calls"][-1:] == ["resume"], p._reading_paused == False)),  # noqa: E712
                    Implies(Not(can), "resume" not in tstate["calls"])),
                "without a new pause the transport is resumed (unless held for the message queue) and the flag cleared")
    entered = [e for e in u.events if e[0] == "data_received"]
    u.check("C08.resume.parser_reentry", (len(entered) == 1) == And(Not(upgraded), rp) if not is_sym(upgraded)
            else And(Implies(And(Not(upgraded), rp), len(entered) == 1), Implies(Not(And(Not(upgraded), rp)), len(entered) == 0)),
            "pending parser input is drained exactly when asked and not upgraded")


@unit("C08", "canary.chunk_read_exceeds", functions=[f"{MOD}:{CLS}._read_nowait_chunk"], expect="canary")
def canary_chunk(u: U):
    """deliberately false: _read_nowait_chunk(n) always returns exactly n bytes for n >= 1"""
    r, S, proto, box = mk_stream(u)
    assume_all(u, I8(r, S))
    n = u.int("n", 1)
    u.assume(buffer_len(r._buffer) > 0)
    f = u.load(MOD, f"{CLS}._read_nowait_chunk")
    u.loop(fid("_read_nowait_chunk"), 0, **_chunk_loop_spec(u, r, S))
    out = u.call(f, r, n)
    if out.ok:
        u.check("C08.canary", blen(out.value) == n, "false: a short first piece yields fewer bytes")
