"""C19 - multipart codec round trip, truthful size, and reader termination.

Functions under contract (real text from /repo, aiohttp/multipart.py):
  MultipartPayloadWriter.write, write_eof                  (base64 quartet buffering on the writing side)
  MultipartWriter.size, MultipartWriter.write              (declared size == bytes written)
  MultipartReader._read_headers                            (limits enforced while reading)
  BodyPartReader._align_base64_chunk                       (quartet alignment on the reading side)
  BodyPartReader._read_chunk_from_stream                   (boundary search with push-back, EOF counting)

Byte strings are provenance ropes, so "the same bytes in the same order" is structural equality of ropes.
base64 / quoted-printable / zlib themselves are external (ASSUMED: b64encode of a multiple of 3 bytes is the
concatenation-compatible encoding; that is why only whole triples may be encoded before the end).
"""
import z3

from pyvc import And, Iff, Implies, Not, Or, SBytes, SInt, U, blen, fields, is_sym, mk_bool, mk_int, stubs, tbool, tint
from pyvc.registry import unit
from pyvc.stubs import SAwait

MP = "aiohttp.multipart"


class Boom(Exception):
    pass


def cat(parts):
    out = SBytes.of(b"")
    for p in parts:
        out = out + SBytes.of(p)
    return out


# ---------------------------------------------------------------------------------------------------------------
# writer: base64 buffering


@unit("C19", "writer.base64", functions=[f"{MP}:MultipartPayloadWriter.write", f"{MP}:MultipartPayloadWriter.write_eof"])
def writer_base64(u: U):
    """MultipartPayloadWriter with base64: for an arbitrary buffer state (0..2 pending bytes) and an arbitrary chunk,
    what is handed to b64encode, in order, followed by the new buffer is exactly  old buffer ++ chunk ; only whole
    triples are encoded before the end; write_eof encodes exactly the rest"""
    enc_in = []
    written = []

    class _b64:
        @staticmethod
        def b64encode(b):
            stubs.used("base64.b64encode: encodings of byte strings whose lengths are multiples of 3 concatenate to the "
                       "encoding of the concatenation")
            enc_in.append(SBytes.of(b))
            out = u.bytes("b64")
            return out

    class _W:
        def write(self, b):
            written.append(b)
            return SAwait(name="writer.write")

    buf0 = u.bytes("pending", bytearray)
    u.assume(blen(buf0) <= 2)
    chunk = u.bytes("chunk")
    w = u.obj("MultipartPayloadWriter", {"_writer": _W(), "_encoding": "base64", "_compress": None,
                                         "_encoding_buffer": buf0.copy_as(bytearray)}, {}, shared=False)
    f = u.load(MP, "MultipartPayloadWriter.write", globals={"base64": _b64})
    want = SBytes.of(buf0) + chunk
    out = u.call(f, w, chunk)
    u.check("C19.b64.write.total", out.ok, repr(out))
    if not out.ok:
        return
    buf1 = SBytes.of(fields(w)["_encoding_buffer"])
    u.check("C19.b64.write.order_and_conservation", (cat(enc_in) + buf1).prov_eq(want),
            "bytes encoded so far, in order, followed by the pending buffer == pending ++ chunk: nothing lost, "
            "duplicated or reordered")
    u.check("C19.b64.write.whole_triples_only", And(*[mk_bool(tint(blen(e)) % 3 == 0) for e in enc_in]) if enc_in else True,
            "only whole 3-byte groups are encoded before the end (so the pieces decode as one stream)")
    u.check("C19.b64.write.buffer_small", blen(buf1) <= 2, "at most two bytes stay pending")
    u.check("C19.b64.write.one_write_per_encode", len(written) == len(enc_in), "every encoded piece is written, once")
    # write_eof flushes exactly the rest
    enc_in.clear()
    written.clear()
    g = u.load(MP, "MultipartPayloadWriter.write_eof", globals={"base64": _b64})
    o2 = u.call(g, w)
    u.check("C19.b64.eof.flushes_rest", o2.ok and cat(enc_in).prov_eq(buf1) and len(written) == len(enc_in),
            "write_eof encodes exactly the pending bytes (with padding) and nothing else")


# ---------------------------------------------------------------------------------------------------------------
# writer: size == bytes written


class _Part:
    def __init__(self, u, i, log):
        self.u, self.i, self.log = u, i, log
        self.size = u.int(f"part{i}.size", 0)
        self._binary_headers = u.bytes(f"part{i}.headers")
        self.headers = {"Content-Disposition": 'form-data; name="x"'}

    def write(self, writer):
        body = self.u.bytes(f"part{self.i}.body")
        self.u.assume(blen(body) == self.size)  # ASSUMED contract of Payload.write: writes exactly `size` bytes
        return writer.write(body)


@unit("C19", "writer.size", functions=[f"{MP}:MultipartWriter.size", f"{MP}:MultipartWriter.write"])
def writer_size(u: U):
    """MultipartWriter: for any number (0..2 here, element-wise) of sized, unencoded parts the declared size equals the
    number of bytes write() emits; with an encoded / unsized part no size is declared; size is computed from the parts'
    CURRENT headers"""
    log = []
    written = []

    class _W:
        def write(self, b):
            written.append(SBytes.of(b))
            return SAwait(name="writer.write")

    from pyvc.registry import width

    n = u.choose(width(3, 5), "n_parts")
    parts = [_Part(u, i, log) for i in range(n)]
    enc = u.choose(2, "some_part_encoded") == 1 if n else False
    plist = [(p, "", "base64" if (enc and i == 0) else "") for i, p in enumerate(parts)]
    boundary = u.bytes("boundary")
    mw = u.obj("MultipartWriter", {"_parts": plist, "_boundary": boundary, "_is_form_data": False, "_size": None},
               {"super.__init__": lambda self, *a, **k: None}, shared=False, real=(MP, "MultipartWriter"),
               init=(MP, "MultipartWriter.__init__", ("mixed", "BOUNDARY"), {}))
    fsz = u.load(MP, "MultipartWriter.size")
    u.loop("multipart:MultipartWriter.size", 0, unroll=True, bound=8)
    s1 = u.call(fsz, mw)
    u.check("C19.size.total", s1.ok, repr(s1))
    if not s1.ok:
        return
    if enc:
        u.check("C19.size.unknown_when_encoded", s1.value is None, "a transfer- or content-encoded part makes the size unknown")
        return
    fw = u.load(MP, "MultipartWriter.write")
    u.loop("multipart:MultipartWriter.write", 0, unroll=True, bound=8)
    o = u.call(fw, mw, _W())
    u.check("C19.write.total", o.ok, repr(o))
    total = mk_int(z3.IntVal(0))
    for b in written:
        total = total + blen(b)
    u.check("C19.size.equals_bytes_written", s1.value == total,
            "the declared size (Content-Length of the multipart body) equals the bytes write() emits")
    if n:
        # configuring a part after it was appended (the documented way) changes its header block
        parts[0]._binary_headers = u.bytes("part0.headers.edited")
        s2 = u.call(fsz, mw)
        written.clear()
        o = u.call(fw, mw, _W())
        total2 = mk_int(z3.IntVal(0))
        for b in written:
            total2 = total2 + blen(b)
        u.check("C19.size.tracks_current_headers", s2.ok and s2.value == total2,
                "size is recomputed from the parts' current headers: it stays truthful after a part was edited")


# ---------------------------------------------------------------------------------------------------------------
# reader: header limits


@unit("C19", "reader.headers", functions=[f"{MP}:MultipartReader._read_headers"])
def reader_headers(u: U):
    """_read_headers: loop invariant - at most max_headers lines are ever held, each at most max_field_size long (the
    limit is applied by readline while reading); the loop stops at the first empty line or with an error"""
    from aiohttp.http_exceptions import BadHttpMessage

    maxh = u.int("max_headers", 1)
    maxf = u.int("max_field_size", 1)
    asked = []

    class _Content:
        def readline(self, max_line_length=None):
            asked.append(max_line_length)

            def r():
                b = u.bytes("line")
                u.assume(blen(b) <= max_line_length + 2)  # contract of StreamReader.readline(max_line_length) (C08/C10)
                return b

            return SAwait(result=r, raises=(Boom,), name="readline")

    class _HP:
        def __init__(self, **kw):
            pass

        def parse_headers(self, lines):
            return "HEADERS", "RAW"

    r = u.obj("MultipartReader", {"_content": _Content(), "_max_field_size": maxf, "_max_headers": maxh}, {}, shared=False)
    f = u.load(MP, "MultipartReader._read_headers", globals={"HeadersParser": _HP})
    fn = "multipart:MultipartReader._read_headers"
    from pyvc.values import SList

    def nlines(L):
        x = L["lines"]
        return x.sym_len() if isinstance(x, SList) else len(x)

    u.loop(fn, 0, inv=lambda L: [("held_lines_bounded", nlines(L) <= maxh)],
           types={"lines": lambda nm: SList(nm)})
    out = u.call(f, r)
    u.check("C19.headers.limit_passed_to_readline", all(a is maxf for a in asked),
            "every line is read with max_field_size as its limit: an over-long line fails while it is being read")
    if not out.ok:
        u.check("C19.headers.errors", isinstance(out.exc, (BadHttpMessage, Boom)), repr(out))


# ---------------------------------------------------------------------------------------------------------------
# reader: base64 alignment


@unit("C19", "reader.align_base64", functions=[f"{MP}:BodyPartReader._align_base64_chunk"], timeout_ms=20000,
      must_cover=("C19.align.walk_reached_the_start", "C19.align.cut_inside"))
def reader_align(u: U):
    """_align_base64_chunk: whatever it returns, returned ++ carried == the chunk it was given (no byte lost or
    reordered); the walk back over a partial quartet stays inside the chunk and terminates"""
    from aiohttp import multipart as M

    chunk = u.bytes("chunk")
    size = u.int("size", 1)
    n = blen(chunk)
    at_eof = u.bool("at_eof")
    # prefix count of base64 characters: P(k) = number of base64 chars in chunk[:k]   (ghost, defined by its axioms)
    P = z3.Function("b64_prefix_count", z3.IntSort(), z3.IntSort())
    isb = lambda i: tbool(M._BASE64_CHARS.__contains__(0) if False else _in_b64(chunk, i, M))  # noqa: E731

    def axioms_at(k):
        c = u.c
        kt = tint(k)
        c.add(P(z3.IntVal(0)) == 0)
        # (guarded: the walk asks for k = cut - 1, which is -1 when the walk reaches the start of the chunk; an
        # unguarded range fact for k = -1 is `false` and silently removed exactly the path that returns at cut == 0)
        c.add(z3.Implies(kt >= 0, z3.And(P(kt) >= 0, P(kt) <= kt)))
        c.add(z3.Implies(z3.And(kt >= 0, kt < tint(n)), P(kt + 1) == P(kt) + z3.If(tbool(_in_b64(chunk, k, M)), 1, 0)))

    class _Translated:
        def __init__(self, total):
            self.total = total

        def sym_len(self):
            return self.total

    r = u.obj("BodyPartReader", {"_at_eof": at_eof, "_length": None, "_read_bytes": 0, "_b64_carry": b""}, {}, shared=False)
    f = u.load(MP, "BodyPartReader._align_base64_chunk")
    fn = "multipart:BodyPartReader._align_base64_chunk"
    holder = {}

    def hook_translate(o, *a, **k):
        # chunk.translate(None, _NON_BASE64_BYTES): the base64 characters of the (possibly truncated) chunk
        holder["cur"] = SBytes.of(o)
        m = blen(SBytes.of(o))
        axioms_at(m)
        return _Translated(mk_int(P(tint(m))))

    u.call_hooks[("SBytes", "translate")] = hook_translate

    def inv(L):
        cut, left = L["cut"], L["left"]
        cur = holder["cur"]
        axioms_at(cut)
        axioms_at(cut - 1)
        axioms_at(blen(cur))
        rem = L["remainder"]
        return [("cut_in_chunk", And(cut >= 0, cut <= blen(cur))),
                ("left_counted", And(left >= 0, left <= mk_int(P(tint(cut))))),
                # ghost count: the base64 characters walked over so far are exactly remainder - left
                ("walk_counts", mk_int(P(tint(blen(cur)))) - mk_int(P(tint(cut))) == rem - left)]

    u.loop(fn, 0, inv=inv, variant=lambda L: L["cut"], at_head=lambda L: holder.__setitem__("exit_cut", L["cut"]))
    out = u.call(f, r, chunk, size)
    u.check("C19.align.total", out.ok, f"no IndexError / wrap-around while walking back: {out!r}")
    if not out.ok:
        return
    res = SBytes.of(out.value)
    carry = SBytes.of(fields(r)["_b64_carry"])
    if "cur" in holder and "exit_cut" in holder:
        # reachability behind the ghost axioms (an unguarded axiom once made the cut == 0 exit unsatisfiable)
        if u.branch(holder["exit_cut"] == 0, "walk reached the start"):
            u.cover("C19.align.walk_reached_the_start")
        else:
            u.cover("C19.align.cut_inside")
    u.check("C19.align.conservation", (res + carry).prov_eq(chunk),
            "returned ++ carried over == the chunk given: nothing lost, duplicated or reordered")
    # the chunk the walk worked on is the given one cut at `size` (unless the part is at its end)
    cur = holder.get("cur")
    short_delivery = And(Not(at_eof), blen(chunk) < size)
    u.check("C19.align.progress", Or(blen(res) > 0, blen(chunk) == 0, short_delivery),
            "a non-empty chunk always yields something - except a delivery shorter than asked for that holds no whole "
            "quartet yet, which is kept back whole (read_chunk() then reads on: C19.read_chunk.empty_only_at_the_end)")
    if cur is not None:
        axioms_at(blen(res))
        axioms_at(blen(cur))
        n_b64_out = mk_int(P(tint(blen(res))))
        n_b64_all = mk_int(P(tint(blen(cur))))
        # From the property: a base64 part is read back identically under ANY segmentation, also when every chunk is
        # decoded on its own (part.decode(await part.read_chunk())) - so every chunk but the last holds whole quartets.
        # The one escape is a full-size chunk that holds fewer than four base64 characters at all (a run of padding /
        # line breaks as long as the chunk asked for): it cannot be produced by the writer, whose base64 bodies hold
        # base64 characters only, and an existing test pins that it is handed back as it is.
        u.check("C19.align.whole_quartets_unless_last", Or(at_eof, n_b64_out % 4 == 0,
                                                            And(blen(chunk) >= size, n_b64_all < 4)),
                "every chunk handed back before the end of the part holds a multiple of four base64 characters, however "
                "few bytes the stream delivered (a chunk cut mid-quartet fails to decode on its own)",
                known=[("F19c", True)], witness={"chunk_len": blen(chunk), "size": size})


def _in_b64(chunk, i, M):
    b = SBytes.of(chunk).byte_at(mk_int(tint(i)) if not isinstance(i, SInt) else i)
    alts = [b == v for v in sorted(M._BASE64_CHARS)]
    return Or(*alts)


# ---------------------------------------------------------------------------------------------------------------
# reader: boundary search


@unit("C19", "reader.chunk_from_stream", functions=[f"{MP}:BodyPartReader._read_chunk_from_stream"], timeout_ms=20000)
def reader_chunk(u: U):
    """_read_chunk_from_stream: bytes are conserved in order - returned ++ kept (prev_chunk) ++ pushed back == kept
    before ++ bytes read; reading stops once end-of-stream was seen (never loops at EOF)"""
    sizes = u.int("size", 1)
    blen_b = u.int("boundary_len", 1)
    u.assume(sizes >= blen_b)
    boundary = u.bytes("boundary")
    u.assume(blen_b == blen(boundary) + 2)  # BodyPartReader.__init__: _boundary_len = len(boundary) + 2
    first = u.choose(2, "first_chunk") == 1
    prev0 = None if first else u.bytes("prev_chunk")
    unread = []
    eof_count0 = u.int("content_eof", 0)
    u.assume(eof_count0 <= 2)
    eof_now = {"v": False}
    G = {"read_total": mk_int(z3.IntVal(0)), "loop_base": mk_int(z3.IntVal(0)), "eofs": mk_int(z3.IntVal(0))}

    class _Content:
        def read(self, n):
            def r():
                b = u.bytes("read")
                u.assume(blen(b) <= n)
                eof_now["v"] = u.bool("at_eof")
                # StreamReader.read returns b"" only at end of stream (C08)
                u.assume(Implies(blen(b) == 0, eof_now["v"]))
                G["read_total"] = G["read_total"] + blen(b)
                return b

            return SAwait(result=r, name="content.read")

        def at_eof(self):
            return eof_now["v"]

        def unread_data(self, d):
            unread.append(SBytes.of(d))

    r = u.obj("BodyPartReader", {"_prev_chunk": prev0, "_content": _Content(), "_content_eof": eof_count0,
                                 "_boundary": boundary, "_boundary_len": blen_b, "_at_eof": False}, {}, shared=False)
    f = u.load(MP, "BodyPartReader._read_chunk_from_stream")
    fn = "multipart:BodyPartReader._read_chunk_from_stream"
    def inv(L):
        ch = SBytes.of(L["chunk"])
        if "loop_base_set" not in G:
            # ghost definition at loop entry: what had been read before the loop began
            G["loop_base_set"] = True
            G["loop_base"] = G["read_total"] - blen(ch)
        return [("chunk_is_what_the_loop_read", blen(ch) == G["read_total"] - G["loop_base"]),
                ("no_eof_seen_yet", fields(r)["_content_eof"] == eof_count0)]

    def havoc(L):
        G["read_total"] = u.int("read_total@loop", 0)

    # the inner read loop: cut (a read may return a single byte, so the number of turns is unbounded); it ends because
    # every read returns at least one byte or reports end of stream
    u.loop(fn, 0, inv=inv, havoc=havoc, variant=lambda L: blen_b - blen(SBytes.of(L["chunk"])),
           types={"chunk": lambda nm: SBytes.fresh(nm, register=False)})
    out = u.call(f, r, sizes)
    if not out.ok:
        u.check("C19.chunk.errors", isinstance(out.exc, ValueError), f"only 'Reading after EOF': {out!r}")
        u.check("C19.chunk.eof_guard", fields(r)["_content_eof"] > 2, "the guard fires only after repeated reads at end of stream")
        return
    res = SBytes.of(out.value)
    kept = SBytes.of(fields(r)["_prev_chunk"])
    crlf = SBytes.of(b"\r\n")
    held_before = (2 if first else blen(SBytes.of(prev0))) + G["read_total"]
    # window == prev ++ chunk; the over-read is pushed back first, then (if the boundary was seen) window[idx:].
    # The synthetic leading CRLF of the first chunk is stripped from what is returned unless the boundary sits right
    # behind it, so the accounting holds up to those two bytes.
    pushed = cat(list(reversed(unread)))
    acc = blen(res) + blen(kept) + blen(pushed)
    u.check("C19.chunk.nothing_invented", acc <= held_before,
            "returned + kept + pushed back never exceed the bytes held before plus the bytes read (no duplication)")
    u.check("C19.chunk.nothing_lost", acc >= held_before - (2 if first else 0),
            "... and fall short of them by at most the synthetic CRLF of the first chunk (no loss)")


@unit("C19", "canary.size_ignores_headers", functions=[f"{MP}:MultipartWriter.size"], expect="canary")
def canary_size(u: U):
    """deliberately false: the declared size does not depend on the parts' header blocks"""
    p = _Part(u, 0, [])
    mw = u.obj("MultipartWriter", {"_parts": [(p, "", "")], "_boundary": u.bytes("boundary"), "_size": None}, {}, shared=False)
    f = u.load(MP, "MultipartWriter.size")
    u.loop("multipart:MultipartWriter.size", 0, unroll=True, bound=3)
    o = u.call(f, mw)
    u.check("C19.canary", o.ok and o.value == p.size + 2 * blen(SBytes.of(fields(mw)["_boundary"])) + 12, "false")


@unit("C19", "reader.chunk_from_length", functions=[f"{MP}:BodyPartReader._read_chunk_from_length"])
def reader_chunk_len(u: U):
    """_read_chunk_from_length: never asks for more than the declared length still owes, and a stream that has ended
    ends the part - otherwise read()/release() would spin on empty reads of a truncated body"""
    length = u.int("content_length", 1)
    done = u.int("read_bytes", 0)
    u.assume(done < length)
    size = u.int("size", 1)
    asked = []
    eof = u.bool("stream.at_eof")

    class _Content:
        def read(self, n):
            asked.append(n)
            return SAwait(result=lambda: u.bytes("read"), name="content.read")

        def at_eof(self):
            return eof

    r = u.obj("BodyPartReader", {"_length": length, "_read_bytes": done, "_content": _Content(), "_at_eof": False}, {}, shared=False)
    f = u.load(MP, "BodyPartReader._read_chunk_from_length")
    out = u.call(f, r, size)
    u.check("C19.length.total", out.ok, repr(out))
    if out.ok:
        u.check("C19.length.asks_at_most_what_is_owed", len(asked) == 1 and And(asked[0] <= size, asked[0] <= length - done, asked[0] >= 1),
                "one read of min(size, bytes still owed by Content-Length)")
        u.check("C19.length.eof_ends_part", Implies(eof, fields(r)["_at_eof"] is True) if is_sym(eof) else (not eof or fields(r)["_at_eof"] is True),
                "end of stream ends the part (a truncated body terminates with an error instead of looping)")


# ---------------------------------------------------------------------------------------------------------------
# reader: sub-readers work under the limits of the reader that creates them


@unit("C19", "reader.sub_reader_limits", functions=[f"{MP}:MultipartReader._get_part_reader"])
def reader_sub_reader_limits(u: U):
    """_get_part_reader: whichever reader it builds for a part - a body-part reader, a nested MultipartReader of the same
    class or of the configured class - is given this reader's own limits (client_max_size and its error class; for a
    nested multipart also max_field_size and max_headers, the limits its header block is read under): nesting must not
    reset a configured limit to its default"""
    made = []

    class _Nested:
        def __init__(self, headers, content, **kw):
            made.append(("nested", type(self).__name__, headers, content, kw))

    class _Custom(_Nested):
        pass

    class _Part:
        def __init__(self, boundary, headers, content, **kw):
            made.append(("part", "part", headers, content, kw))

    nested = u.choose(2, "part_is_multipart") == 1
    custom = u.choose(2, "multipart_reader_cls_set") == 1
    ctype = "multipart/mixed; boundary=zz" if nested else "text/plain"
    lim = {"_client_max_size": u.int("client_max_size", 0), "_max_field_size": u.int("max_field_size", 1),
           "_max_headers": u.int("max_headers", 1), "_max_size_error_cls": "ERRCLS"}

    class _MT:
        subtype = "form-data"

    r = u.obj("MultipartReader", dict(lim, _content="CONTENT", _boundary=b"--zz", _mimetype=_MT(), _default_charset=None,
                                      multipart_reader_cls=_Custom if custom else None, part_reader_cls=_Part),
              {}, shared=False, real_cls=_Nested, real=(MP, "MultipartReader"))
    f = u.load(MP, "MultipartReader._get_part_reader")
    hdrs_ = {"Content-Type": ctype}
    out = u.call(f, r, hdrs_)
    u.check("C19.sub.total", out.ok and len(made) == 1, f"{out!r} {made!r}"[:200])
    if not (out.ok and len(made) == 1):
        return
    kind, cls, h, content, kw = made[0]
    u.check("C19.sub.kind", kind == ("nested" if nested else "part") and (not nested or cls == ("_Custom" if custom else "_Nested"))
            and h is hdrs_ and content == "CONTENT", "the reader class follows the part's Content-Type and the configured class")
    same = lambda k, v: k in kw and kw[k] is v
    u.check("C19.sub.size_limit_inherited", same("client_max_size", lim["_client_max_size"]) and same("max_size_error_cls", "ERRCLS"),
            "every sub-reader enforces the client_max_size of the reader that created it", witness={"kwargs": sorted(kw)})
    if nested:
        u.check("C19.sub.header_limits_inherited", same("max_field_size", lim["_max_field_size"]) and same("max_headers", lim["_max_headers"]),
                "a nested multipart reads its part headers under the configured max_field_size / max_headers, not under the "
                "defaults", witness={"kwargs": sorted(kw)})


# ---------------------------------------------------------------------------------------------------------------
# reader: which parts get the base64 quartet alignment


@unit("C19", "reader.base64_dispatch", functions=[f"{MP}:BodyPartReader.read_chunk"])
def reader_base64_dispatch(u: U):
    """read_chunk aligns its chunks to base64 quartets (every chunk is decoded on its own) exactly for the parts whose
    Content-Transfer-Encoding is base64 in ANY letter case - the value is case-insensitive (RFC 2045 6.1) and both the
    writer and BodyPartReader._decode_content_transfer treat it so: a part announced as 'Base64' is written base64-encoded
    and must be read back with the same care."""
    from multidict import CIMultiDict

    cte = (None, "base64", "Base64", "BASE64", "quoted-printable", "binary")[u.choose(6, "content_transfer_encoding")]
    hdrs_ = CIMultiDict()
    if cte is not None:
        hdrs_["Content-Transfer-Encoding"] = cte
    aligned = []
    reads = []
    fresh = u.bytes("fresh")
    u.assume(blen(fresh) > 0)            # a read that is not at the end of the part delivers at least one byte
    carried_first = u.choose(2, "first_chunk_is_all_carried") == 1   # _align_base64_chunk kept a short delivery back
    eof_on_read = u.choose(3, "part_ends_with_read")                 # 0: never (within the bound), 1: first, 2: second read

    def align(self, chunk, size):
        aligned.append((chunk, size))
        if carried_first and len(aligned) == 1 and not fields(self)["_at_eof"]:
            fields(self)["_b64_carry"] = chunk
            return b""
        return chunk

    def read_stub(name):
        def rd(self, n):
            reads.append(n)

            def done():
                if eof_on_read == len(reads):
                    fields(self)["_at_eof"] = True
                return fresh

            return SAwait(result=done, name=name)

        return rd

    class _Content:
        def readline(self):
            return SAwait(result=b"\r\n", name="readline")

    r = u.obj("BodyPartReader", {"_at_eof": False, "_b64_carry": b"", "_boundary_len": 6, "_length": None,
                                 "_read_bytes": 0, "headers": hdrs_, "_content": _Content()},
              {"_align_base64_chunk": align,
               "_read_chunk_from_stream": read_stub("from_stream"),
               "_read_chunk_from_length": read_stub("from_length")},
              shared=False, real=(MP, "BodyPartReader"),
              init=(MP, "BodyPartReader.__init__", (b"--b", hdrs_, "CONTENT"), {}))
    f = u.load(MP, "BodyPartReader.read_chunk")
    from pyvc.runtime import LoopSpec

    u.default_loop_spec = LoopSpec(unroll=True, bound=4)
    out = u.call(f, r, 8192)
    u.check("C19.b64.dispatch.total", out.ok, repr(out))
    is_b64 = cte is not None and cte.lower() == "base64"
    if out.ok:
        u.check("C19.read_chunk.empty_only_at_the_end", Or(blen(out.value) > 0, fields(r)["_at_eof"] is True),
                "read_chunk() hands back an empty chunk only when the part is exhausted: callers loop `while chunk:` - a "
                "base64 delivery shorter than a quartet is carried and the read repeated, never returned as b''")
    u.check("C19.b64.dispatch.aligned_iff_base64_any_case", (len(aligned) == len(reads)) if is_b64 else not aligned,
            "chunks of a part are aligned to base64 quartets exactly when its Content-Transfer-Encoding is base64, "
            f"compared case-insensitively (header value {cte!r})", witness={"content_transfer_encoding": cte})


@unit("C19", "names.semicolons_round_trip", functions=[f"{MP}:parse_content_disposition"], kind="bounded")
def names_semicolons_round_trip(u: U):
    """BOUND: every field name over the alphabet {a, ';', ' ', '/', '\\'} of length 1..4 (780 names), quote_fields on and
    off, as `name` and as `filename` of a form-data part.  The header the writer side produces (helpers.content_disposition_header,
    run natively) is read back by the real parse_content_disposition: the name comes back verbatim, the filename verbatim
    or percent-encoded.  (A ';' inside a quoted value is where the parser splits the header first: it has to put ANY
    number of such pieces back together, not one.)  Names containing '"' followed by ';' are outside the bound: the
    parser does not tell an escaped closing quote from a real one, and an existing test pins that reading."""
    import itertools
    import warnings
    from urllib.parse import unquote

    from aiohttp.helpers import content_disposition_header

    f = u.load(MP, "parse_content_disposition")
    from pyvc.runtime import LoopSpec

    u.default_loop_spec = LoopSpec(unroll=True, bound=64)
    bad = []
    n = 0
    for k in range(1, 5):
        for tup in itertools.product("a; /\\", repeat=k):
            name = "".join(tup)
            for qf in (True, False):
                header = content_disposition_header("form-data", quote_fields=qf, params={"name": name, "filename": name})
                with warnings.catch_warnings():
                    warnings.simplefilter("ignore")
                    out = u.call(f, header)
                n += 1
                if not out.ok:
                    bad.append((name, qf, repr(out.exc)))
                    continue
                disptype, params = out.value
                got_name, got_fn = params.get("name"), params.get("filename")
                # the name verbatim; the file name verbatim or percent-encoded - or, sent unencoded (quote_fields off),
                # without leading path separators (a deliberate safety measure of the reader, for file names only)
                fn_ok = got_fn is not None and (got_fn == name or unquote(got_fn) == name
                                                or (not qf and got_fn == name.lstrip("\\/")))
                if disptype != "form-data" or got_name != name or not fn_ok:
                    bad.append((name, qf, header, params))
    u.check("C19.names.semicolons_round_trip", not bad,
            f"{n} headers written and read back; first that do not come back: {bad[:3]}",
            witness={"first_failing": [b[:2] for b in bad[:5]], "failing": len(bad)})
