"""C15 - static files: exact ranges, consistent status/Content-Range/Content-Length; confinement by dominance.

Functions under contract (real text from /repo):
  aiohttp/web_request.py: BaseRequest.http_range
  aiohttp/web_fileresponse.py: FileResponse._prepare_open_file, FileResponse._sendfile_fallback
  aiohttp/web_urldispatcher.py: StaticResource._resolve_path_to_response, StaticResource._handle
Spec side: RFC 7233 (byte ranges), written below as `spec_range`.
"""
import z3

from pyvc import (And, Implies, Ite, Not, Or, SBytes, SInt, Seg, Src, U, blen, fields, is_sym, mk_int, stubs, tint)
from pyvc import regexlang as RL
from pyvc.registry import unit
from pyvc.values import fmt_parse

REQ = "aiohttp.web_request"
FR = "aiohttp.web_fileresponse"
UD = "aiohttp.web_urldispatcher"


# ---------------------------------------------------------------------------
# digit strings produced by the Range regex groups


class SDigits:
    """a (possibly empty) string of ASCII digits: emptiness flag + numeric value"""

    def __init__(self, u, name):
        self.u = u
        self.empty = u.bool(name + ".empty")
        self.val = u.int(name + ".value", 0)

    def __bool__(self):
        return self.u.branch(Not(self.empty), "digits.nonempty")

    def sym_int(self, base=10):
        stubs.used("int(digit string): value of the decimal digits; ValueError above CPython's 4300-digit limit")
        if self.u.branch(self.val >= 10 ** 4300, "int.too_many_digits"):
            raise ValueError("Exceeds the limit (4300 digits) for integer string conversion")
        return self.val


class _Hdr:
    """opaque header value"""


def spec_range_gate():
    """RFC 7233 2.1 (single range): "bytes=" first-byte-pos "-" [last-byte-pos]  |  "bytes=" "-" suffix-length"""
    d = RL.rng(48, 57)
    return z3.Concat(z3.Re("bytes="), z3.Star(d), z3.Re("-"), z3.Star(d))


@unit("C15", "range.parse", functions=[f"{REQ}:BaseRequest.http_range"])
def range_parse(u: U):
    """http_range against RFC 7233: slice(start, stop) encodes first/last/suffix; malformed, reversed and the
    unsatisfiable suffix -0 raise ValueError; the regex gate accepts exactly the RFC grammar."""
    import re as real_re

    hdr = _Hdr()
    present = bool(u.choose(2, "range_header_present"))
    matched = bool(u.choose(2, "matches")) if present else False
    a, b = SDigits(u, "first"), SDigits(u, "last")

    class _Re:
        ASCII = real_re.ASCII

        @staticmethod
        def findall(pattern, s, flags=0):
            u.check("C15.range.gate.subject", s is hdr, "the pattern is applied to the Range header value")
            nolf = z3.Star(RL.ranges_to_re([(0, 9), (11, RL.MAXCHAR)]))  # header values contain no LF (C01)
            verdict, wit = RL.equivalent(RL.lang(pattern, "search", flags), spec_range_gate(), domain=nolf)
            u.check("C15.range.gate.language", verdict == "equal",
                    f"accepted language of the Range pattern == RFC 7233 grammar (distinguishing string: {wit!r})")
            stubs.used("re.findall with two groups returns [(g1, g2)] for the single anchored match, [] otherwise")
            return [(a, b)] if matched else []

    f = u.load(REQ, "BaseRequest.http_range", globals={"re": _Re})
    req = u.obj("BaseRequest", {"_headers": {"Range": hdr} if present else {}}, {})
    # CIMultiDict.get is modelled by a plain dict lookup on the canonical name (A: multidict)
    out = u.call(f, req)
    u.cover("C15.range.parse.ran")
    if not present:
        u.check("C15.range.parse.absent", And(out.ok, out.value == slice(None, None, 1) if out.ok else False),
                "no Range header: slice(None, None, 1)")
        return
    if not matched:
        u.check("C15.range.parse.malformed", out.raised(ValueError), "malformed Range => ValueError")
        return
    ae, be = a.empty, b.empty
    if not out.ok:
        u.check("C15.range.parse.only_value_error", out.raised(ValueError), f"only ValueError, got {out.exc!r}")
        big = Or(And(Not(ae), a.val >= 10 ** 4300), And(Not(be), b.val >= 10 ** 4300))
        u.check("C15.range.parse.rejects_only_invalid",
                Or(And(ae, be), And(Not(ae), Not(be), a.val > b.val), And(ae, Not(be), b.val == 0), big),
                "ValueError only for: no positions, first > last, suffix length 0 (or an absurdly long number)")
        return
    sl = out.value
    u.check("C15.range.parse.not_empty_spec", Not(And(ae, be)), "'bytes=-' is not a range")
    u.check("C15.range.parse.step", sl.step == 1, "step 1")
    if u.branch(And(Not(ae), be), "first_only"):
        u.check("C15.range.parse.first_only", And(sl.start == a.val, sl.stop is None), "bytes=a- -> slice(a, None)")
    elif u.branch(And(Not(ae), Not(be)), "first_last"):
        u.check("C15.range.parse.first_last", And(a.val <= b.val, sl.start == a.val, sl.stop == b.val + 1),
                "bytes=a-b with a <= b -> slice(a, b+1)")
    else:
        u.check("C15.range.parse.suffix", And(b.val > 0, sl.start == -b.val, sl.stop is None),
                "bytes=-s with s > 0 -> slice(-s, None); -0 is unsatisfiable (RFC 7233 2.1)",
                known=[("F15a", b.val == 0)], witness={"suffix_length": b.val})


# ---------------------------------------------------------------------------
# _prepare_open_file


def _http_range_contract(u):
    """values http_range may produce (its proved postcondition), as a property stub"""
    case = ("absent", "invalid", "first_only", "first_last", "suffix")[u.choose(5, "range_case")]
    a = u.int("first_pos", 0)
    b = u.int("last_pos", 0)
    s = u.int("suffix_len", 1)
    u.assume(a <= b)

    def prop(self):
        if case == "invalid":
            raise ValueError("range not in acceptable format")
        if case == "absent":
            return slice(None, None, 1)
        if case == "first_only":
            return slice(a, None, 1)
        if case == "first_last":
            return slice(a, b + 1, 1)
        return slice(-s, None, 1)

    return case, a, b, s, prop


def spec_range(case, a, b, s, size):
    """RFC 7233 2.1/4: returns (satisfiable, first, last) for a range request on a representation of `size` bytes"""
    if case == "first_only":
        return a < size, a, size - 1
    if case == "first_last":
        return a < size, a, Ite(b < size, b, size - 1)
    if case == "suffix":
        return size > 0, Ite(s < size, size - s, 0), size - 1
    raise AssertionError(case)


@unit("C15", "range.arith", functions=[f"{FR}:FileResponse._prepare_open_file"])
def range_arith(u: U):
    """status / Content-Range / Content-Length / file offset+count of _prepare_open_file against RFC 7233 for every
    file size, range and If-Range outcome."""
    import pathlib

    case, a, b, s, prop = _http_range_contract(u)
    # If-Range carries ONE validator: an HTTP date or an entity-tag (RFC 9110 13.1.5).  BaseRequest.if_range parses the
    # date form only and is None for everything else, so the entity-tag forms reach the function through the header.
    ifr = ("none", "fresh", "stale", "etag_current", "etag_other", "etag_weak_current", "not_a_validator")[
        u.choose(7, "if_range")]
    mtime = 1000.0
    mtime_ns = 1000 * 10 ** 9
    if ifr.startswith("etag") or ifr == "not_a_validator":
        # the ETag is rendered from the size: concrete sizes for these cases (positions stay symbolic)
        size = (0, 7, 4096)[u.choose(3, "file_size.concrete")]
    else:
        size = u.int("file_size", 0)
    etag_now = f'"{mtime_ns:x}-{size:x}"' if not is_sym(size) else None
    raw_if_range = {"none": None, "fresh": "Thu, 01 Jan 1970 00:33:20 GMT", "stale": "Thu, 01 Jan 1970 00:08:20 GMT",
                    "etag_current": etag_now, "etag_other": '"deadbeef-7"', "etag_weak_current": f"W/{etag_now}",
                    "not_a_validator": "yesterday"}[ifr]

    class _IfRange:
        def timestamp(self):
            return 2000.0 if ifr == "fresh" else 500.0

    from multidict import CIMultiDict, CIMultiDictProxy

    method = ("GET", "HEAD")[u.choose(2, "method")]
    req = u.obj("BaseRequest", {"if_range": _IfRange() if ifr in ("fresh", "stale") else None, "method": method,
                                "headers": CIMultiDictProxy(CIMultiDict(
                                    {} if raw_if_range is None else {"If-Range": raw_if_range}))},
                {"prop.http_range": prop})
    statuses = []
    prepared = []
    sent = []
    resp = u.obj("FileResponse", {"_status": 200, "_headers": {}, "_path": pathlib.Path("file.bin"),
                                  "_compression": False},
                 {"set_status": lambda self, st, reason=None: (statuses.append(st), setattr(self, "_status", st))[0],
                  "super.prepare": lambda self, r: (prepared.append(r), stubs.SAwait(result="WRITER", name="prepare"))[1],
                  "_sendfile": lambda self, r, fobj, offset, count: (sent.append((offset, count)),
                                                                   stubs.SAwait(result="WRITER", name="sendfile"))[1]})

    class _St:
        st_size = size
        st_mtime = mtime
        st_mtime_ns = mtime_ns

    f = u.load(FR, "FileResponse._prepare_open_file")
    enc = (None, "gzip")[u.choose(2, "file_encoding")]
    out = u.call(f, resp, req, "FOBJ", _St, enc)
    u.check("C15.range.total", out.ok, f"_prepare_open_file raised {out.exc!r}")
    if not out.ok:
        return
    u.cover("C15.range.arith.ran")
    status = resp._status
    hdrs = resp._headers
    cr = hdrs.get("Content-Range")
    clen = fields(resp).get("content_length")
    # If-Range absent, or its validator matches the current representation (a date not older than the file; the
    # current entity-tag under the STRONG comparison - a weak tag never matches); anything else: the Range is ignored
    range_considered = ifr in ("none", "fresh", "etag_current")
    u.check("C15.range.one_terminal_call", len(prepared) + len(sent) == 1, "exactly one of prepare()/_sendfile()")
    if ifr in ("etag_other", "etag_weak_current", "not_a_validator") and case != "absent":
        u.check("C15.range.if_range_validator_must_match", And(status == 200, cr is None),
                "an If-Range whose validator is not the current one (another entity-tag, a weak tag, or no validator at "
                "all) makes the server ignore Range and send the whole current file with 200: a 206 here lets a client "
                "append a slice of the NEW file to its prefix of the OLD one",
                known=[("F15b", True)], witness={"If-Range": raw_if_range, "range_case": case, "file_size": size})
    if ifr == "etag_current" and case not in ("absent", "invalid"):
        u.check("C15.range.if_range_current_etag_keeps_range", status != 200,
                "the current entity-tag in If-Range keeps the Range in force (206 or 416)")
    if not range_considered or case == "absent":
        u.check("C15.range.full.status", status == 200, "no (applicable) Range: 200")
        u.check("C15.range.full.headers", And(cr is None, clen == size), "no Content-Range, Content-Length = file size")
        if sent:
            u.check("C15.range.full.body", And(sent[0][0] == 0, sent[0][1] == size), "whole file from offset 0")
        u.check("C15.range.full.body_sent", Implies(And(size > 0, method == "GET"), len(sent) == 1),
                "a non-empty file is sent for GET")
        u.check("C15.range.empty_no_sendfile", Implies(size == 0, len(sent) == 0), "count 0 => no sendfile")
        return
    if case == "invalid":
        u.check("C15.range.416.invalid", And(status == 416, len(sent) == 0), "unparsable/unsatisfiable Range => 416, no body")
        u.check("C15.range.416.content_range", _cr_is(cr, "bytes */", size), "416 carries Content-Range: bytes */size")
        return
    sat, first, last = spec_range(case, a, b, s, size)
    if u.branch(sat, "satisfiable"):
        u.check("C15.range.206.status", status == 206, "satisfiable range => 206")
        want = last - first + 1
        u.check("C15.range.206.bounds", And(first >= 0, first < size, want >= 1, want <= size - first),
                "spec sanity: 0 <= first < size, 1 <= count <= size - first")
        u.check("C15.range.206.content_length", clen == want, "Content-Length = last - first + 1")
        u.check("C15.range.206.content_range", _cr_is3(cr, first, last, size),
                "Content-Range: bytes first-last/size with last = min(requested last, size-1)")
        if method == "GET":
            u.check("C15.range.206.body", And(len(sent) == 1, sent[0][0] == first if sent else False,
                                              sent[0][1] == want if sent else False),
                    "the body is exactly file[first : last+1]")
        else:
            u.check("C15.range.206.head_no_body", len(sent) == 0, "HEAD sends no body")
    else:
        u.check("C15.range.416.status", And(status == 416, len(sent) == 0), "unsatisfiable range => 416, no body")
        u.check("C15.range.416.content_range2", _cr_is(cr, "bytes */", size), "416 carries Content-Range: bytes */size")


def _cr_is(cr, prefix, size):
    if not isinstance(cr, str):
        return False
    parts = fmt_parse(cr)
    if len(parts) != 2 or parts[0] != prefix or isinstance(parts[1], str):
        if all(isinstance(p, str) for p in parts) and not is_sym(size):
            return cr == f"{prefix}{size}"
        return False
    v, spec = parts[1]
    return And(spec == "", v == size)


def _cr_is3(cr, first, last, size):
    if not isinstance(cr, str):
        return False
    parts = fmt_parse(cr)
    vals = [p for p in parts if not isinstance(p, str)]
    lits = [p for p in parts if isinstance(p, str)]
    if not is_sym(first) and not is_sym(last) and not is_sym(size) and not vals:
        return cr == f"bytes {first}-{last}/{size}"
    # concrete components are rendered into the literal text: re-split on the known shape
    import re

    toks = re.split("(\x01\\d+\x02)", cr)
    text = "".join("\x00" if t.startswith("\x01") else t for t in toks)
    m = re.fullmatch(r"bytes (\x00|\d+)-(\x00|-?\d+)/(\x00|\d+)", text)
    if not m:
        return False
    it = iter(vals)
    got = []
    for g in m.groups():
        if g == "\x00":
            v, spec = next(it)
            if spec != "":
                return False
            got.append(v)
        else:
            got.append(int(g))
    return And(got[0] == first, got[1] == last, got[2] == size)


# ---------------------------------------------------------------------------
# _sendfile_fallback: bytes written = file[offset : offset + count] (at most), sequentially


@unit("C15", "send.fallback", functions=[f"{FR}:FileResponse._sendfile_fallback"])
def send_fallback(u: U):
    """loop invariant: everything written so far is file[offset : offset + count0 - count]; the pending chunk is the
    next file interval and is no longer than the remaining count; never more than count bytes are written."""
    FN = "web_fileresponse:FileResponse._sendfile_fallback"
    f = u.load(FR, "FileResponse._sendfile_fallback")
    file = Src("file")
    u.c.add(file.len >= 0)
    pos = {"v": None}
    offset0 = u.int("offset", 0)
    count0 = u.int("count", 1)
    chunk_size = u.int("chunk_size", 1)
    writes = []

    def file_slice(lo, n):
        return SBytes([Seg(file, tint(lo), tint(n))])

    def do_read(at, n):
        stubs.used("file.read(n) / seek+read: returns the next k <= n bytes of the file (k = 0 only at EOF), sequentially")
        k = u.int("read_len", 0)
        u.assume(k <= n)
        u.assume(at + k <= mk_int(file.len))
        pos["v"] = at + k
        return file_slice(at, k)

    class _Loop:
        def run_in_executor(self, ex, fn, *args):
            if fn == "SEEK_AND_READ":
                fobj, off, n = args
                return stubs.SAwait(result=lambda: do_read(off, n), name="executor.seek_read")
            if fn == "FOBJ.read":
                (n,) = args
                return stubs.SAwait(result=lambda: do_read(pos["v"], n), name="executor.read")
            raise AssertionError(fn)

    class _Asyncio:
        @staticmethod
        def get_running_loop():
            return _Loop()

    class _Fobj:
        read = "FOBJ.read"

    writer = u.obj("StreamWriter", {}, {
        "write": lambda self, data: (writes.append(data), stubs.SAwait(name="writer.write"))[1],
        "drain": lambda self: stubs.SAwait(name="writer.drain")})
    resp = u.obj("FileResponse", {"_chunk_size": chunk_size, "_seek_and_read": "SEEK_AND_READ"}, {})
    f = u.load(FR, "FileResponse._sendfile_fallback", globals={"asyncio": _Asyncio})
    head = {}

    def inv(L):
        c = L["chunk"]
        cnt = L["count"]
        lo = offset0 + count0 - cnt
        return [
            ("count_pos", And(cnt >= 1, cnt <= count0)),
            ("chunk_len", blen(c) <= cnt),
            ("chunk_is_next_file_interval", c.is_slice_of(file, lo, lo + blen(c)) if isinstance(c, SBytes) else False),
            ("file_pos", pos["v"] == lo + blen(c)),
        ]

    def havoc(L):
        pos["v"] = u.int("file_pos@loop", 0)
        head["nwrites"] = len(writes)

    def chunk_factory(name):
        lo = u.int("chunk_lo", 0)
        n = u.int("chunk_n", 0)
        u.assume(lo + n <= mk_int(file.len))
        return file_slice(lo, n)

    def at_back(L):
        # one iteration wrote exactly the chunk held at the loop head
        u.check("C15.send.one_write_per_iteration", len(writes) == head["nwrites"] + 1, "each iteration writes one chunk")

    def at_head(L):
        head["chunk"] = L["chunk"]
        head["count"] = L["count"]

    u.loop(FN, 0, inv=inv, havoc=havoc, types={"chunk": chunk_factory}, at_head=at_head, at_back=at_back,
           variant=lambda L: L["count"])
    out = u.call(f, resp, writer, _Fobj, offset0, count0)
    u.check("C15.send.total", out.ok, f"_sendfile_fallback raised {out.exc!r}")
    if not out.ok:
        return
    u.cover("C15.send.exit")
    if "chunk" in head:
        # exit from inside/after the loop: the last write (if any in this iteration) is the head chunk
        new = writes[head["nwrites"]:]
        lo = offset0 + count0 - head["count"]
        for w in new:
            u.check("C15.send.write_is_file_interval", SBytes.of(w).is_slice_of(file, lo, lo + blen(w)),
                    "every write is the next interval of the file, starting at offset + bytes already written")
            u.check("C15.send.never_overruns", blen(w) <= head["count"], "a write never exceeds the remaining count")
            lo = lo + blen(w)
        u.check("C15.send.at_most_one_more", len(new) <= 1, "at most one write between loop head and exit")
    else:
        u.check("C15.send.empty_first_read", len(writes) == 0, "nothing is written when the first read is empty")


# ---------------------------------------------------------------------------
# confinement: FileResponse / directory listing only after the containment test succeeded


class _P:
    """ASSUMED pathlib contract: resolve() returns the real location; relative_to(root) raises ValueError iff the
    path is not under root; os.path.normpath collapses dot segments lexically."""

    def __init__(self, u, name, log):
        self.u, self.name, self.log = u, name, log

    def resolve(self, strict=False):
        k = self.u.choose(2, f"{self.name}.resolve")
        if k == 1:
            # CPython < 3.13: non-strict resolve() reports a symlink loop as RuntimeError (3.13+: it does not raise)
            raise RuntimeError("Symlink loop")
        p = _P(self.u, f"resolved({self.name})", self.log)
        self.log.append(("resolve", self, p))
        return p

    def relative_to(self, root):
        ok = not self.u.choose(2, f"{self.name}.under_root")
        self.log.append(("relative_to", self, root, ok))
        if not ok:
            raise ValueError(f"{self.name} is not in the subpath of root")
        return _P(self.u, f"rel({self.name})", self.log)

    def is_dir(self):
        k = self.u.choose(3, f"{self.name}.is_dir")
        if k == 2:
            raise PermissionError(13, "denied")
        return k == 1

    def sym_str(self):
        return _PStr(self)

    def __fspath__(self):
        return self.name

    def __repr__(self):
        return f"_P({self.name})"


class _PStr:
    """str(path): an opaque string; textual tests on it are NOT containment tests (a string prefix is not a
    path-component prefix), so they may come out either way and are logged as such"""

    def __init__(self, p):
        self.p = p

    def _text_test(self, what, other):
        r = bool(self.p.u.choose(2, f"{self.p.name}.{what}"))
        self.p.log.append(("text_test", what, self.p, other, r))
        return r

    def startswith(self, other, *a):
        return self._text_test("startswith", other)

    def sym_contains(self, x):
        return self._text_test("contains", x)

    def __eq__(self, o):
        return self._text_test("eq", o)

    def __hash__(self):
        return id(self)


@unit("C15", "confine.resolve", functions=[f"{UD}:StaticResource._resolve_path_to_response"])
def confine_resolve(u: U):
    """every path of _resolve_path_to_response that builds a FileResponse or a directory listing is dominated by a
    successful containment test of the right path (resolved location unless follow_symlinks), on the path object that
    is then served; listings only if show_index."""
    import importlib

    from pyvc import instrument

    instrument._ensure_repo_on_path()
    M = importlib.import_module(UD)
    log = []
    served = []
    listed = []
    follow = bool(u.choose(2, "follow_symlinks"))
    show = bool(u.choose(2, "show_index"))
    root = _P(u, "root", log)
    unresolved = _P(u, "unresolved", log)

    class _Os:
        class path:
            @staticmethod
            def normpath(p):
                q = _P(u, f"normpath({p.name})", log)
                log.append(("normpath", p, q))
                return q

    res = u.obj("StaticResource", {"_break_symlink_sandbox": follow, "_directory": root, "_show_index": show,
                                   "_chunk_size": 1024},
                {"_directory_as_html": lambda self, p: (listed.append(p), "<html>")[1]})
    f = u.load(UD, "StaticResource._resolve_path_to_response",
               globals={"Path": lambda p: p, "os": _Os,
                        "FileResponse": lambda p, chunk_size=0: (served.append(p), ("FileResponse", p))[1],
                        "Response": lambda **kw: ("Response", kw)})
    out = u.call(f, res, unresolved)
    u.cover("C15.confine.ran")
    rel_ok = [e for e in log if e[0] == "relative_to" and e[3] and e[2] is root]
    for p in served + listed:
        if follow:
            # lexically normalised request path must be under root; its resolved location is what is served
            norm = [e[2] for e in log if e[0] == "normpath" and e[1] is unresolved]
            good = bool(norm) and any(e[1] is norm[0] for e in rel_ok) and \
                any(e[0] == "resolve" and e[1] is norm[0] and e[2] is p for e in log)
        else:
            # the REAL location (resolve()) must be under root, and that same object is served
            good = any(e[0] == "resolve" and e[1] is unresolved and e[2] is p for e in log) and \
                any(e[1] is p for e in rel_ok)
        u.check("C15.confine.dominated", good,
                "content is served only from a path whose containment in the root directory was established")
    u.check("C15.confine.listing_needs_flag", Implies(len(listed) > 0, show), "directory listing only if show_index")
    if not out.ok:
        u.check("C15.confine.errors_are_http", isinstance(out.exc, (M.HTTPNotFound, M.HTTPForbidden)),
                f"failures are 404/403, got {out.exc!r}")
        u.check("C15.confine.nothing_served_on_error", len(served) + len(listed) == 0, "no content on error paths")
    failed = [e for e in log if e[0] == "relative_to" and not e[3]]
    u.check("C15.confine.outside_is_404", Implies(len(failed) > 0, out.raised(M.HTTPNotFound)),
            "a path outside the root is answered with 404")


@unit("C15", "file.regular_only", functions=[f"{FR}:FileResponse._get_file_path_stat_encoding"],
      must_cover=("C15.file.sibling_served", "C15.file.plain_served", "C15.file.nothing_served"))
def file_regular_only(u: U):
    """_get_file_path_stat_encoding: whatever it hands back to be opened is a REGULAR file - the pre-compressed sibling
    (looked at with lstat, so a symlink counts as what it is) only if it is a regular file whose coding the client
    accepts, else the file itself only if it is regular, else nothing; a sibling that is a directory, a FIFO, a socket,
    a device, a symlink or missing is passed over in favour of the next candidate"""
    import stat as _stat

    KINDS = {"reg": _stat.S_IFREG | 0o644, "dir": _stat.S_IFDIR | 0o755, "fifo": _stat.S_IFIFO | 0o644,
             "sock": _stat.S_IFSOCK | 0o644, "lnk": _stat.S_IFLNK | 0o777, "chr": _stat.S_IFCHR | 0o644}
    names = list(KINDS) + ["missing"]
    from aiohttp.web_fileresponse import ENCODING_EXTENSIONS

    exts = list(ENCODING_EXTENSIONS.items())
    kind = {ext: names[u.choose(len(names), f"kind{ext}")] for ext, _ in exts}
    kind[""] = names[u.choose(len(names) - 1, "kind.plain")]     # the file itself exists (stat() succeeded earlier)
    accepted = [enc for _, enc in exts if u.choose(2, f"accepts.{enc}")]
    accept_encoding = ", ".join(accepted)
    looked = []

    class _St:
        def __init__(self, k):
            self.st_mode = KINDS[k]
            self.kind = k

    class _P:
        def __init__(self, ext, suffix=".txt"):
            self.ext, self.suffix = ext, suffix

        def with_suffix(self, sfx):
            assert sfx.startswith(self.suffix), sfx
            return _P(sfx[len(self.suffix):])

        def lstat(self):
            looked.append(("lstat", self.ext))
            if kind[self.ext] == "missing":
                raise FileNotFoundError(self.ext)
            return _St(kind[self.ext])

        def stat(self):
            looked.append(("stat", self.ext))
            return _St(kind[self.ext])

    main = _P("")
    r = u.obj("FileResponse", {"_path": main}, {}, shared=False)
    f = u.load(FR, "FileResponse._get_file_path_stat_encoding")
    from pyvc.runtime import LoopSpec

    u.default_loop_spec = LoopSpec(unroll=True, bound=len(exts) + 1)
    out = u.call(f, r, accept_encoding)
    u.check("C15.file.total", out.ok, repr(out))
    if not out.ok:
        return
    path, st, enc = out.value
    u.check("C15.file.served_entry_is_a_regular_file", path is None or kind[path.ext] == "reg",
            f"the entry handed back to be opened is a regular file (got a {kind[path.ext] if path is not None else None})",
            witness={"kinds": dict(kind), "accept_encoding": accept_encoding})
    u.check("C15.file.stat_is_of_the_served_entry", path is None or getattr(st, "kind", None) == kind[path.ext],
            "the stat result (size, mtime -> Content-Length, ETag) belongs to the entry that is served")
    # reference choice: the first acceptable regular sibling in the order of ENCODING_EXTENSIONS, else the plain file
    want = next((ext for ext, e in exts if e in accepted and kind[ext] == "reg"), None)
    if want is not None:
        u.check("C15.file.first_acceptable_regular_sibling", path is not None and path.ext == want
                and enc == dict(exts)[want],
                "a regular pre-compressed sibling in a coding the client accepts is served with that coding")
        u.cover("C15.file.sibling_served")
    else:
        u.check("C15.file.falls_back_to_the_plain_file", enc is None and ((path is not None and path.ext == "")
                                                                          if kind[""] == "reg" else path is None),
                "no usable sibling: the file itself if it is a regular file (whatever non-regular things carry its "
                "name plus .gz / .br), else nothing")
        u.cover("C15.file.plain_served" if kind[""] == "reg" else "C15.file.nothing_served")
    u.check("C15.file.unaccepted_sibling_not_looked_at", all(ext == "" or dict(exts)[ext] in accepted for _, ext in looked),
            "a sibling in a coding the client did not ask for is not considered")


@unit("C15", "conditional.precedence", functions=[f"{FR}:FileResponse._make_response"])
def conditional_precedence(u: U):
    """_make_response against RFC 9110 13.2.2 for every combination of If-Match / If-Unmodified-Since / If-None-Match /
    If-Modified-Since (each absent or present), every outcome of the entity-tag comparisons and every ordering of the
    file's mtime and the two dates: 412 / 304 / send-the-file is the one the precedence rules give - in particular
    If-Modified-Since is ignored when If-None-Match is present, If-Unmodified-Since when If-Match is."""
    import importlib

    from pyvc import instrument

    instrument._ensure_repo_on_path()
    M = importlib.import_module(FR)
    mtime = u.int("st_mtime")
    etag_calls = []
    im_ok, inm_hit = u.bool("if_match.matches"), u.bool("if_none_match.matches")

    class _St:
        st_mtime = mtime
        st_mtime_ns = 0x10
        st_size = 5

    st = _St()

    class _Date:
        def __init__(self, name):
            self.t = u.int(name)

        def timestamp(self):
            return self.t

    has = {k: u.choose(2, k) == 1 for k in ("if_match", "if_unmodified_since", "if_none_match", "if_modified_since")}
    IM, INM = ("ETAGS-IM",), ("ETAGS-INM",)
    ius, ims = _Date("if_unmodified_since.t"), _Date("if_modified_since.t")
    req = u.obj("Request", {"if_match": IM if has["if_match"] else None,
                            "if_unmodified_since": ius if has["if_unmodified_since"] else None,
                            "if_none_match": INM if has["if_none_match"] else None,
                            "if_modified_since": ims if has["if_modified_since"] else None}, {}, shared=False)
    opened = []

    class _F:
        def fileno(self):
            return 3

    class _Path:
        def open(self, mode):
            opened.append(mode)
            return _F()

        def __bool__(self):
            return True

    def etag_match(self_or_value, *a, weak):
        # called as self._etag_match(etag_value, etags, weak=...): the comparison itself is unit conditional.etag_match
        etags = a[-1]
        etag_calls.append((etags, weak))
        return im_ok if etags is IM else inm_hit

    class _Os:
        @staticmethod
        def stat(fd):
            return st

    r = u.obj("FileResponse", {}, {"_get_file_path_stat_encoding": lambda self, ae: (_Path(), st, None),
                                   "_etag_match": lambda self, v, etags, weak: etag_match(v, etags, weak=weak)}, shared=False)
    f = u.load(FR, "FileResponse._make_response", globals={"os": _Os})
    out = u.call(f, r, req, "identity")
    u.check("C15.cond.total", out.ok, f"{out.exc!r}")
    if not out.ok:
        return
    res = out.value[0]
    R = M._FileResponseResult
    # RFC 9110 13.2.2 precedence
    step1 = has["if_match"] and Not(im_ok)
    step2 = (not has["if_match"]) and has["if_unmodified_since"] and (mtime > ius.t)
    step3 = has["if_none_match"] and inm_hit
    step4 = (not has["if_none_match"]) and has["if_modified_since"] and (mtime <= ims.t)
    pre_failed = Or(step1, step2)
    not_mod = And(Not(pre_failed), Or(step3, step4))
    want_412, want_304 = pre_failed, not_mod
    u.check("C15.cond.precedence", And(Implies(want_412, res is R.PRE_CONDITION_FAILED), Implies(want_304, res is R.NOT_MODIFIED),
                                       Implies(And(Not(want_412), Not(want_304)), res is R.SEND_FILE)),
            "412 / 304 / 200-206 follow the RFC 9110 13.2.2 order: If-Match, else If-Unmodified-Since; then If-None-Match, "
            "else If-Modified-Since (a date condition is ignored when its entity-tag counterpart is present)",
            witness={"present": {k: v for k, v in has.items()}, "if_match.matches": im_ok, "if_none_match.matches": inm_hit,
                     "mtime": mtime, "if_unmodified_since": ius.t, "if_modified_since": ims.t, "result": str(res)})
    u.check("C15.cond.etag_strength", all((et is IM and wk is False) or (et is INM and wk is True) for et, wk in etag_calls),
            "If-Match uses the strong comparison, If-None-Match the weak one (RFC 9110 13.1.1 / 13.1.2)")
    u.check("C15.cond.file_opened_only_to_send", (len(opened) == 1) == (res is R.SEND_FILE),
            "the file is opened exactly when it is going to be sent")


@unit("C15", "conditional.etag_match", functions=[f"{FR}:FileResponse._etag_match"])
def conditional_etag_match(u: U):
    """_etag_match for every tuple of up to 3 entity tags over the three value classes that matter ('*', the file's tag,
    any other tag) x weak flag: '*' alone matches anything; otherwise some listed tag equals the file's tag, weak tags
    counting only under the weak comparison"""
    from pyvc.registry import width

    from aiohttp.helpers import ETAG_ANY, ETag

    n = u.choose(width(3, 4) + 1, "n_etags")
    vals = ("FILE-TAG", "OTHER", ETAG_ANY)
    etags = tuple(ETag(value=vals[u.choose(3, f"etag{i}.value")], is_weak=u.choose(2, f"etag{i}.weak") == 1) for i in range(n))
    weak = u.choose(2, "weak_comparison") == 1
    f = u.load(FR, "FileResponse._etag_match")
    out = u.call(f, "FILE-TAG", etags, weak=weak)
    star = n == 1 and etags[0].value == ETAG_ANY
    want = star or any(e.value == "FILE-TAG" and (weak or not e.is_weak) for e in etags)
    u.check("C15.cond.etag_match", out.ok and out.value is want, f"etags={etags} weak={weak}: got {out!r}, RFC 9110 8.8.3.2 says {want}")


@unit("C15", "confine.handle", functions=[f"{UD}:StaticResource._handle"])
def confine_handle(u: U):
    """_handle rejects absolute / drive / UNC file names before joining and only serves through
    _resolve_path_to_response on directory.joinpath(filename)."""
    import importlib

    from pyvc import instrument

    instrument._ensure_repo_on_path()
    M = importlib.import_module(UD)
    absolute = bool(u.choose(2, "filename_is_absolute"))
    joined = []
    submitted = []

    class _FakePath:
        def __init__(self, name):
            self.name = name

        def is_absolute(self):
            return absolute

    class _Dir:
        def joinpath(self, fn):
            joined.append(fn)
            return ("JOINED", fn)

    class _Loop:
        def run_in_executor(self, ex, fn, *args):
            submitted.append((fn, args))
            return stubs.SAwait(result="RESPONSE", name="executor")

    class _Asyncio:
        @staticmethod
        def get_running_loop():
            return _Loop()

    req = u.obj("Request", {"match_info": {"filename": "NAME"}}, {})
    res = u.obj("StaticResource", {"_directory": _Dir(), "_resolve_path_to_response": "RESOLVER"}, {})
    f = u.load(UD, "StaticResource._handle", globals={"Path": _FakePath, "asyncio": _Asyncio})
    out = u.call(f, res, req)
    if absolute:
        u.check("C15.confine.absolute_rejected", And(out.raised(M.HTTPNotFound), len(joined) == 0, len(submitted) == 0),
                "absolute / drive / UNC file names are 404 before any file system access")
    else:
        u.check("C15.confine.only_via_resolver",
                And(out.ok, joined == ["NAME"], len(submitted) == 1,
                    submitted[0] == ("RESOLVER", (("JOINED", "NAME"),)) if submitted else False),
                "the response comes from _resolve_path_to_response(directory.joinpath(filename)) only")


@unit("C15", "canary.range_end_inclusive", functions=[f"{FR}:FileResponse._prepare_open_file"], expect="canary")
def canary_range(u: U):
    """deliberately false: a 206 for bytes=a-b always has Content-Length b - a (off by one)"""
    import pathlib

    a = u.int("first_pos", 0)
    b = u.int("last_pos", 0)
    u.assume(a <= b)
    size = u.int("file_size", 0)
    from multidict import CIMultiDict, CIMultiDictProxy

    req = u.obj("BaseRequest", {"if_range": None, "method": "GET", "headers": CIMultiDictProxy(CIMultiDict())},
                {"prop.http_range": lambda self: slice(a, b + 1, 1)})
    resp = u.obj("FileResponse", {"_status": 200, "_headers": {}, "_path": pathlib.Path("file.bin"), "_compression": False},
                 {"set_status": lambda self, st, reason=None: setattr(self, "_status", st),
                  "super.prepare": lambda self, r: stubs.SAwait(result="W"),
                  "_sendfile": lambda self, r, fobj, offset, count: stubs.SAwait(result="W")})

    class _St:
        st_size = size
        st_mtime = 1000.0
        st_mtime_ns = 10 ** 12

    f = u.load(FR, "FileResponse._prepare_open_file")
    out = u.call(f, resp, req, "FOBJ", _St, None)
    if out.ok:
        u.check("C15.canary", Implies(resp._status == 206, fields(resp).get("content_length") == b - a), "false")
