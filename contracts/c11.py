"""C11 - WebSocket codec round trip.

Functions under contract (real text from /repo):
  aiohttp/_websocket/writer.py: WebSocketWriter._write_websocket_frame, send_frame,
      _send_compressed_frame_sync, _send_compressed_frame_async_locked, _get_compressor
  aiohttp/_websocket/reader_py.py: WebSocketReader._feed_data (one whole frame = one loop iteration)
"""
import z3

from pyvc import And, Implies, Ite, Not, Or, SBytes, SOpt, U, blen, fields, is_sym, stubs, tint
from pyvc.registry import unit
from specs import rfc6455 as rfc

from . import c12

WMOD = "aiohttp._websocket.writer"
RMOD = "aiohttp._websocket.reader_py"
FN_WRITE = "writer:WebSocketWriter._write_websocket_frame"


def wlive():
    import importlib

    from pyvc import instrument

    instrument._ensure_repo_on_path()
    return importlib.import_module(WMOD)


def mk_writer(u: U, *, use_mask=None, methods=None, compress=0, notakeover=None):
    tr = u.obj("Transport", {}, {
        "is_closing": lambda s: bool(u.choose(2, "transport.is_closing")),
        "write": lambda s, data: u.event("write", data),
    })
    proto = u.obj("BaseProtocol", {"_paused": u.bool("proto_paused")},
                  {"_drain_helper": lambda s: stubs.SAwait(name="drain")})
    f = {
        "protocol": proto,
        "transport": tr,
        "use_mask": u.bool("use_mask") if use_mask is None else use_mask,
        "get_random_bits": lambda: u.int("randbits", 0, (1 << 32) - 1),
        "compress": compress,
        "notakeover": u.bool("notakeover") if notakeover is None else notakeover,
        "_closing": u.bool("closing"),
        "_limit": u.int("limit", 1),
        "_output_size": u.int("output_size", 0),
        "_compressobj": None,
        "_send_lock": stubs.SLock(u, "send_lock"),
        "_background_tasks": set(),
    }
    return u.obj("WebSocketWriter", f, methods or {}, const=("protocol", "transport", "use_mask", "compress",
                                                               "notakeover", "_limit", "_send_lock"),
                 init=(WMOD, "WebSocketWriter.__init__", (proto, tr), {}), real=(WMOD, "WebSocketWriter"))


def wire_of(u):
    segs = []
    for e in u.events:
        if e[0] == "write":
            segs += SBytes.of(e[1]).segs
    return SBytes(segs)


def writer_mask_stub(u, log):
    def websocket_mask(mask, data):
        stubs.used("websocket_mask(mask, bytearray): in place, length unchanged (content: C11.mask lemma + bounded check)")
        n = data.length()
        log.append(("writer_mask", mask, SBytes(list(data.segs))))
        out = SBytes.fresh("masked_by_writer")
        u.assume(blen(out) == n)
        data.segs = out.segs
        log.append(("writer_masked", out))

    return websocket_mask


def _after_one_frame(u, r, calls, rlog, log, w, msg, opcode, rsv, wire, R):
    n = blen(msg)
    u.check("C11.hdr.one_frame", len(calls) == 1, "exactly one frame is handed to _handle_frame")
    if len(calls) != 1:
        return
    fin, op, payload, compressed = calls[0]
    if opcode < 8:
        # (for control frames the reader checks FIN itself and _handle_frame ignores the argument)
        u.check("C11.hdr.fin", fin == True, "FIN is set")  # noqa: E712
    u.check("C11.hdr.opcode", op == opcode, "opcode survives the round trip")
    if opcode < 8:
        u.check("C11.hdr.rsv1", compressed == (R.COMPRESSED_TRUE if rsv else R.COMPRESSED_FALSE),
                "RSV1 <-> compressed flag")
    u.check("C11.hdr.length", blen(payload) == n, "payload length survives (7-bit, 16-bit and 64-bit encodings)")
    u.check("C11.hdr.consumed", And(r._state == R.READ_HEADER, r._frame_payload_len == 0),
            "the reader is back in READ_HEADER with nothing pending")
    if u.branch(w.use_mask, "masked"):
        wm = [e for e in log if e[0] == "writer_mask"]
        wmd = [e for e in log if e[0] == "writer_masked"]
        rm = [e for e in rlog if e[0] == "reader_mask"]
        ok = len(wm) == 1 and len(rm) == 1
        u.check("C11.mask.applied_once", ok, "writer masks once, reader unmasks once")
        if ok:
            u.check("C11.mask.same_key", SBytes.of(rm[0][1]).prov_eq(SBytes.of(wm[0][1])) if rm[0][1] is not None else False,
                    "the reader unmasks with the 4 key bytes the writer sent")
            u.check("C11.mask.input_is_message", wm[0][2].prov_eq(SBytes.of(msg)), "the writer masks exactly the message")
            u.check("C11.mask.same_bytes", rm[0][2].prov_eq(wmd[0][1]),
                    "the reader unmasks exactly the bytes the writer produced (XOR involution: C11.mask.involution)")
    else:
        u.check("C11.payload.identity", SBytes.of(payload).prov_eq(SBytes.of(msg)),
                "unmasked payload handed to _handle_frame is the message, byte for byte")


@unit("C11", "hdr.roundtrip.frame", functions=[f"{WMOD}:WebSocketWriter._write_websocket_frame",
                                               f"{RMOD}:WebSocketReader._feed_data"])
def hdr_roundtrip_frame(u: U):
    """For every payload length n, opcode, RSV1 and mask setting, the bytes produced by the real
    _write_websocket_frame drive the real reader (one iteration of _feed_data from READ_HEADER) to hand exactly that
    frame to _handle_frame: FIN, same opcode, compressed flag = RSV1, same length, same payload bytes (unmasked) or
    the same key and masked bytes (masked), all input consumed."""
    W = wlive()
    R = c12.live()
    log, rlog, calls = [], [], []
    fw = u.load(WMOD, "WebSocketWriter._write_websocket_frame", globals={"websocket_mask": writer_mask_stub(u, log)})
    opcode = (rfc.OP_TEXT, rfc.OP_BINARY, rfc.OP_CONT, rfc.OP_CLOSE, rfc.OP_PING, rfc.OP_PONG)[u.choose(6, "opcode")]
    rsv = (0, 0x40)[u.choose(2, "rsv")] if opcode < 8 else 0
    w = mk_writer(u)
    msg = u.bytes("message")
    n = blen(msg)
    u.assume(Implies(opcode >= 8, n <= 125))
    import sys as _sys

    u.assume(n <= _sys.maxsize)  # CPython: len(bytes) <= sys.maxsize
    info = u.fn_infos[FN_WRITE]
    u.check("C11.payload.atomic", And(not info.is_async, info.n_awaits == 0),
            "_write_websocket_frame has no suspension point: header and payload of a frame are contiguous")
    out = u.call(fw, w, msg, opcode, rsv)
    if not out.ok:
        u.check("C11.hdr.write_refused_cleanly",
                And(isinstance(out.exc, W.ClientConnectionResetError), len([e for e in u.events if e[0] == "write"]) == 0),
                f"the only failure is a closing transport, before any byte is written (got {out.exc!r})")
        return
    u.cover("C11.hdr.written")
    wire = wire_of(u)
    hdr_len = Ite(n < 126, 2, Ite(n < 65536, 4, 10)) + Ite(w.use_mask, 4, 0)
    u.check("C11.hdr.wire_len", blen(wire) == hdr_len + n, "bytes on the wire = header (+mask) + payload")

    def reader_mask(mask, data):
        m = mask.get() if isinstance(mask, SOpt) else mask
        rlog.append(("reader_mask", m, SBytes(list(data.segs))))
        o = SBytes.fresh("unmasked_by_reader")
        u.assume(blen(o) == data.length())
        data.segs = o.segs

    def handle_frame(self, fin, op, payload, compressed):
        calls.append((fin, op, payload, compressed))

    fr = u.load(RMOD, "WebSocketReader._feed_data", globals={"websocket_mask": reader_mask})
    r = c12.mk_reader(u, methods={"_handle_frame": handle_frame})
    c12.assume_all(u, c12.I12(r))
    u.assume(And(r._state == R.READ_HEADER, blen(r._tail) == 0))
    u.assume(Or(r._frame_fin, r._compressed == R.COMPRESSED_NOT_SET))
    u.assume(Implies(rsv != 0, r._compress))
    M = r._max_msg_size
    u.assume(Implies(And(M > 0, opcode <= 2), n + blen(r._partial) <= M))
    u.cover("C11.frame.pre")

    def at_back(L):
        u.cover("C11.frame.decoded")
        _after_one_frame(u, L["self"], calls, rlog, log, w, msg, opcode, rsv, wire, R)
        u.check("C11.hdr.all_consumed", L["start_pos"] == L["data_len"], "every written byte was consumed by the frame")

    u.loop(c12.FN_FEED, 0, first_iteration=True, at_back=at_back)
    ro = u.call(fr, r, wire)
    # reaching this point means the reader did not get to the back edge of the frame loop
    u.check("C11.hdr.reader_accepts", False,
            f"reader left the frame loop early: {'raised ' + repr(ro.exc) if not ro.ok else 'needs more input'}")


# ---------------------------------------------------------------------------
# send_frame: RSV / lock discipline


class _Comp:
    def __init__(self, u, lock, **kw):
        self.u, self.lock, self.kw = u, lock, kw
        u.event("ZLibCompressor", kw)

    def _need_lock(self, what):
        self.u.event(what, self.lock.held, self)

    def compress_sync(self, data):
        stubs.used("ZLibCompressor.compress_sync/compress/flush: opaque deflate (A: zlib); only call order and locking are verified")
        self._need_lock("compress")
        return SBytes.fresh("deflated")

    def compress(self, data):
        self._need_lock("compress")
        return stubs.SAwait(result=lambda: SBytes.fresh("deflated_async"), name="executor.compress")

    def flush(self, mode=None):
        self._need_lock("flush")
        self.u.event("flush.mode", mode)
        return SBytes.fresh("flushed")

    def __bool__(self):
        return True


def _send_frame_unit(u: U, which):
    W = wlive()
    w = mk_writer(u, compress=(0, 15)[u.choose(2, "writer.compress")])
    lock = w._send_lock
    writes = []

    def write_stub(self, message, opcode, rsv):
        u.event("frame", opcode, rsv, lock.held, message)

    g = {"ZLibCompressor": lambda **kw: _Comp(u, lock, **kw)}
    u.module_globals[WMOD] = dict(g)     # helpers split off the compressor factory are followed with the same stub
    fs = fields(w)
    from pyvc.values import methods as _m

    _m(w)["_write_websocket_frame"] = write_stub
    get_comp = u.load(WMOD, "WebSocketWriter._get_compressor", globals=g)
    _m(w)["_get_compressor"] = lambda self, c: get_comp(self, c)
    sync = u.load(WMOD, "WebSocketWriter._send_compressed_frame_sync", globals=g)
    _m(w)["_send_compressed_frame_sync"] = lambda self, m, o, c: sync(self, m, o, c)
    return W, w, lock, g


@unit("C11", "send_frame.discipline", functions=[f"{WMOD}:WebSocketWriter.send_frame",
                                                 f"{WMOD}:WebSocketWriter._send_compressed_frame_sync",
                                                 f"{WMOD}:WebSocketWriter._get_compressor"], also=("C13",))
def send_frame_discipline(u: U):
    """RSV1 iff the frame went through the compressor and opcode < 8; the shared compressor is touched only while
    _send_lock is held; large frames are compressed in a shielded task; closing writers refuse data frames."""
    W, w, lock, g = _send_frame_unit(u, "sync")
    tasks = []

    class _Task:
        def __init__(self, coro, loop=None, eager_start=False):
            self.coro = coro
            tasks.append(self)
            u.event("Task", getattr(coro, "cr_code", None) and coro.cr_code.co_name)

        def add_done_callback(self, cb):
            u.event("done_callback", cb)

    class _Asyncio:
        CancelledError = __import__("asyncio").CancelledError

        @staticmethod
        def get_running_loop():
            class L:
                def create_task(self, coro):
                    return _Task(coro)

            return L()

        Task = _Task

        @staticmethod
        def shield(t):
            u.event("shield", t)
            return stubs.SAwait(name="shield")

    g2 = dict(g, asyncio=_Asyncio)
    asynclocked = []
    from pyvc.values import methods as _m

    def async_locked(self, m, o, c):
        async def marker():
            return None

        co = marker()
        asynclocked.append((co, m, o, c))
        return co

    _m(w)["_send_compressed_frame_async_locked"] = async_locked
    f = u.load(WMOD, "WebSocketWriter.send_frame", globals=g2)
    opcode = (rfc.OP_TEXT, rfc.OP_BINARY, rfc.OP_CONT, rfc.OP_CLOSE, rfc.OP_PING, rfc.OP_PONG)[u.choose(6, "opcode")]
    comp_arg = (None, 0, 15)[u.choose(3, "compress_arg")]
    msg = u.bytes("message")
    closing0 = w._closing
    u.cancel_at_awaits = True
    out = u.call(f, w, msg, opcode, comp_arg)
    for co, *_ in asynclocked:
        co.close()
    frames = [e for e in u.events if e[0] == "frame"]
    comp_events = [e for e in u.events if e[0] in ("compress", "flush")]
    wants_compress = bool(comp_arg or w.compress) and opcode < 8
    u.check("C11.closing.refuses_data",
            Implies(And(closing0, opcode < 8), And(not out.ok, len(frames) == 0, len(asynclocked) == 0)),
            "a closing writer refuses every data frame before writing (no data frame after the close frame)")
    u.check("C13.writer.no_data_frame_after_close",
            Implies(And(closing0, opcode < 8), And(not out.ok, len(frames) == 0, len(asynclocked) == 0)),
            "once the close frame was sent (_closing) send_frame refuses every data frame before writing a byte")
    used = [e[2] for e in comp_events if e[0] == "compress"]
    shared = fields(w)["_compressobj"]
    u.check("C11.deflate.one_context_with_takeover",
            Implies(Not(w.notakeover), all(c_ is shared for c_ in used)),
            "with context takeover the receiver inflates every compressed message with ONE sliding window, so every "
            "compressed data frame must come from the connection's one persistent compressor - a frame from any other "
            "compressor desynchronises the window and later messages inflate to different bytes",
            known=[("F11a", And(Not(w.notakeover), bool(comp_arg)))],
            witness={"sequence": "send_str(a); send_str(b, compress=15); send_str(a) on a connection with negotiated "
                                 "permessage-deflate and context takeover"})
    u.check("C11.lock.compressor_only_under_lock", all(e[1] is True for e in comp_events),
            "compress/flush of the (shared) compressor only while _send_lock is held")
    u.check("C11.lock.compressed_write_under_lock", all(e[3] is True for e in frames if e[2] != 0),
            "the compressed frame is written before the lock is released (compress+write atomic w.r.t. other senders)")
    u.check("C11.rsv.control_never_compressed", Implies(opcode >= 8, And(len(comp_events) == 0, all(e[2] == 0 for e in frames))),
            "control frames never take the compressed path and never carry RSV1")
    u.check("C11.rsv.iff_compressed", all((e[2] == 0x40) == wants_compress for e in frames),
            "RSV1 is set iff compression applies to this data frame")
    u.check("C11.send.at_most_one_frame", len(frames) + len(asynclocked) <= 1, "one send_frame call emits one frame")
    if asynclocked:
        sh = [e for e in u.events if e[0] == "shield"]
        u.check("C11.lock.large_frames_shielded",
                And(len(tasks) == 1, len(sh) == 1, sh[0][1] is tasks[0] if sh and tasks else False,
                    tasks[0].coro is asynclocked[0][0] if tasks else False,
                    any(t is tasks[0] for t in w._background_tasks) if tasks else False),
                "a large compressed frame runs as a task that is kept referenced and awaited only through shield()")
        u.check("C11.send.large_args", And(asynclocked[0][1] is msg, asynclocked[0][2] == opcode),
                "the shielded task sends this message with this opcode")
    if out.ok and frames:
        u.check("C11.send.payload", Implies(not wants_compress, frames[0][4] is msg), "uncompressed payload is the message")
    if out.ok and not wants_compress:
        u.check("C11.send.sent", len(frames) == 1, "an accepted uncompressed send writes exactly one frame")


@unit("C11", "close.writer", functions=[f"{WMOD}:WebSocketWriter.close"])
def close_writer(u: U):
    """WebSocketWriter.close(code, message): one Close frame whose payload is the status code as two big-endian bytes
    followed by the reason bytes.  With the reader side (handle_frame.contract: C11.close.*) a close message round-trips:
    every wire-valid code is accepted and reported as sent."""
    import struct

    w = mk_writer(u, compress=0)
    code = u.int("close_code")
    message = u.bytes("reason")
    sent = []

    def pack_close_code(c):
        stubs.used("struct.Struct('!H').pack(c): two bytes hi, lo with hi*256 + lo == c; struct.error outside 0..65535")
        if not u.branch(And(c >= 0, c <= 65535), "code_fits_u16"):
            raise struct.error("'H' format requires 0 <= number <= 65535")
        b = SBytes.fresh("packed_code")
        u.assume(blen(b) == 2)
        u.assume(b.byte_at(0) * 256 + b.byte_at(1) == c)
        return b

    def send_frame(self, payload, opcode, compress=None):
        sent.append((payload, opcode, fields(w)["_closing"]))
        return stubs.SAwait(name="send_frame", raises=(ConnectionResetError("gone"),))

    from pyvc.values import methods as _m

    _m(w)["send_frame"] = send_frame
    f = u.load(WMOD, "WebSocketWriter.close", globals={"PACK_CLOSE_CODE": pack_close_code})
    out = u.call(f, w, code, message)
    if not out.ok and isinstance(out.exc, struct.error):
        u.check("C11.close.writer.refuses_only_unpackable", Not(And(code >= 0, code <= 65535)), "only a code outside 0..65535 is refused")
        return
    u.check("C11.close.writer.one_close_frame", len(sent) == 1 and sent[0][1] == rfc.OP_CLOSE,
            "close() sends exactly one frame, with the Close opcode")
    if len(sent) == 1:
        p = SBytes.of(sent[0][0])
        u.check("C11.close.writer.payload", And(blen(p) == 2 + blen(message), p.byte_at(0) * 256 + p.byte_at(1) == code,
                                                p.slice(2, None).prov_eq(SBytes.of(message))),
                "the Close payload is the status code (2 bytes, network order) followed by exactly the reason bytes")
        u.check("C11.close.writer.closing_before_send", sent[0][2] is True,
                "the writer is marked closing before the frame is handed to send_frame (no data frame can follow it)")


@unit("C11", "send_async_locked", functions=[f"{WMOD}:WebSocketWriter._send_compressed_frame_async_locked"], also=("C13",))
def send_async_locked(u: U):
    """the executor path holds _send_lock from before compress() until after the frame is written."""
    W, w, lock, g = _send_frame_unit(u, "async")
    f = u.load(WMOD, "WebSocketWriter._send_compressed_frame_async_locked", globals=g)
    msg = u.bytes("message")
    opcode = (rfc.OP_TEXT, rfc.OP_BINARY)[u.choose(2, "opcode")]
    comp_arg = (None, 15)[u.choose(2, "compress_arg")]
    u.assume(Or(bool(comp_arg), w.compress != 0))
    u.assume(Not(w._closing))            # send_frame() refuses data frames on a closing writer before it gets here
    closed_at = []

    def hook(y):
        # rely: while this task waits for the lock or for the executor, another task may run close() - it marks the
        # writer closing and its CLOSE frame (a control frame, never compressed, no lock) is on the wire at once
        if not closed_at and u.choose(2, f"interference.close_during.{y.awaited.name}"):
            fields(w)["_closing"] = True
            u.event("close_frame_by_other_task")
            closed_at.append(y.awaited.name)

    u.suspend_hook = hook
    out = u.call(f, w, msg, opcode, comp_arg)
    frames = [e for e in u.events if e[0] == "frame"]
    comp_events = [e for e in u.events if e[0] in ("compress", "flush")]
    names = [e[0] for e in u.events]
    u.check("C11.lock.async.released", lock.held is False, "the lock is released on exit")
    u.check("C11.lock.async.compressor_only_under_lock", all(e[1] is True for e in comp_events),
            "compress / flush only under the lock")
    if closed_at:
        u.check("C13.writer.no_data_frame_after_close.large_frames",
                And(not out.ok, all(names.index("frame") < names.index("close_frame_by_other_task") for _ in frames[:1])),
                "a large compressed data frame that was still waiting for the lock or being compressed in the executor when "
                "close() sent the CLOSE frame is dropped with an error - written afterwards it would follow the close frame "
                "on the wire",
                known=[("F13f", True)], witness={"close_arrives_during": closed_at[0]},
                also_as=("C11.close.large_frame_in_flight_is_dropped",))
        return
    u.check("C11.lock.async.both_under_lock", len(comp_events) == 2, "compress + flush both happen")
    u.check("C11.lock.async.write_under_lock", And(len(frames) == 1, frames[0][3] is True if frames else False,
                                                  frames[0][2] == 0x40 if frames else False),
            "exactly one RSV1 frame, written before the lock is released")
    u.check("C11.lock.async.order", names.index("send_lock.acquired") < names.index("compress") < names.index("flush")
            < names.index("frame") < names.index("send_lock.released") if out.ok else True,
            "acquire < compress < flush < write < release")


@unit("C11", "mask.involution", kind="lemma")
def mask_involution(u: U):
    """spec lemma (RFC 6455 5.3): masking twice with the same key is the identity, per octet position mod 4."""
    b = z3.BitVec("octet", 8)
    k = [z3.BitVec(f"key{j}", 8) for j in range(4)]
    i = z3.Int("i")
    key = z3.If(i % 4 == 0, k[0], z3.If(i % 4 == 1, k[1], z3.If(i % 4 == 2, k[2], k[3])))
    u.assume(i >= 0)
    u.check("C11.mask.involution", (b ^ key) ^ key == b, "(b xor k[i%4]) xor k[i%4] == b")


@unit("C11", "canary.len126_short_header", functions=[f"{WMOD}:WebSocketWriter._write_websocket_frame"], expect="canary")
def canary_len(u: U):
    """deliberately false: every frame of at most 126 bytes has a 2-byte header"""
    log = []
    fw = u.load(WMOD, "WebSocketWriter._write_websocket_frame", globals={"websocket_mask": writer_mask_stub(u, log)})
    w = mk_writer(u, use_mask=False)
    msg = u.bytes("message")
    out = u.call(fw, w, msg, rfc.OP_BINARY, 0)
    if out.ok:
        u.check("C11.canary", Implies(blen(msg) <= 126, blen(wire_of(u)) == 2 + blen(msg)), "false for n == 126")
