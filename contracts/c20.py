"""C20 - application lifecycle: cleanup runs exactly for what started; shutdown drains.

Functions under contract (real text from /repo):
  aiohttp/web_app.py:     CleanupContext._on_startup, CleanupContext._on_cleanup, Application.cleanup
  aiohttp/web_runner.py:  BaseRunner.setup, BaseRunner.cleanup, AppRunner._make_server, AppRunner._cleanup_server
  aiohttp/web.py:         _run_app
  aiohttp/web_server.py:  Server.pre_shutdown, Server.shutdown
  aiohttp/web_protocol.py: RequestHandler.shutdown, close, force_close

Ghost state.  The cleanup contexts of one application are an abstract sequence 0..n-1 (n symbolic).  `_exits` is an
abstract list whose invariant is "holds exactly the contexts 0..count-1, in that order" (established by _on_startup,
consumed by _on_cleanup).  Exits are observed through a ghost cursor: the next context that may be exited; an exit of
any other context, or a second exit, fails the obligation at that very call.
"""
import asyncio

import z3

from pyvc import And, Implies, Not, Or, SInt, U, fields, is_sym, mk_bool, mk_int, stubs, tint
from pyvc.registry import unit
from pyvc.stubs import SAwait

APP = "aiohttp.web_app"
RUN = "aiohttp.web_runner"
WEB = "aiohttp.web"
SRV = "aiohttp.web_server"
PROTO = "aiohttp.web_protocol"
FN_START = "web_app:CleanupContext._on_startup"
FN_CLEAN = "web_app:CleanupContext._on_cleanup"
FN_RCLEAN = "web_runner:BaseRunner.cleanup"
FN_RUNAPP = "web:_run_app"
FN_PRESHUT = "web_server:Server.pre_shutdown"


class Boom(Exception):
    """an arbitrary exception raised by user code"""


# ---------------------------------------------------------------------------------------------------------------
# abstract sequences


class _Iter:
    def __init__(self, u, n, reverse=False, make=None):
        self.u, self.n, self.reverse, self.make = u, n, reverse, make
        self.i = (n - 1) if reverse else 0

    def havoc(self, name):
        self.i = self.u.int(name)
        self.u.assume(And(self.i >= -1, self.i <= self.n))
        if not self.reverse:
            self.u.assume(self.i >= 0)
        else:
            self.u.assume(self.i <= self.n - 1)

    def has_next(self, L):
        return self.u.branch((self.i >= 0) if self.reverse else (self.i < self.n), "seq.has_next")

    def next(self):
        v = self.i
        self.i = (self.i - 1) if self.reverse else (self.i + 1)
        return self.make(v)


class Exits:
    """CleanupContext._exits: the contexts 0..count-1 in order (I20)"""

    _pyvc_sym = True

    def __init__(self, u, count, G):
        self.u, self.count, self.G = u, count, G

    def append(self, ctx):
        # I20 is kept only if the context appended is the next one in order, and it has been entered
        self.u.check("C20.startup.records_in_order", And(ctx.idx == self.count, self.G["entered_upto"] == ctx.idx + 1),
                     "_exits.append(ctx): ctx is the next context, and its startup code has completed")
        self.count = self.count + 1

    def __reversed__(self):
        return _Rev(self)


class _Rev:
    def __init__(self, ex):
        self.ex = ex

    def sym_iter(self, k, spec):
        ex = self.ex
        return _Iter(ex.u, ex.count, reverse=True, make=lambda i: Ctx(ex.u, i, ex.G))


class Ctx:
    """an async context manager produced by cleanup-context callback number idx"""

    def __init__(self, u, idx, G):
        self.u, self.idx, self.G = u, idx, G

    def sym_isinstance(self, ts):
        return True

    def __aenter__(self):
        G, u, idx = self.G, self.u, self.idx
        u.check("C20.startup.enter_in_order", idx == G["entered_upto"], "contexts are entered in list order, once")

        def ok():
            G["entered_upto"] = idx + 1

        def bad(e):
            G["failed_at"] = idx

        return SAwait(name="ctx.__aenter__", raises=(Boom,), on_resume=ok, on_raise=bad)

    def __aexit__(self, *a):
        G, u, idx = self.G, self.u, self.idx
        u.check("C20.cleanup.exit_in_reverse_once", idx == G["next_exit"],
                "the context exited is the latest not-yet-exited one that was started: reverse order, exactly once")
        G["next_exit"] = idx - 1

        def bad(e):
            G["exit_errors"] = G["exit_errors"] + 1

        return SAwait(name="ctx.__aexit__", raises=(Boom, asyncio.CancelledError), on_raise=bad)


class CC:
    """a CleanupContext: iterable of n callbacks plus _exits"""

    def __init__(self, u, n, exits, G):
        self.u, self.n, self._exits, self.G = u, n, exits, G

    def sym_iter(self, k, spec):
        return _Iter(self.u, self.n, make=lambda i: (lambda app: Ctx(self.u, i, self.G)))


def _nerr(x):
    return len(x) if isinstance(x, list) else x.count


class ErrList:
    """the local `errors` of _on_cleanup after the loop cut: count + opaque elements"""

    _pyvc_sym = True

    def __init__(self, u, count):
        self.u, self.count = u, count

    def append(self, e):
        self.count = self.count + 1

    def sym_len(self):
        return self.count

    def __bool__(self):
        return self.u.branch(self.count != 0, "errors.nonempty")

    def sym_getitem(self, i):
        return Boom("first collected error")


# ---------------------------------------------------------------------------------------------------------------
# 1. CleanupContext


@unit("C20", "ctx.startup", functions=[f"{APP}:CleanupContext._on_startup"])
def ctx_startup(u: U):
    """_on_startup: for every n and every failure position j, afterwards _exits holds exactly the contexts whose
    startup completed (0..j-1), in order; context j is not recorded and no later context is started"""
    n = u.int("n_contexts", 0)
    G = {"entered_upto": 0, "failed_at": None}
    exits = Exits(u, 0, G)
    cc = CC(u, n, exits, G)
    f = u.load(APP, "CleanupContext._on_startup")

    def havoc(L):
        it = L["__vc_it0"]
        G["entered_upto"] = it.i
        exits.count = it.i

    u.loop(FN_START, 0,
           inv=lambda L: [("I20", And(exits.count == L["__vc_it0"].i, G["entered_upto"] == L["__vc_it0"].i))],
           havoc=havoc)
    out = u.call(f, cc, "app")
    if out.ok:
        u.check("C20.startup.all_recorded", And(exits.count == n, G["entered_upto"] == n),
                "normal return: every context started and is recorded")
        u.cover("C20.startup.ok")
    else:
        u.check("C20.startup.only_user_error", isinstance(out.exc, Boom), f"only the failing step's own error: {out!r}")
        j = G["failed_at"]
        u.check("C20.startup.failure_recorded_prefix", j is not None and And(exits.count == j, G["entered_upto"] == j),
                "failure in context j: _exits == contexts 0..j-1; j itself is not recorded; nothing after j started")
        u.cover("C20.startup.failed")


@unit("C20", "ctx.cleanup", functions=[f"{APP}:CleanupContext._on_cleanup"])
def ctx_cleanup(u: U):
    """_on_cleanup: every recorded context is exited exactly once, latest first, whatever subset of exits fails;
    an error is reported iff some exit failed"""
    m = u.int("n_started", 0)
    G = {"next_exit": m - 1, "exit_errors": 0}
    exits = Exits(u, m, G)
    cc = CC(u, m, exits, G)
    f = u.load(APP, "CleanupContext._on_cleanup")

    def havoc(L):
        it = L["__vc_it0"]
        G["next_exit"] = it.i

    def havoc_errors(nm):
        # (the local is havocked before the unit's havoc hook runs: the ghost counter is havocked with it)
        G["exit_errors"] = u.int("errors@loop", 0)
        return ErrList(u, G["exit_errors"])

    u.loop(FN_CLEAN, 0,
           inv=lambda L: [("cursor", G["next_exit"] == L["__vc_it0"].i),
                          ("errors", _nerr(L["errors"]) == G["exit_errors"])],
           havoc=havoc, types={"errors": havoc_errors})
    out = u.call(f, cc, "app")
    u.check("C20.cleanup.all_exited", G["next_exit"] == -1,
            "on return (normal or not) every started context has been exited - failures do not stop the sweep")
    if out.ok:
        u.check("C20.cleanup.silent_only_if_clean", G["exit_errors"] == 0, "no error is swallowed")
    else:
        u.check("C20.cleanup.error_only_if_failed", G["exit_errors"] >= 1, f"raises only when an exit failed: {out!r}")
        from aiohttp.web_app import CleanupError

        u.check("C20.cleanup.error_shape",
                Or(And(G["exit_errors"] == 1, isinstance(out.exc, Boom)),
                   And(G["exit_errors"] >= 2, isinstance(out.exc, CleanupError))),
                "one failure is re-raised as is, several are wrapped in CleanupError")


@unit("C20", "canary.cleanup_stops", functions=[f"{APP}:CleanupContext._on_cleanup"], expect="canary")
def canary_cleanup(u: U):
    """deliberately false: no exit ever fails"""
    m = u.int("n_started", 0)
    G = {"next_exit": m - 1, "exit_errors": 0}
    cc = CC(u, m, Exits(u, m, G), G)
    f = u.load(APP, "CleanupContext._on_cleanup")
    u.loop(FN_CLEAN, 0, inv=lambda L: [("cursor", G["next_exit"] == L["__vc_it0"].i)],
           havoc=lambda L: G.__setitem__("next_exit", L["__vc_it0"].i),
           types={"errors": lambda nm: ErrList(u, u.int("e", 0))})
    out = u.call(f, cc, "app")
    u.check("C20.canary", out.ok, "false: a failing exit is reported")


# ---------------------------------------------------------------------------------------------------------------
# 2. Application.cleanup and the signal wiring


class Sig:
    """aiosignal.Signal (ASSUMED): send() awaits the receivers in list order and stops at the first exception"""

    def __init__(self, u, frozen, receivers, log):
        self.u, self.frozen, self.receivers, self.log = u, frozen, receivers, log

    def send(self, *a):
        stubs.used("aiosignal.Signal.send: awaits receivers in registration order; the first exception aborts the rest")
        return _SendAw(self)

    def freeze(self):
        self.frozen = True
        self.log.append(("freeze-signal",))


class _SendAw(SAwait):
    def __init__(self, sig):
        super().__init__(name="Signal.send")
        self.sig = sig


@unit("C20", "app.wiring", kind="lemma", functions=[f"{APP}:Application.__init__", f"{APP}:Application._reg_subapp_signals"])
def app_wiring(u: U):
    """by evaluation of the live constructor (it takes no input that matters here): the application's own cleanup
    contexts are the FIRST receiver of on_startup and of on_cleanup; a sub-application's signals are appended after"""
    from pyvc import instrument

    instrument._ensure_repo_on_path()
    from aiohttp import web

    app, sub = web.Application(), web.Application()
    u.check("C20.wiring.startup_first", len(app.on_startup) >= 1 and app.on_startup[0] == app._cleanup_ctx._on_startup,
            "on_startup[0] is the cleanup-context startup")
    u.check("C20.wiring.cleanup_first", len(app.on_cleanup) >= 1 and app.on_cleanup[0] == app._cleanup_ctx._on_cleanup,
            "on_cleanup[0] is the cleanup-context cleanup: no user handler can fail before it")
    n0 = len(app.on_cleanup)
    app.add_subapp("/s", sub)
    u.check("C20.wiring.subapp_appended", len(app.on_cleanup) == n0 + 1 and len(app.on_startup) == 2,
            "add_subapp appends one receiver per signal that forwards to the sub-application")


@unit("C20", "app.cleanup", functions=[f"{APP}:Application.cleanup"])
def app_cleanup(u: U):
    """Application.cleanup: the application's own cleanup contexts are exited on both routes (frozen: through the
    on_cleanup signal whose first receiver they are; not frozen, i.e. startup failed: directly); sub-applications"""
    log = []
    frozen = u.choose(2, "on_cleanup.frozen") == 1
    own_fails = u.bool("own_ctx_cleanup_fails")
    has_sub = u.choose(2, "has_subapp") == 1
    sub_started = u.bool("subapp_has_started_contexts")

    class _CtxCleanup:
        def _on_cleanup(self, app):
            log.append("own")
            return SAwait(name="own ctx cleanup", raises=(Boom,) if True else ())

    sig = Sig(u, frozen, ["own"] + (["sub"] if has_sub else []), log)
    app = u.obj("Application", {"on_cleanup": sig, "_cleanup_ctx": _CtxCleanup()}, {}, shared=False)
    f = u.load(APP, "Application.cleanup")
    raised = {"own": False}

    def adapter(aw):
        if isinstance(aw, _SendAw):
            # contract of Signal.send over [own ctx cleanup, ..., sub-application forwarders]
            log.append("own")

            def on_raise(e):
                raised["own"] = True

            def on_resume():
                if has_sub:
                    log.append("sub")

            return SAwait(name="Signal.send", raises=(Boom,), on_raise=on_raise, on_resume=on_resume)
        return None

    u.await_adapter = adapter
    out = u.call(f, app)
    u.check("C20.app.own_contexts_exited_once", log.count("own") == 1,
            "the application's own _cleanup_ctx._on_cleanup runs exactly once on either route")
    if has_sub:
        reached = "sub" in log
        failed_before = (not out.ok)
        u.check("C20.app.subapp_contexts_exited", Implies(sub_started, reached),
                "a sub-application whose contexts started is cleaned up as well - also when the parent's own cleanup "
                "raised, and also when startup failed (not frozen)",
                known=[("F20b", And(sub_started, bool(frozen and failed_before))),
                       ("F20d", And(sub_started, bool(not frozen)))],
                witness={"frozen": frozen, "parent_cleanup_raised": failed_before})


# ---------------------------------------------------------------------------------------------------------------
# 3. runner


class _Site:
    def __init__(self, log, name):
        self.log, self.name = log, name

    def stop(self):
        self.log.append(("site.stop", self.name))
        return SAwait(name="site.stop")

    def start(self):
        self.log.append(("site.start", self.name))
        return SAwait(name="site.start", raises=(OSError,))


class _Server:
    def __init__(self, log):
        self.log = log

    def __bool__(self):
        return True

    def pre_shutdown(self):
        self.log.append(("pre_shutdown",))

    def shutdown(self, timeout=None):
        self.log.append(("server.shutdown", timeout))
        return SAwait(name="server.shutdown")


@unit("C20", "runner.cleanup", functions=[f"{RUN}:BaseRunner.cleanup"])
def runner_cleanup(u: U):
    """BaseRunner.cleanup: stop listening, close idle connections, run shutdown hooks, drain with the shutdown timeout,
    then ALWAYS hand over to the application's cleanup (the cleanup contexts) - also when setup had failed or a
    shutdown hook raises"""
    log = []
    has_server = u.choose(2, "setup_succeeded") == 1
    timeout = u.real("shutdown_timeout")
    sites = [_Site(log, "a"), _Site(log, "b")][: u.choose(3, "n_sites")]

    def shutdown(self):
        log.append(("app.shutdown",))
        return SAwait(name="on_shutdown handlers", raises=(Boom,))

    def cleanup_server(self):
        log.append(("cleanup_server",))
        return SAwait(name="app.cleanup", raises=(Boom,))

    r = u.obj("BaseRunner", {"_sites": sites, "_server": _Server(log) if has_server else None,
                             "_shutdown_timeout": timeout, "_handle_signals": False},
              {"shutdown": shutdown, "_cleanup_server": cleanup_server}, shared=False)

    class _asyncio:
        @staticmethod
        def sleep(x):
            log.append(("yield",))
            return SAwait(name="sleep(0)")

        @staticmethod
        def get_running_loop():
            return None

    f = u.load(RUN, "BaseRunner.cleanup", globals={"asyncio": _asyncio})
    u.loop(FN_RCLEAN, 0, unroll=True, bound=3)
    out = u.call(f, r)
    names = [e[0] for e in log]
    stops = [e for e in log if e[0] == "site.stop"]
    u.check("C20.runner.sites_stopped_first", len(stops) == len(sites) and names[: len(sites)] == ["site.stop"] * len(sites),
            "no new connections: every site is stopped before anything else")
    u.check("C20.runner.cleanup_always_reached", names.count("cleanup_server") == 1,
            "the application's cleanup (its cleanup contexts) is reached exactly once: whether or not setup succeeded and "
            "whether or not a shutdown hook raises",
            known=[("F20c", bool(has_server and "app.shutdown" in names and "cleanup_server" not in names))],
            witness={"log": names})
    if has_server and "cleanup_server" in names:
        want = ["yield", "pre_shutdown", "app.shutdown"]
        got = [x for x in names if x in ("yield", "pre_shutdown", "app.shutdown", "server.shutdown", "cleanup_server")]
        u.check("C20.runner.shutdown_order",
                got[:3] == want and got[-1] == "cleanup_server" and (got[3:-1] in (["server.shutdown"], [])),
                "idle connections are closed (pre_shutdown) before the shutdown hooks, handlers drain afterwards, "
                f"cleanup comes last: {got}")
        sd = [e for e in log if e[0] == "server.shutdown"]
        u.check("C20.runner.connections_closed_even_if_hook_raises", len(sd) == 1,
                "every connection is closed when cleanup ends: Server.shutdown (drain, then close what is left) runs "
                "exactly once also when an on_shutdown handler raises - otherwise the accepted connections stay open "
                "behind a runner that has forgotten its server",
                known=[("F20e", bool("app.shutdown" in names and not sd))], witness={"log": names})
        if sd:
            u.check("C20.runner.drain_uses_shutdown_timeout", sd[0][1] is timeout, "the drain gets the configured timeout")
    if not has_server:
        u.check("C20.runner.no_server_no_drain", "pre_shutdown" not in names and "server.shutdown" not in names,
                "setup failed: nothing to drain")
    if out.ok:
        u.check("C20.runner.server_forgotten", fields(r)["_server"] is None, "afterwards the runner holds no server")


@unit("C20", "runner.make_server", functions=[f"{RUN}:AppRunner._make_server", f"{RUN}:BaseRunner.setup"])
def runner_make_server(u: U):
    """AppRunner setup: startup runs before the application is frozen, so a failed startup leaves on_cleanup unfrozen
    (Application.cleanup then takes the direct route) and the runner without a server"""
    log = []

    class _App:
        def __init__(self):
            self.on_startup = Sig(u, False, [], log)
            self._handle = "handle"

        def startup(self):
            log.append(("startup",))
            return SAwait(name="app.startup", raises=(Boom,))

        def freeze(self):
            log.append(("freeze",))

        def cleanup(self):
            log.append(("app.cleanup",))
            return SAwait(name="app.cleanup")

    app = _App()
    r = u.obj("AppRunner", {"_app": app, "_kwargs": {}, "_server": None, "_handle_signals": False, "_sites": [],
                            "_shutdown_timeout": 1.0},
              {"_make_request": lambda self, *a: None}, shared=False)
    mk = u.load(RUN, "AppRunner._make_server", globals={"Server": lambda *a, **k: "SERVER"})
    object.__getattribute__(r, "_o_methods")["_make_server"] = lambda self: mk(self)

    class _asyncio:
        @staticmethod
        def get_running_loop():
            return None

    f = u.load(RUN, "BaseRunner.setup", globals={"asyncio": _asyncio})
    out = u.call(f, r)
    names = [e[0] for e in log]
    if out.ok:
        u.check("C20.setup.order", names == ["freeze-signal", "startup", "freeze"], f"startup then freeze: {names}")
        u.check("C20.setup.server_set", fields(r)["_server"] == "SERVER", "server recorded only after startup succeeded")
    else:
        u.check("C20.setup.failed_startup_not_frozen", "freeze" not in names and fields(r)["_server"] is None,
                "failed startup: application not frozen, no server - cleanup() will exit the started contexts directly")
        u.check("C20.setup.failure_is_the_startup_error", isinstance(out.exc, Boom), repr(out))
        # the caller's (and run_app's) `finally: await runner.cleanup()` follows: over that whole history the
        # application's cleanup - which exits every started context - runs exactly once
        cs = u.load(RUN, "AppRunner._cleanup_server")
        object.__getattribute__(r, "_o_methods")["_cleanup_server"] = lambda self: cs(self)
        object.__getattribute__(r, "_o_methods")["shutdown"] = lambda self: SAwait(name="app.shutdown")
        g = u.load(RUN, "BaseRunner.cleanup", globals={"asyncio": _asyncio})
        u.loop(FN_RCLEAN, 0, unroll=True, bound=2)
        out2 = u.call(g, r)
        n = [e[0] for e in log].count("app.cleanup")
        u.check("C20.setup.failed_setup_then_cleanup_exits_contexts_once", And(out2.ok, n == 1),
                f"setup() failed in startup, then runner.cleanup(): Application.cleanup ran {n} time(s) - every started "
                "context is exited exactly once, not by setup() and again by cleanup()")


@unit("C20", "run_app", functions=[f"{WEB}:_run_app"])
def run_app(u: U):
    """_run_app: once runner.setup() has begun, runner.cleanup() is awaited on every way out (startup failure, site
    start failure, GracefulExit, cancellation)"""
    log = []

    class _Runner:
        def __init__(self, app, **kw):
            self.sites = []

        def setup(self):
            log.append("setup")
            return SAwait(name="runner.setup", raises=(Boom,))

        def cleanup(self):
            log.append("cleanup")
            return SAwait(name="runner.cleanup")

    class _asyncio:
        CancelledError = asyncio.CancelledError

        @staticmethod
        def iscoroutine(x):
            return False

        @staticmethod
        def sleep(x):
            from aiohttp.web_runner import GracefulExit

            return SAwait(name="sleep(3600)", raises=(GracefulExit, asyncio.CancelledError))

    class _TCPSite:
        def __init__(self, runner, *a, **k):
            self.name = "tcp"
            self._s = _Site([], "tcp")

        def start(self):
            return self._s.start()

    f = u.load(WEB, "_run_app", globals={"AppRunner": _Runner, "asyncio": _asyncio, "TCPSite": _TCPSite,
                                          "cast": lambda t, x: x})
    info = u.fn_infos[FN_RUNAPP]
    for k in range(len(info.loops)):
        u.loop(FN_RUNAPP, k, unroll=True, bound=3)
    # the final `while True: await sleep` loop: cut (it only ends by an exception)
    u.loop(FN_RUNAPP, len(info.loops) - 1, inv=lambda L: [])
    out = u.call(f, "app", print=None)
    u.check("C20.run_app.never_returns_normally", not out.ok, "run_app ends only by an exception")
    u.check("C20.run_app.cleanup_after_setup", ("setup" not in log) or log.count("cleanup") == 1,
            "runner.cleanup() runs exactly once whenever runner.setup() was begun - in particular when a startup step "
            "failed, so that the contexts that did start are exited",
            known=[("F20a", bool(log == ["setup"] and isinstance(out.exc, Boom)))], witness={"log": log})


# ---------------------------------------------------------------------------------------------------------------
# 4. connections at shutdown


class _Conn:
    def __init__(self, log, i):
        self.log, self.i = log, i

    def close(self):
        self.log.append(("close", self.i))

    def shutdown(self, timeout):
        self.log.append(("shutdown", self.i, timeout))
        return ("coro", self.i)


@unit("C20", "server.shutdown", functions=[f"{SRV}:Server.pre_shutdown", f"{SRV}:Server.shutdown"])
def server_shutdown(u: U):
    """Server.pre_shutdown closes every connection (idle ones end at once); Server.shutdown drains every connection
    with the timeout and forgets them (element-wise over a generic connection list)"""
    log = []
    from pyvc.registry import width

    conns = [_Conn(log, i) for i in range(u.choose(width(3, 6), "n_conns"))]
    timeout = u.real("timeout")
    gathered = []

    class _Conns(dict):
        pass

    cs = _Conns((c, None) for c in conns)

    class _asyncio:
        @staticmethod
        def gather(*coros):
            gathered.extend(coros)
            return SAwait(name="gather")

    srv = u.obj("Server", {"_connections": cs}, {}, shared=False)
    f1 = u.load(SRV, "Server.pre_shutdown")
    u.loop(FN_PRESHUT, 0, unroll=True, bound=8)
    o1 = u.call(f1, srv)
    u.check("C20.server.pre_shutdown_closes_all", o1.ok and [e for e in log if e[0] == "close"] == [("close", c.i) for c in conns],
            "every live connection is told to close")
    f2 = u.load(SRV, "Server.shutdown", globals={"asyncio": _asyncio})
    o2 = u.call(f2, srv, timeout)
    u.check("C20.server.shutdown_drains_all",
            o2.ok and sorted(gathered) == [("coro", c.i) for c in conns]
            and all(e[2] is timeout for e in log if e[0] == "shutdown"),
            "every connection is drained with the given timeout")
    u.check("C20.server.connections_forgotten", len(fields(srv)["_connections"]) == 0, "no connection outlives shutdown")


class _Fut:
    def __init__(self, log, name, done=False):
        self.log, self.name, self._done = log, name, done

    def cancel(self):
        self.log.append(("cancel", self.name))

    def done(self):
        return self._done


@unit("C20", "conn.shutdown", functions=[f"{PROTO}:RequestHandler.shutdown", f"{PROTO}:RequestHandler.force_close",
                                         f"{PROTO}:RequestHandler.close"])
def conn_shutdown(u: U):
    """RequestHandler.shutdown(timeout): no further request is accepted, a running handler gets at most `timeout` to
    finish, then is cancelled and awaited for at most another `timeout`; afterwards the task is cancelled and the
    transport closed.  Every wait is inside a ceil_timeout(timeout) block and there are at most two of them."""
    log = []
    timeout = u.real("timeout")
    in_progress = u.choose(2, "request_in_progress") == 1
    has_task = u.choose(2, "has_task") == 1
    task_done = u.choose(2, "task_done") == 1 if has_task else True
    has_ka = u.choose(2, "keepalive_handle") == 1
    has_req = u.choose(2, "current_request") == 1

    class _Transport:
        def close(self):
            log.append(("transport.close",))

    class _Req:
        def _cancel(self, exc):
            log.append(("request.cancel",))

    class _Loop:
        def create_future(self):
            return SAwait(name="handler_waiter", raises=(asyncio.CancelledError, asyncio.TimeoutError))

    depth = {"n": 0, "blocks": 0, "unbounded_awaits": 0}

    class _Timeout:
        def __init__(self, t):
            self.t = t

        async def __aenter__(self):
            depth["n"] += 1
            depth["blocks"] += 1
            log.append(("timeout.enter", self.t))

        async def __aexit__(self, et, ev, tb):
            depth["n"] -= 1
            return False

    class _Task(_Fut):
        pass

    task = _Task(log, "task", task_done)

    class _asyncio:
        CancelledError = asyncio.CancelledError
        TimeoutError = asyncio.TimeoutError

        @staticmethod
        def shield(t):
            return SAwait(name="shield(task)", raises=(asyncio.CancelledError, asyncio.TimeoutError))

        @staticmethod
        def current_task():
            return None

    force = u.load(PROTO, "RequestHandler.force_close")
    h = u.obj("RequestHandler",
              {"_force_close": False, "_keepalive_handle": _Fut(log, "keepalive") if has_ka else None,
               "_request_in_progress": in_progress, "_handler_waiter": None, "_loop": _Loop(),
               "_current_request": _Req() if has_req else None, "_task_handler": task if has_task else None,
               "_waiter": None, "transport": _Transport(), "_close": False},
              {"force_close": lambda self: force(self)}, shared=False)

    def hook(y):
        if depth["n"] == 0:
            depth["unbounded_awaits"] += 1

    u.suspend_hook = hook
    f = u.load(PROTO, "RequestHandler.shutdown", globals={"ceil_timeout": _Timeout, "asyncio": _asyncio})
    out = u.call(f, h, timeout)
    u.check("C20.conn.total", out.ok, f"shutdown() itself does not fail when the caller is not being cancelled: {out!r}")
    u.check("C20.conn.no_new_requests", fields(h)["_force_close"] is True, "the connection accepts no further request")
    u.check("C20.conn.bounded_waits", depth["unbounded_awaits"] == 0 and depth["blocks"] <= 2
            and all(e[1] is timeout for e in log if e[0] == "timeout.enter"),
            "every wait is inside ceil_timeout(timeout); at most two such blocks: grace period, then cancellation - "
            "the handler is gone at the latest after twice the timeout")
    if has_ka:
        u.check("C20.conn.keepalive_timer_cancelled", ("cancel", "keepalive") in log, "the keep-alive timer is cancelled")
    if out.ok:
        u.check("C20.conn.transport_closed", ("transport.close",) in log and fields(h)["transport"] is None,
                "the transport is closed when shutdown() returns")
        if has_task:
            u.check("C20.conn.task_cancelled", ("cancel", "task") in log, "the handler task is cancelled at the end")
        if has_req:
            names = [e[0] for e in log]
            u.check("C20.conn.request_cancelled_in_second_phase",
                    "request.cancel" in names and names.index("request.cancel") > names.index("timeout.enter"),
                    "the request is cancelled only inside the second bounded phase")
    # close(): idle connections end at once
    h2 = u.obj("RequestHandler", {"_close": False, "_waiter": _Fut(log, "waiter") if u.choose(2, "idle") else None},
               {}, shared=False)
    g = u.load(PROTO, "RequestHandler.close")
    idle = fields(h2)["_waiter"] is not None
    o3 = u.call(g, h2)
    u.check("C20.conn.close_marks_and_wakes",
            o3.ok and fields(h2)["_close"] is True and (("cancel", "waiter") in log) == idle,
            "close(): no further pipelined request; an idle connection (waiting for the next request) is woken at once")


@unit("C20", "conn.lost_while_handling", functions=[f"{PROTO}:RequestHandler.connection_lost"])
def conn_lost_while_handling(u: U):
    """RequestHandler.connection_lost while a handler is still running (the client went away): the handler either is
    cancelled there and then (handler_cancellation=True) or stays within reach of the shutdown sequence - the connection
    still registered with the server and still holding its task - so that 'requests being handled are cancelled at the
    latest after twice the shutdown timeout' also covers the handlers whose client has gone"""
    log = []
    hc = u.choose(2, "handler_cancellation") == 1
    task_running = u.choose(2, "handler_running") == 1
    task = _Fut(log, "task", done=not task_running)
    registered = {"conn": True}

    class _Manager:
        handler_cancellation = hc

        def connection_lost(self, conn, exc):
            registered["conn"] = False
            log.append(("manager.connection_lost",))

    class _Req:
        def _cancel(self, exc):
            log.append(("request.cancel",))

    class _Tr:
        def close(self):
            log.append(("transport.close",))

    force = u.load(PROTO, "RequestHandler.force_close")
    h = u.obj("RequestHandler",
              {"_manager": _Manager(), "_request_factory": "RF", "_request_handler": "RH", "_parser": "P",
               "_keepalive_handle": None, "_current_request": _Req() if task_running else None, "_task_handler": task,
               "_payload_parser": None, "_force_close": False, "transport": _Tr(), "_waiter": None,
               "_reading_paused": False, "_drain_waiter": None, "_paused": False, "_connection_lost": False},
              {"force_close": lambda self: force(self), "super.connection_lost": lambda self, exc: None},
              shared=False, real=(PROTO, "RequestHandler"))
    f = u.load(PROTO, "RequestHandler.connection_lost")
    out = u.call(f, h, None)
    u.check("C20.conn.lost.total", out.ok, repr(out))
    if not out.ok or not task_running:
        return
    cancelled = ("cancel", "task") in log
    within_reach = registered["conn"] and fields(h)["_task_handler"] is task
    u.check("C20.conn.lost.running_handler_stays_within_reach_of_shutdown", cancelled or within_reach,
            "a handler still running when its client disconnects is cancelled at once (handler_cancellation) or remains "
            "registered - connection in Server._connections, task in _task_handler - so that Server.shutdown() waits for "
            "it and cancels it; otherwise it outlives runner.cleanup() and is never cancelled",
            known=[("F20g", not hc)], witness={"handler_cancellation": hc})
