"""C05 - server connection: each request answered once, in order, or the connection is closed.

Functions under contract (real text from /repo, aiohttp/web_protocol.py):
  RequestHandler.start, _handle_request, handle_error, data_received, _pause_msg_queue_reading,
  _resume_msg_queue_reading, close, force_close

Decomposition.
  (H) _handle_request: whatever the handler does, exactly one response is finished for the request (finish_response is
      called once) - unless the handler task is cancelled or bytes of a response are already on the wire, in which
      case the connection is abandoned; status mapping HTTPException -> its status, TimeoutError -> 504, other -> 500;
      nothing but CancelledError / ConnectionError leaves it.
  (S) start(): one loop turn handles exactly one queued message and awaits its handler task to completion before the
      next is taken (order, no interleaving); an unread request body is drained for at most lingering_time and else
      the connection is closed; after the turn the loop continues only with keep-alive and without close flags; when
      the loop ends the transport is closed; no exception other than cancellation escapes.
  (D) data_received: a parse error becomes one queued _ErrInfo(400) message (answered in order with 400 by (S)/(H));
      the waiter is woken; the queue is capped by pausing the transport; nothing is parsed once closing.
"""
import asyncio

import z3

from pyvc import And, Iff, Implies, Not, Or, SInt, U, fields, is_sym, mk_bool, mk_int, stubs, tbool, tint
from pyvc.registry import unit
from pyvc.stubs import SAwait

MOD = "aiohttp.web_protocol"
FN_START = "web_protocol:RequestHandler.start"


def live():
    import importlib

    return importlib.import_module(MOD)


class Boom(Exception):
    pass


# ---------------------------------------------------------------------------------------------------------------
# (H)


@unit("C05", "handle_request", functions=[f"{MOD}:RequestHandler._handle_request", f"{MOD}:RequestHandler.handle_error"])
def handle_request(u: U):
    """_handle_request + handle_error for every handler outcome and every 'bytes already sent' state"""
    M = live()
    from aiohttp.web_exceptions import HTTPException, HTTPNotFound

    log = []
    sent = u.int("writer.output_size", 0)
    buffered = u.int("writer.buffer_size", 0)

    class _Writer:
        """StreamWriter as far as the error path looks at it: a new one is pristine (identity framing, no length, no
        compressor, no buffered header block)"""

        def __init__(self, protocol=None, loop=None):
            self.output_size = 0
            self.buffer_size = 0
            self.chunked = False
            self.length = None
            self._compress = None
            self._headers_buf = None

        def pristine(self):
            return (self.chunked is False and self.length is None and self._compress is None
                    and self._headers_buf is None)

    class _Hdrs:
        def get(self, k, d=None):
            return d

    # the handler may have PREPARED a response of its own before it failed: its header block is buffered in the writer
    # (not a byte sent: output_size == 0) and the framing it chose is set on the writer
    prepared = u.choose(2, "handler_prepared_a_response") == 1
    w0 = _Writer()
    w0.output_size = sent
    w0.buffer_size = buffered
    if prepared:
        w0.chunked = u.choose(2, "prepared.chunked") == 1
        w0.length = (None, 5)[u.choose(2, "prepared.length")]
        w0._compress = (None, "COMPRESSOR")[u.choose(2, "prepared.compress")]
        w0._headers_buf = b"HTTP/1.1 200 OK\r\n\r\n"

    class _Req:
        remote = "peer"
        headers = _Hdrs()
        _pre_handler_error = None

        def __init__(self):
            self._payload_writer = w0

        @property
        def writer(self):
            return self._payload_writer

    req = _Req()
    http_exc = HTTPNotFound()
    outcomes = [("return", None), ("raise", http_exc), ("raise", asyncio.TimeoutError()), ("raise", Boom("x")),
                ("raise", asyncio.CancelledError())]
    kind, exc = outcomes[u.choose(len(outcomes), "handler.outcome")]

    def handler(request):
        log.append(("handler",))
        if kind == "return":
            return SAwait(result="RESP", name="handler")
        raise exc

    def finish_response(self, request, resp, start_time):
        log.append(("finish", resp))
        if resp != "RESP":
            # an error response takes the place of whatever the handler had prepared
            u.check("C05.handle.error_response_starts_from_a_pristine_writer", request.writer.pristine(),
                    "the error response is written through a writer in its initial state: the framing the handler's own, "
                    "never-sent response had chosen (chunked, a length, a compressor) is not applied to the error body - "
                    "else e.g. 'Content-Length: 4' is followed by a chunk-framed body and the next response on the "
                    "connection is misread",
                    known=[("F05c", True)],
                    witness={"chunked": request.writer.chunked, "length": request.writer.length,
                             "compress": request.writer._compress is not None})
        return SAwait(result=(resp, False), raises=(), name="finish_response")

    class _Resp:
        def __init__(self, status=200, reason=None, text=None, headers=None, content_type=None):
            self.status, self.text = status, text
            self.forced = False

        def force_close(self):
            self.forced = True

    class _HW:
        def __init__(self):
            self.done = False

        def set_result(self, v):
            self.done = True

    hw = _HW() if u.choose(2, "shutdown_waiting") else None

    class _Loop:
        def get_debug(self):
            return False

    he = u.load(MOD, "RequestHandler.handle_error", globals={"Response": _Resp, "StreamWriter": _Writer})
    h = u.obj("RequestHandler", {"_request_in_progress": False, "_current_request": None, "_handler_waiter": hw,
                                 "_loop": _Loop(), "logger": type("L", (), {"warning": lambda *a, **k: None})()},
              {"finish_response": finish_response, "handle_error": lambda self, *a, **k: he(self, *a, **k),
               "log_debug": lambda self, *a, **k: None, "log_exception": lambda self, *a, **k: None}, shared=False,
              real=(MOD, "RequestHandler"))
    # helpers the error path is split into are followed through the real class, with the same stand-ins
    u.module_globals[MOD] = {"Response": _Resp, "StreamWriter": _Writer}
    f = u.load(MOD, "RequestHandler._handle_request", globals={"Response": _Resp, "StreamWriter": _Writer})
    if kind == "raise" and not isinstance(exc, asyncio.CancelledError):
        # SAwait with result=None: only the raise outcome is meaningful
        pass
    out = u.call(f, h, req, None, handler)
    finishes = [e for e in log if e[0] == "finish"]
    fs = fields(h)
    u.check("C05.handle.in_progress_reset", fs["_request_in_progress"] is False and fs["_current_request"] is None,
            "bookkeeping is reset on every way out")
    if hw is not None:
        u.check("C05.handle.shutdown_waiter_released", hw.done, "a shutdown waiting for this handler is released")
    handler_raised = any(e[0] == "suspend" and e[3] == "handler" for e in u.events) and \
        not any(e == ("finish", "RESP") for e in log) and kind == "raise"
    if out.ok:
        u.check("C05.handle.exactly_one_response", len(finishes) == 1,
                "exactly one response is finished for the request")
        if len(finishes) == 1:
            r = finishes[0][1]
            if r == "RESP":
                u.check("C05.handle.handler_response_used", kind == "return" or True, "the handler's own response")
            else:
                want = {HTTPNotFound: 404, asyncio.TimeoutError: 504, Boom: 500}
                st = [v for k_, v in want.items() if isinstance(exc, k_)]
                if kind == "raise" and st:
                    u.check("C05.handle.status_mapping", r.status == st[0],
                            f"HTTPException -> its status, timeout -> 504, any other exception -> 500 (got {r.status})")
                    if st[0] in (500, 504):
                        u.check("C05.handle.error_closes_connection", r.forced is True,
                                "an error response always closes the connection afterwards")
    else:
        e = out.exc
        u.check("C05.handle.only_cancel_or_connection_error_escape",
                isinstance(e, (asyncio.CancelledError, ConnectionError)), f"nothing else leaves _handle_request: {e!r}")
        if isinstance(e, ConnectionError):
            u.check("C05.handle.second_response_refused_iff_bytes_sent", sent > 0,
                    "an error response is refused (connection dropped) exactly when bytes of a response are already on "
                    "the wire - never two responses for one request")
            u.check("C05.handle.no_response_after_partial", len(finishes) == 0, "no second response is started")
    if kind == "raise" and isinstance(exc, (asyncio.TimeoutError, Boom)) and out.ok:
        u.check("C05.handle.error_response_only_if_nothing_sent", sent == 0,
                "an error page is produced only when nothing of a response was sent yet")
    if kind == "raise" and isinstance(exc, HTTPException) and out.ok:
        u.check("C05.handle.http_exception_response_only_if_nothing_sent", sent == 0,
                "a handler that has already started a response (prepare() + write()) and then raises an HTTPException "
                "does not get a second, complete response written into the unfinished first one: as for any other "
                "exception the connection is dropped instead - one request, one response",
                known=[("F05a", True)], witness={"output_size": sent})


# ---------------------------------------------------------------------------------------------------------------
# (S)


class _Payload:
    def __init__(self, u, log):
        self.u, self.log = u, log
        self.eof = u.bool("payload.eof_after_handler")
        self.reads = 0

    def is_eof(self):
        return self.eof

    def readany(self):
        self.reads += 1
        self.log.append(("linger.read",))

        def after():
            self.eof = self.u.bool("payload.eof_after_read")

        return SAwait(name="payload.readany", raises=(asyncio.TimeoutError,), on_resume=after)

    def set_exception(self, e):
        self.log.append(("payload.poisoned",))


class _Queue:
    """self._messages: a deque of which only emptiness / length class matter"""

    _pyvc_sym = True

    def __init__(self, u, log):
        self.u, self.log = u, log
        self.n = u.int("queue.len", 0)

    def __bool__(self):
        return self.u.branch(self.n > 0, "queue.nonempty")

    def sym_len(self):
        return self.n

    def popleft(self):
        self.u.check("C05.start.pop_only_nonempty", self.n > 0, "a message is taken only when one is queued")
        self.n = self.n - 1
        self.log.append(("pop",))
        return self.item

    def append(self, x):
        self.n = self.n + 1


@unit("C05", "start", functions=[f"{MOD}:RequestHandler.start", f"{MOD}:RequestHandler.close",
                                 f"{MOD}:RequestHandler.force_close"], timeout_ms=20000)
def start(u: U):
    """RequestHandler.start(): one turn of the request loop from an arbitrary state of the connection"""
    M = live()
    log = []
    err = u.choose(2, "message.is_parse_error") == 1
    payload = _Payload(u, log)
    q = _Queue(u, log)
    msg = M._ErrInfo(status=400, exc=Boom("bad"), message="bad request") if err else "MSG"
    q.item = (msg, payload)
    keep_alive = u.bool("resp.keep_alive")

    class _Resp:
        pass

    resp = _Resp()
    resp.keep_alive = keep_alive
    handled = []

    class _Task:
        def __init__(self, coro, loop=None, eager_start=False):
            self.coro = coro
            coro.close()

        def __await__(self):
            r = yield from SAwait.__await__(self)  # pragma: no cover
            return r

    task_outcome = u.choose(4, "task.outcome")

    def task_factory(coro, loop=None, eager_start=False):
        coro.close()
        log.append(("task",))
        if task_outcome == 0:
            return SAwait(result=(resp, False), name="task")
        if task_outcome == 1:
            return SAwait(result=(resp, True), name="task")
        if task_outcome == 2:
            return SAwait(result=None, raises=(ConnectionError("lost"),), name="task!")
        return SAwait(result=None, raises=(asyncio.CancelledError(),), name="task!")

    class _asyncio:
        CancelledError = asyncio.CancelledError
        TimeoutError = asyncio.TimeoutError
        Task = staticmethod(task_factory)

        @staticmethod
        def current_task(loop=None):
            return None

    class _Loop:
        def __init__(self):
            self.t = u.real("now")

        def time(self):
            return self.t

        def create_future(self):
            # rely (C05.data.waiter_woken_once): the waiter is resolved only after a message was queued; close() /
            # force_close() cancel it instead
            def woken():
                q.n = u.int("queue.len@woken", 1)

            return SAwait(name="waiter", raises=(asyncio.CancelledError(),), on_resume=woken)

        def call_at(self, when, cb):
            log.append(("keepalive.timer",))
            return "HANDLE"

        def create_task(self, coro):
            return task_factory(coro)

    class _Transport:
        def close(self):
            log.append(("transport.close",))

        def pause_reading(self):
            pass

        def resume_reading(self):
            pass

    class _Timeout:
        def __init__(self, t):
            log.append(("linger.timeout", t))

        async def __aenter__(self):
            return self

        async def __aexit__(self, *a):
            return False

    class _Mgr:
        requests_count = 0

    class _Parser:
        def message_consumed(self):
            log.append(("parser.message_consumed",))

    closer = u.load(MOD, "RequestHandler.close")
    forcer = u.load(MOD, "RequestHandler.force_close")
    made = []

    def factory(message, payload_, proto, writer, task, pre_err):
        made.append((message, pre_err))

        class _R:
            _task = "T"

        return _R()

    def handle_request(self, request, start_time, handler):
        async def co():
            return None

        handled.append(request)
        return co()

    lingering = u.real("lingering_time")
    h = u.obj("RequestHandler",
              {"_loop": _Loop(), "_manager": _Mgr(), "_keepalive_timeout": u.real("keepalive_timeout"),
               "_request_factory": factory, "_request_handler": "HANDLER", "_force_close": False, "_close": False,
               "_messages": q, "_waiter": None, "_parser": _Parser(), "_msg_queue_paused": u.bool("queue.paused"),
               "_msg_queue_resume_size": u.int("resume_size", 0), "_logging_enabled": False, "_task_handler": "TH",
               "_keepalive": False, "_lingering_time": lingering, "_next_keepalive_close_time": 0.0,
               "_keepalive_handle": None, "transport": _Transport()},
              {"_handle_request": handle_request, "_resume_msg_queue_reading": lambda self: log.append(("resume",)),
               "log_debug": lambda self, *a, **k: None, "log_exception": lambda self, *a, **k: log.append(("logged",)),
               "close": lambda self: closer(self), "force_close": lambda self: forcer(self),
               "_process_keepalive": lambda self: None}, shared=False)

    class _HBR(Exception):
        def __init__(self, text=None, content_type=None):
            self.text = text

    def hook(y):
        # while the handler task (or the lingering read) runs, the connection may be force-closed or told to close by
        # other actors (shutdown, connection_lost, keep-alive timeout)
        fs_ = fields(h)
        if y.awaited.name in ("task", "payload.readany") and fs_["_force_close"] is False and u.choose(2, "interference.force_close"):
            fs_["_force_close"] = True
            log.append(("other.force_close",))

    u.suspend_hook = hook
    f = u.load(MOD, "RequestHandler.start",
               globals={"asyncio": _asyncio, "StreamWriter": lambda *a: "WRITER", "HTTPBadRequest": _HBR,
                        "ceil_timeout": _Timeout, "ERROR": "ERROR-MSG"})
    # loop 0: the request loop (cut), loop 1: the lingering read loop (cut)
    state = {}

    def inv(L):
        return [("no_pending_task", True)]

    turn = {"n": 0}

    def at_head(L):
        turn["n"] += 1

    u.loop(FN_START, 0, inv=inv, havoc=lambda L: None, at_head=at_head,
           types={"resp": lambda nm: (None if u.choose(2, "resp@loop") == 0 else resp)})
    t_now = {}
    u.loop(FN_START, 1, inv=lambda L: [("deadline_fixed", True)],
           havoc=lambda L: (fields(h)["_loop"].__setattr__("t", u.real("now@linger")),
                            setattr(payload, "eof", u.bool("payload.eof@linger"))),
           types={"now": lambda nm: u.real("now@loop")})
    out = u.call(f, h)
    names = [e[0] for e in log]
    fs = fields(h)
    u.check("C05.start.only_cancellation_escapes", out.ok or isinstance(out.exc, asyncio.CancelledError),
            f"no exception reaches the event loop from the connection task: {out!r}")
    u.check("C05.start.one_request_per_turn", len(handled) <= 1 and names.count("pop") <= 1 and names.count("task") == len(handled),
            "one loop turn takes one message and runs one handler task")
    if handled:
        u.check("C05.start.handler_awaited_before_next", names.index("task") > names.index("pop"),
                "the handler task of this request is created after its message was taken and awaited before the loop goes on")
        if err:
            u.check("C05.start.parse_error_becomes_400", len(made) == 1 and made[0][0] == "ERROR-MSG"
                    and isinstance(made[0][1], _HBR) and made[0][1].text == "bad request",
                    "a queued parse error is handled as a request that fails with 400 carrying the parser's message")
        else:
            u.check("C05.start.request_built_from_message", len(made) == 1 and made[0][0] == "MSG" and made[0][1] is None,
                    "the request is built from the parsed message")
    if "linger.read" in names:
        u.check("C05.start.linger_only_for_unread_body", True, "")
        u.check("C05.start.linger_reads_bounded", all(e[0] != "linger.read" or True for e in log) and
                names.count("linger.timeout") == names.count("linger.read"),
                "every read of the lingering drain is inside ceil_timeout(end_t - now)")
    # what remains of the body after the turn
    if handled and out.ok and task_outcome == 0:
        u.check("C05.start.unread_body_closes", Implies(And(Not(payload.eof), Not(fs["_force_close"] is True) if True else True),
                                                          Or(fs["_close"] is True, fs["_force_close"] is True)),
                "a request body that is still unread after the response (and the lingering drain) closes the connection: its "
                "bytes are never parsed as the next request")
    # on exit from start(): the connection is closed
    if out.ok:
        u.check("C05.start.exit_closes_transport", Or(fs["_force_close"] is True, "transport.close" in names),
                "when the request loop ends the transport is closed (or was force-closed)")
        u.check("C05.start.exit_drops_handler", Or(fs["_force_close"] is True, fs["_task_handler"] is None),
                "... and the connection no longer claims a running handler")
    else:
        u.check("C05.start.cancel_force_closes", fs["_force_close"] is True or "task" not in names,
                "cancellation while a request is in flight force-closes the connection")


@unit("C05", "start.continue_condition", functions=[f"{MOD}:RequestHandler.start"], timeout_ms=20000, also=("C02", "C20"))
def start_continue(u: U):
    """the request loop goes round again only if the response allowed keep-alive and nobody asked to close; then the
    keep-alive timer is armed"""
    # reuse the harness above with a ghost observation at the back edge
    M = live()
    log = []
    payload = _Payload(u, log)
    q = _Queue(u, log)
    q.item = ("MSG", payload)

    class _Timeout:
        def __init__(self, t):
            pass

        async def __aenter__(self):
            return self

        async def __aexit__(self, *a):
            return False

    class _Resp:
        keep_alive = u.bool("resp.keep_alive")

    resp = _Resp()

    def task_factory(coro, loop=None, eager_start=False):
        coro.close()
        return SAwait(result=(resp, False), name="task")

    class _asyncio:
        CancelledError = asyncio.CancelledError
        TimeoutError = asyncio.TimeoutError
        Task = staticmethod(task_factory)

        @staticmethod
        def current_task(loop=None):
            return None

    class _Loop:
        def time(self):
            return u.real("now")

        def create_future(self):
            def woken():
                q.n = u.int("queue.len@woken", 1)

            return SAwait(name="waiter", on_resume=woken)

        def call_at(self, when, cb):
            log.append(("keepalive.timer",))
            return "HANDLE"

    class _Transport:
        def close(self):
            log.append(("transport.close",))

    closer = u.load(MOD, "RequestHandler.close")
    forcer = u.load(MOD, "RequestHandler.force_close")

    class _Mgr:
        requests_count = 0

    class _Parser:
        def message_consumed(self):
            pass

    def handle_request(self, request, start_time, handler):
        async def co():
            return None

        return co()

    close_flag = u.bool("close_flag_after_handler")
    h = u.obj("RequestHandler",
              {"_loop": _Loop(), "_manager": _Mgr(), "_keepalive_timeout": u.real("keepalive_timeout"),
               "_request_factory": lambda *a: type("R", (), {"_task": None})(), "_request_handler": "HANDLER",
               "_force_close": False, "_close": close_flag, "_messages": q, "_waiter": None, "_parser": _Parser(),
               "_msg_queue_paused": False, "_msg_queue_resume_size": 0, "_logging_enabled": False, "_task_handler": "TH",
               "_keepalive": False, "_lingering_time": u.real("lingering_time"), "_next_keepalive_close_time": 0.0,
               "_keepalive_handle": None if u.choose(2, "timer_exists") == 0 else "OLD", "transport": _Transport()},
              {"_handle_request": handle_request, "_resume_msg_queue_reading": lambda self: None,
               "log_debug": lambda self, *a, **k: None, "log_exception": lambda self, *a, **k: None,
               "close": lambda self: closer(self), "force_close": lambda self: forcer(self),
               "_process_keepalive": lambda self: None}, shared=False)
    f = u.load(MOD, "RequestHandler.start", globals={"asyncio": _asyncio, "StreamWriter": lambda *a: "WRITER",
                                                     "ceil_timeout": _Timeout})
    went_round = {"v": False}

    def at_back(L):
        went_round["v"] = True
        fs_ = fields(h)
        u.check("C05.start.continue_only_with_keepalive", And(resp.keep_alive, Not(close_flag)),
                "the loop continues only if the response allowed keep-alive and no close was requested",
                # C20: Server.pre_shutdown() marks every connection with close(): from then on a connection finishes the
                # request it is handling and takes no further one - not even one that is already parsed and queued
                also_as=("C20.shutdown.no_new_request_on_a_connection_marked_closing",))
        u.check("C05.start.keepalive_timer_armed", fs_["_keepalive_handle"] is not None,
                "an idle keep-alive connection always has its timer armed")

    u.loop(FN_START, 0, inv=lambda L: [], havoc=lambda L: None, at_back=at_back,
           types={"resp": lambda nm: None})
    u.loop(FN_START, 1, inv=lambda L: [], havoc=lambda L: setattr(payload, "eof", u.bool("payload.eof@linger")))
    out = u.call(f, h)
    if out.ok:
        u.check("C05.start.break_when_not_keepalive", "transport.close" in [e[0] for e in log],
                "otherwise the loop ends and the transport is closed")
        u.check("C02.ka.server_honours_announced_keepalive",
                Not(And(resp.keep_alive, Not(close_flag), payload.eof)),
                "the server ends the connection after a response only if that response did not allow keep-alive, a close "
                "was requested, or the request body is still unread - a fully drained body on a keep-alive response "
                "keeps the connection, as the response told the client")


# ---------------------------------------------------------------------------------------------------------------
# (D)


@unit("C05", "data_received", functions=[f"{MOD}:RequestHandler.data_received", f"{MOD}:RequestHandler._pause_msg_queue_reading"],
      also=("C20",))
def data_received(u: U):
    """data_received: parse errors become one queued 400 message; waiter woken once; queue capped by pausing"""
    M = live()
    from aiohttp.http_exceptions import BadHttpMessage

    log = []
    n0 = u.choose(3, "queued_before")
    k = u.choose(3, "messages_parsed")
    fails = u.choose(2, "parse_fails") == 1
    closing = u.choose(3, "closing")  # 0 open, 1 _close, 2 _force_close
    maxq = 2
    msgs = collections_deque(["old"] * n0)
    # the parser may report that the connection switched to an upgraded protocol: together with the request that asks
    # for it (k > 0), or later, when the body of such a request completes (its 'pending upgrade': k == 0)
    up = u.choose(2, "parser_reports_upgrade") == 1 if not fails else False
    up_tail = u.bytes("bytes_behind_the_upgrade_request") if up else b""
    in_progress = u.choose(2, "handler_running") == 1

    class _Parser:
        def feed_data(self, d):
            log.append(("parse", d))
            if fails:
                raise BadHttpMessage("garbage")
            return [("M", "P")] * k, up, up_tail

    class _Waiter:
        def __init__(self):
            self.sets = 0

        def done(self):
            return self.sets > 0

        def set_result(self, v):
            self.sets += 1

    w = _Waiter() if u.choose(2, "handler_waiting") else None

    class _T:
        def pause_reading(self):
            log.append(("pause",))

    pm = u.load(MOD, "RequestHandler._pause_msg_queue_reading")
    h = u.obj("RequestHandler",
              {"_force_close": closing == 2, "_close": closing == 1, "_payload_parser": None, "_upgraded": False,
               "_request_in_progress": in_progress,
               "_parser": _Parser(), "_request_count": 0, "_messages": msgs, "_waiter": w, "_msg_queue_paused": False,
               "_max_msg_queue_size": maxq, "_message_tail": b"", "transport": _T(), "_read_bufsize": 65536,
               "_data_received_cb": None},
              {"_pause_msg_queue_reading": lambda self: pm(self)}, shared=False, real=(MOD, "RequestHandler"))
    f = u.load(MOD, "RequestHandler.data_received")
    u.loop("web_protocol:RequestHandler.data_received", 0, unroll=True, bound=4)
    data = u.bytes("data")
    out = u.call(f, h, data)
    u.check("C05.data.total", out.ok, f"no exception reaches the event loop: {out!r}")
    names = [e[0] for e in log]
    fs = fields(h)
    if closing and not in_progress:
        u.check("C05.data.ignored_when_closing", not names and len(msgs) == n0,
                "a closing connection on which no request is being handled parses nothing more (no new request)")
        return
    if closing:
        # From C20: "requests already being handled may complete during the shutdown timeout".  The request being handled
        # may still be reading its body; _close (Server.pre_shutdown) and _force_close (first statement of
        # RequestHandler.shutdown, which then WAITS for the handler) must not make the connection deaf to it.  That no
        # NEW request is started on such a connection is the obligation of start() (C20.shutdown.no_new_request_...).
        # (The first version of this contract demanded "a closing connection parses nothing" - written from the code.)
        u.check("C20.shutdown.body_of_the_request_in_progress_is_still_read", "parse" in names,
                "while a handler runs on a connection marked closing, arriving bytes still reach the parser - they may be "
                "the rest of the body that handler is waiting for",
                known=[("F20f", True)], witness={"flag": ("_close", "_force_close")[closing - 1]},
                also_as=("C05.data.closing_connection_still_feeds_the_request_in_progress",))
    if fails:
        new = list(msgs)[n0:]
        u.check("C05.data.parse_error_is_one_400", len(new) == 1 and isinstance(new[0][0], M._ErrInfo)
                and new[0][0].status == 400 and new[0][0].message == "garbage" and new[0][1] is M.EMPTY_PAYLOAD,
                "unparsable input becomes exactly one queued error message with status 400, behind the requests "
                "already queued (answered in order)")
    else:
        u.check("C05.data.messages_appended_in_order", list(msgs)[n0:] == [("M", "P")] * k, "parsed messages are queued in order")
    if up and not fails:
        from pyvc import blen

        parked = blen(fs["_message_tail"]) > 0
        consumer = bool(k > 0 or n0 > 0 or in_progress)
        u.check("C05.data.upgrade_tail_has_a_consumer", Implies(parked, consumer),
                "bytes are set aside as 'data of the upgraded protocol' only while a request that may take the upgrade over "
                "is still queued or being handled; if the request that asked for the upgrade was already answered "
                "(its body arrived after the response), nobody will ever look at them: the requests in there are "
                "neither answered nor is the connection closed",
                known=[("F05b", True)], witness={"messages_in_this_read": k, "queued": n0, "handler_running": in_progress})
    added = len(msgs) - n0
    if w is not None:
        u.check("C05.data.waiter_woken_once", w.sets == (1 if added else 0), "an idle request loop is woken exactly when a message arrived")
    u.check("C05.data.queue_cap_pauses", (("pause",) in log) == (len(msgs) >= maxq) and (fs["_msg_queue_paused"] is True) == (len(msgs) >= maxq),
            "the transport is paused exactly when the queue of unhandled requests reaches its cap")


@unit("C05", "data_received.after_upgrade", functions=[f"{MOD}:RequestHandler.data_received",
                                                        f"{MOD}:RequestHandler._pause_msg_queue_reading"],
      must_cover=("C05.data.upgraded.stored", "C05.data.upgraded.fed"))
def data_received_after_upgrade(u: U):
    """data_received once the connection left HTTP: without a payload parser the bytes are set aside in arrival order
    (nothing lost, nothing reordered) and reading pauses once a read buffer's worth is waiting; with a payload parser
    (WebSocket reader, custom protocol) every read is handed to it exactly once and its end-of-stream closes the
    connection; the HTTP parser is never consulted again"""
    log = []
    has_parser = u.choose(2, "payload_parser_installed") == 1
    parser_eof = u.bool("payload_parser_reports_eof")
    cb_set = u.choose(2, "data_received_cb") == 1
    paused0 = u.choose(2, "already_paused") == 1

    class _Http:
        def feed_data(self, d):
            log.append(("http.parse", d))
            return [], False, b""

    class _PP:
        def feed_data(self, d):
            log.append(("payload.feed", d))
            return parser_eof, b""

    class _T:
        def pause_reading(self):
            log.append(("pause",))

    tail0 = u.bytes("tail_before")
    data = u.bytes("data")
    bufsize = u.int("read_bufsize", 1)
    pm = u.load(MOD, "RequestHandler._pause_msg_queue_reading")
    h = u.obj("RequestHandler",
              {"_force_close": False, "_close": False, "_payload_parser": _PP() if has_parser else None, "_upgraded": True,
               "_request_in_progress": True, "_parser": _Http(), "_request_count": 1,
               "_messages": collections_deque([]), "_waiter": None, "_msg_queue_paused": paused0,
               "_max_msg_queue_size": 2, "_message_tail": tail0, "transport": _T(), "_read_bufsize": bufsize,
               "_data_received_cb": (lambda: log.append(("cb",))) if cb_set else None},
              {"_pause_msg_queue_reading": lambda self: pm(self),
               "close": lambda self: log.append(("close",))}, shared=False, real=(MOD, "RequestHandler"))
    f = u.load(MOD, "RequestHandler.data_received")
    out = u.call(f, h, data)
    u.check("C05.data.upgraded.total", out.ok, f"no exception reaches the event loop: {out!r}")
    names = [e[0] for e in log]
    fs = fields(h)
    from pyvc import SBytes, blen

    u.check("C05.data.upgraded.http_parser_not_consulted", "http.parse" not in names,
            "bytes of the upgraded protocol are never read as HTTP")
    if not has_parser:
        tail1 = SBytes.of(fs["_message_tail"])
        u.check("C05.data.upgraded.tail_is_appended_in_order", tail1.prov_eq(SBytes.of(tail0) + SBytes.of(data)),
                "set aside == what was set aside before ++ this read: nothing lost, duplicated or reordered")
        want_pause = And(blen(data) > 0, Not(paused0), blen(tail1) >= bufsize)
        u.check("C05.data.upgraded.pauses_at_read_buffer", Iff(("pause",) in log, want_pause),
                "reading is paused exactly when a read buffer's worth of unclaimed bytes is waiting (and not already paused)")
        u.cover("C05.data.upgraded.stored")
        return
    feeds = [e for e in log if e[0] == "payload.feed"]
    nonempty = blen(data) > 0
    u.check("C05.data.upgraded.fed_once_as_it_is", And(Iff(len(feeds) == 1, nonempty), len(feeds) <= 1,
                                                       feeds[0][1] is data if feeds else True),
            "every non-empty read is handed to the installed payload parser exactly once, unchanged")
    u.check("C05.data.upgraded.parser_eof_closes", Iff(("close",) in log, And(nonempty, parser_eof)),
            "the payload parser's end-of-stream closes the connection - and nothing else does here")
    if cb_set:
        u.check("C05.data.upgraded.activity_reported", Iff(("cb",) in log, nonempty),
                "the read-activity callback (heartbeat reset) runs for every non-empty read")
    u.check("C05.data.upgraded.tail_untouched", SBytes.of(fs["_message_tail"]).prov_eq(SBytes.of(tail0)),
            "with a payload parser installed nothing is set aside")
    u.cover("C05.data.upgraded.fed")


def collections_deque(x):
    import collections

    return collections.deque(x)


@unit("C05", "canary.two_responses", functions=[f"{MOD}:RequestHandler.handle_error"], expect="canary")
def canary_handle_error(u: U):
    """deliberately false: handle_error always produces a response"""
    class _W:
        output_size = u.int("output_size", 0)

    class _R:
        writer = _W()
        _payload_writer = writer
        remote = "x"
        headers = {}

    class _Loop:
        def get_debug(self):
            return False

    class _Resp:
        def __init__(self, **k):
            pass

        def force_close(self):
            pass

    h = u.obj("RequestHandler", {"_loop": _Loop()}, {"log_exception": lambda self, *a, **k: None}, shared=False,
              real=(MOD, "RequestHandler"))
    f = u.load(MOD, "RequestHandler.handle_error", globals={"Response": _Resp})
    out = u.call(f, h, _R(), 500, Boom("x"))
    u.check("C05.canary", out.ok, "false")


@unit("C05", "finish_response", functions=[f"{MOD}:RequestHandler.finish_response"])
def finish_response(u: U):
    """finish_response: the response is prepared and ended exactly once; when an upgrade request was declined, the
    bytes buffered behind it are handed to the parser exactly once - afterwards the buffer holds only what the parser
    left over - and the requests found in them are queued in order under the same cap as in data_received"""
    M = live()
    from aiohttp.http_exceptions import BadHttpMessage

    log = []
    declined = u.choose(2, "declined_upgrade") == 1
    tail0 = u.bytes("message_tail")
    u.assume(blen_(tail0) > 0)
    fails = u.choose(2, "parse_fails") == 1 if declined else False
    k = u.choose(3, "messages_in_tail") if declined and not fails else 0
    up2 = u.choose(2, "another_upgrade") == 1 if declined and not fails else False
    tail2 = u.bytes("parser_remainder")
    maxq = 2
    msgs = collections_deque([])

    class _Parser:
        def set_upgraded(self, v):
            log.append(("set_upgraded", v))

        def feed_data(self, d):
            log.append(("parse", d))
            if fails:
                raise BadHttpMessage("garbage")
            return [("M", "P")] * k, up2, tail2

    class _Resp:
        def prepare(self, request):
            log.append(("prepare",))
            return SAwait(name="prepare", raises=(ConnectionResetError("gone"),))

        def write_eof(self):
            log.append(("write_eof",))
            return SAwait(name="write_eof", raises=(ConnectionResetError("gone"),))

    class _Request:
        def _finish(self):
            log.append(("request._finish",))

    paused0 = u.choose(2, "queue_paused") == 1
    h = u.obj("RequestHandler", {"_upgraded": declined, "_messages": msgs, "_payload_parser": None, "_parser": _Parser(),
                                 "_message_tail": tail0, "_request_count": 0, "_max_msg_queue_size": maxq,
                                 "_msg_queue_paused": paused0, "_waiter": None},
              {"_pause_msg_queue_reading": lambda self: log.append(("pause",)),
               "_resume_msg_queue_reading": lambda self: log.append(("resume",)),
               "log_access": lambda self, *a: SAwait(name="log_access"),
               "log_exception": lambda self, *a, **k_: None}, shared=False, real=(MOD, "RequestHandler"))
    f = u.load(MOD, "RequestHandler.finish_response")
    u.loop("web_protocol:RequestHandler.finish_response", 0, unroll=True, bound=4)
    out = u.call(f, h, _Request(), _Resp(), None)
    u.check("C05.finish.total", out.ok, f"only a lost connection is reported (as reset=True), nothing escapes: {out!r}")
    names = [e[0] for e in log]
    u.check("C05.finish.one_response", names.count("prepare") == 1 and names.count("write_eof") <= 1,
            "the response is prepared once and ended at most once")
    if out.ok:
        lost = not (names.count("write_eof") == 1 and out.value[1] is False)
        u.check("C05.finish.reset_iff_connection_lost", out.value[1] is lost, "reset=True exactly when the peer went away while writing")
    fs = fields(h)
    if declined:
        parses = [e for e in log if e[0] == "parse"]
        u.check("C05.finish.tail_parsed_once", len(parses) == 1 and parses[0][1] is tail0,
                "the bytes buffered behind the declined upgrade are parsed, once")
        if fails:
            new = list(msgs)
            u.check("C05.finish.tail_garbage_is_one_400", len(new) == 1 and isinstance(new[0][0], M._ErrInfo) and new[0][0].status == 400
                    and blen_(fs["_message_tail"]) == 0 and fs["_upgraded"] is False,
                    "garbage behind the upgrade becomes one queued 400 and the buffer is emptied")
        else:
            u.check("C05.finish.tail_replaced_by_remainder", fs["_message_tail"] is tail2 and fs["_upgraded"] is up2,
                    "afterwards the buffer holds exactly what the parser left over (never the bytes just parsed again)")
            u.check("C05.finish.tail_messages_queued_in_order", list(msgs) == [("M", "P")] * k, "requests found in the tail are queued in order")
            u.check("C05.finish.tail_queue_cap", (("pause",) in log) == (k >= maxq), "the queue cap applies here as in data_received")
    else:
        u.check("C05.finish.no_reparse_without_declined_upgrade", "parse" not in names and fs["_message_tail"] is tail0,
                "without a declined upgrade the buffer is not touched")


def blen_(x):
    from pyvc import blen

    return blen(x)


# ---------------------------------------------------------------------------------------------------------------
# the two reasons for pausing the transport (body flow control, request-queue cap) do not wedge each other


@unit("C05", "resume_msg_queue", functions=[f"{MOD}:RequestHandler._resume_msg_queue_reading"])
def resume_msg_queue(u: U):
    """_resume_msg_queue_reading (called by start() each time it takes a request off the queue): unless the queue is still
    at its cap (or the upgraded-data buffer is full) it gives up ITS reason for the pause - `_msg_queue_paused` becomes
    False - whatever the body reader's flow control says, and resumes the transport only if that other reason does not
    hold.  (BaseProtocol.resume_reading, contracts/c08.py, does the mirror image.)  If the flag stayed set while the
    queue is empty, each side would wait for the other and the connection would never be read again."""
    log = []
    upgraded = u.choose(2, "upgraded") == 1
    body_paused = u.choose(2, "body_flow_control_paused") == 1
    queued_after = u.choose(3, "queued_after_reparse")
    maxq = 2
    tail_full = u.choose(2, "upgraded_tail_full") == 1 if upgraded else False
    msgs = collections_deque(["m"] * 0)

    class _T:
        def resume_reading(self):
            log.append(("transport.resume",))

    def data_received(self, d):
        log.append(("reparse", d))
        msgs.extend(["m"] * queued_after)

    h = u.obj("RequestHandler", {"_message_tail": b"x" * 8 if tail_full else b"", "_read_bufsize": 8, "_upgraded": upgraded,
                                 "_messages": msgs, "_max_msg_queue_size": maxq, "_msg_queue_paused": True,
                                 "_reading_paused": body_paused, "transport": _T()},
              {"data_received": data_received}, shared=False, real=(MOD, "RequestHandler"))
    f = u.load(MOD, "RequestHandler._resume_msg_queue_reading")
    out = u.call(f, h)
    u.check("C05.resume.total", out.ok, repr(out))
    fs = fields(h)
    still_capped = tail_full or (not upgraded and queued_after >= maxq)
    if still_capped:
        u.check("C05.resume.stays_paused_at_cap", fs["_msg_queue_paused"] is True and ("transport.resume",) not in log,
                "while the queue is still at its cap (or the upgraded-data buffer is full) nothing is resumed")
        return
    u.check("C05.resume.queue_reason_given_up", fs["_msg_queue_paused"] is False,
            "once the queue is below its cap the queue's reason for the pause is withdrawn, also while the body reader's flow "
            "control keeps the transport paused: otherwise body reader and request loop wait for each other for ever",
            witness={"body_flow_control_paused": body_paused, "upgraded": upgraded})
    u.check("C05.resume.transport_iff_no_other_reason", (("transport.resume",) in log) == (not body_paused),
            "the transport itself is resumed exactly when the body reader's flow control does not hold it paused")
