"""C12 - WebSocket reader enforces the protocol and its size bounds.

Functions under contract (real text, re-read every run):
  aiohttp/_websocket/reader_py.py: WebSocketReader.__init__, feed_data, _feed_data, _handle_frame
Spec side: specs/rfc6455.py
"""
import z3

from pyvc import (And, Iff, Implies, Ite, Not, Or, SBytes, SInt, SOpt, SSeq, U, blen, fields, is_none, is_sym, stubs,
                  tint)
from pyvc.registry import unit
from specs import rfc6455 as rfc

MOD = "aiohttp._websocket.reader_py"
FN_FEED = "reader_py:WebSocketReader._feed_data"
FN_HANDLE = "reader_py:WebSocketReader._handle_frame"


def live():
    import importlib

    from pyvc import instrument

    instrument._ensure_repo_on_path()
    return importlib.import_module(MOD)


# ---------------------------------------------------------------------------
# symbolic reader object


def mk_reader(u: U, *, handle_frame=None, in_loop=False):
    R = live()
    proto = u.obj("BaseProtocol", {"_reading_paused": u.bool("reading_paused")},
                  {"pause_reading": lambda s: (u.event("pause_reading"), setattr(s, "_reading_paused", True))[0],
                   "resume_reading": lambda s: (u.event("resume_reading"), setattr(s, "_reading_paused", False))[0]})
    queue = u.obj("WebSocketDataQueue", {"_protocol": proto},
                  {"feed_data": lambda s, msg: u.event("queue.feed_data", msg),
                   "set_exception": lambda s, exc, cause=None: u.event("queue.set_exception", exc)},
                  const=("_protocol",))
    M = u.int("max_msg_size", 0)
    frag = SSeq.fresh("payload_fragments")
    f = {
        "queue": queue,
        "_max_msg_size": M,
        "_decode_text": u.bool("decode_text"),
        "_exc": None,
        "_partial": SBytes.fresh("partial", bytearray),
        "_state": u.int("state"),
        "_opcode": u.int("opcode"),
        "_frame_fin": u.bool("frame_fin"),
        "_frame_opcode": u.int("frame_opcode"),
        "_payload_fragments": frag,
        "_max_fragments": u.int("max_fragments"),
        "_frame_payload_len": u.int("frame_payload_len"),
        "_tail": SBytes.fresh("tail"),
        "_has_mask": u.bool("has_mask"),
        "_frame_mask": SOpt.fresh("frame_mask", lambda n: SBytes.fresh(n)),
        "_payload_bytes_to_read": u.int("payload_bytes_to_read"),
        "_payload_len_flag": u.int("payload_len_flag"),
        "_compressed": u.int("compressed"),
        "_decompressobj": None,
        "_compress": u.bool("compress"),
    }
    meths = {}
    if handle_frame is not None:
        meths["_handle_frame"] = handle_frame
    r = u.obj("WebSocketReader", f, meths,
              const=("queue", "_max_msg_size", "_decode_text", "_max_fragments", "_compress"),
              factories={"_frame_mask": lambda n: SOpt.fresh(n, lambda m: SBytes.fresh(m)),
                         "_exc": lambda n: None, "_decompressobj": lambda n: None})
    return r


def I12(r, *, in_loop=False):
    """representation invariant of WebSocketReader (DESIGN 5/C12), as a list of named conjuncts"""
    R = live()
    M = r._max_msg_size
    st = r._state
    payload_states = Or(st == R.READ_PAYLOAD_MASK, st == R.READ_PAYLOAD)
    data_frame = r._frame_opcode <= 2
    mask = r._frame_mask
    items = [
        ("cfg", And(M >= 0, r._max_fragments == Ite(M != 0, Ite(M / 256 > 1024, M / 256, 1024), 0)
                    if not is_sym(M) else r._max_fragments == _maxfrag(M))),
        ("state", rfc.one_of(st, (R.READ_HEADER, R.READ_PAYLOAD_LENGTH, R.READ_PAYLOAD_MASK, R.READ_PAYLOAD))),
        ("msg_opcode", rfc.one_of(r._opcode, (R.OP_CODE_NOT_SET, rfc.OP_TEXT, rfc.OP_BINARY))),
        ("frame_opcode", Implies(st != R.READ_HEADER, rfc.one_of(r._frame_opcode, rfc.VALID_OPCODES))),
        ("len_flag", And(r._payload_len_flag >= 0, r._payload_len_flag <= 127)),
        ("control_len", Implies(And(st != R.READ_HEADER, rfc.is_control(r._frame_opcode)),
                                r._payload_len_flag <= 125)),
        ("to_read", Implies(payload_states, And(r._payload_bytes_to_read >= 0,
                                                Implies(rfc.is_control(r._frame_opcode),
                                                        r._payload_bytes_to_read + r._frame_payload_len <= 125)))),
        # spec bound (property: memory for an incomplete message <= max_msg_size + const)
        ("size_cap", Implies(And(payload_states, M > 0, data_frame),
                             r._frame_payload_len + r._payload_bytes_to_read + blen(r._partial) <= M)),
        ("frag_sum", And(r._frame_payload_len >= 0, r._frame_payload_len == r._payload_fragments.total_len())),
        ("frag_idle", Implies(st != R.READ_PAYLOAD, r._frame_payload_len == 0)),
        ("compressed", rfc.one_of(r._compressed, (R.COMPRESSED_NOT_SET, R.COMPRESSED_FALSE, R.COMPRESSED_TRUE))),
        ("mask", Implies(And(st == R.READ_PAYLOAD, r._has_mask), And(Not(is_none(mask)), _masklen(mask) == 4))),
        ("partial_opcode", Implies(blen(r._partial) > 0, r._opcode != R.OP_CODE_NOT_SET)),
        ("partial_cap", Implies(M > 0, blen(r._partial) <= M)),
        ("tail", blen(r._tail) == 0 if in_loop else blen(r._tail) <= 7),
    ]
    return items


def _maxfrag(M):
    m = tint(M)
    q = m / 256
    from pyvc import mk_int

    return mk_int(z3.If(m != 0, z3.If(q > 1024, q, z3.IntVal(1024)), z3.IntVal(0)))


def _masklen(mask):
    if isinstance(mask, SOpt):
        v = object.__getattribute__(mask, "_val")
        return blen(v)
    return blen(mask) if mask is not None else -1


def assume_all(u, items):
    for _, c in items:
        u.assume(c)


def check_all(u, prefix, items):
    for n, c in items:
        u.check(f"{prefix}.{n}", c)


def ws_error_code(exc):
    return getattr(exc, "code", None)


# ---------------------------------------------------------------------------
# contract of _handle_frame (callee side is verified in unit handle_frame.*; call sites use this)


def handle_frame_requires(r, fin, opcode, payload, compressed):
    R = live()
    M = r._max_msg_size
    return [
        ("opcode_valid", rfc.one_of(opcode, rfc.VALID_OPCODES)),
        ("control_small", Implies(rfc.is_control(opcode), blen(payload) <= 125)),
        ("size_cap", Implies(And(M > 0, opcode <= 2), blen(r._partial) + blen(payload) <= M)),
        ("compressed_flag", rfc.one_of(compressed, (R.COMPRESSED_NOT_SET, R.COMPRESSED_FALSE, R.COMPRESSED_TRUE))),
    ]


def handle_frame_ensures(r, old_partial_len, old_opcode, payload_len):
    """facts about the reader after a NORMAL return of _handle_frame that callers may rely on"""
    R = live()
    M = r._max_msg_size
    return [
        ("msg_opcode", rfc.one_of(r._opcode, (R.OP_CODE_NOT_SET, rfc.OP_TEXT, rfc.OP_BINARY))),
        ("partial_opcode", Implies(blen(r._partial) > 0, r._opcode != R.OP_CODE_NOT_SET)),
        ("partial_grow", blen(r._partial) <= old_partial_len + payload_len),
    ]


def make_handle_frame_stub(u):
    """modular call: assert requires, havoc modifies = {_opcode, _partial, _decompressobj, queue}, assume ensures,
    or raise (WebSocketError with any code, or a decompressor error)."""
    R = live()

    def stub(self, fin, opcode, payload, compressed):
        for n, c in handle_frame_requires(self, fin, opcode, payload, compressed):
            u.check(f"C12.call._handle_frame.requires.{n}", c)
        u.event("_handle_frame", fin, opcode, payload, compressed)
        old_len = blen(self._partial)
        old_op = self._opcode
        plen = blen(payload)
        if u.choose(2, "_handle_frame.raises"):
            raise R.WebSocketError(u.int("hf_code"), "symbolic")
        fs = fields(self)
        fs["_opcode"] = u.int("opcode_after_hf")
        fs["_partial"] = SBytes.fresh("partial_after_hf", bytearray)
        fs["_decompressobj"] = None
        for n, c in handle_frame_ensures(self, old_len, old_op, plen):
            u.assume(c)

    return stub


def mask_stub(u):
    def websocket_mask(mask, data):
        """ASSUMED contract of websocket_mask: in-place, length preserved (C11 covers its content)."""
        stubs.used("websocket_mask(mask, bytearray): in place, length unchanged, requires len(mask)==4")
        m = mask.get() if isinstance(mask, SOpt) else mask
        u.check("C12.call.websocket_mask.requires.mask4", And(m is not None, blen(m) == 4 if m is not None else False))
        u.check("C12.call.websocket_mask.requires.bytearray", data.kind is bytearray)
        n = data.length()
        fresh = SBytes.fresh("masked")
        u.assume(blen(fresh) == n)
        data.segs = fresh.segs

    return websocket_mask


# ---------------------------------------------------------------------------
# units


@unit("C12", "feed_data.inv", functions=[f"{MOD}:WebSocketReader._feed_data"])
def feed_data_inv(u: U):
    """I12 is preserved by _feed_data for every input chunk and every prior state; every exception is a
    WebSocketError; size test precedes buffering; header rules agree with RFC 6455."""
    R = live()
    f = u.load(MOD, "WebSocketReader._feed_data", globals={"websocket_mask": mask_stub(u)})
    r = mk_reader(u, handle_frame=make_handle_frame_stub(u))
    data = u.bytes("data")
    assume_all(u, I12(r))
    u.cover("C12.feed_data.pre")
    head = {}

    def inv(L):
        s = L["self"]
        return I12(s, in_loop=True) + [
            ("pos", And(L["start_pos"] >= 0, L["start_pos"] <= L["data_len"])),
        ]

    def at_head(L):
        s = L["self"]
        head.clear()
        head.update(state=s._state, start_pos=L["start_pos"], frame_fin=s._frame_fin, compressed=s._compressed,
                    partial_len=blen(s._partial), fpl=s._frame_payload_len, to_read=s._payload_bytes_to_read,
                    nfrag=s._payload_fragments.length(), paused=s.queue._protocol._reading_paused)
        head["events0"] = len(u.events)

    def header_ok(L, prefix):
        # obligations for an iteration that consumed a header (entered in READ_HEADER with >= 2 bytes)
        s = L["self"]
        sp = head["start_pos"]
        dl = L["data_len"]
        if not u.branch(And(head["state"] == R.READ_HEADER, dl - sp >= 2), "iteration_read_header"):
            return
        d = L["data_cstr"]
        b0, b1 = d.byte_at(sp), d.byte_at(sp + 1)
        first_fragment = Or(head["frame_fin"], head["compressed"] == R.COMPRESSED_NOT_SET)
        viol = rfc.header_violation(b0, b1, deflate_negotiated=s._compress, first_fragment=first_fragment)
        u.check(f"{prefix}.hdr.accepted_is_valid", Not(viol),
                "a header accepted by READ_HEADER satisfies RFC 6455 5.2/5.5 and RFC 7692 6.1")

    def at_back(L):
        header_ok(L, "C12")

    u.loop(FN_FEED, 0, inv=inv, at_head=at_head, at_back=at_back,
           variant=lambda L: (4 - 0 * L["start_pos"], ) if False else None)
    u.loop_specs[(FN_FEED, 0)].variant = None
    out = u.call(f, r, data)
    L = u.last_locals.get(FN_FEED) if out.ok else _exc_locals(out.exc)
    if out.ok:
        u.cover("C12.feed_data.normal_exit")
        check_all(u, "C12.inv.exit", I12(r))
        header_ok(L, "C12")
        M = r._max_msg_size
        retained = blen(r._partial) + r._payload_fragments.total_len() + blen(r._tail)
        u.check("C12.cap.retained", Implies(M > 0, retained <= M + 125 + 7),
                "bytes retained for an incomplete message <= max_msg_size + constant")
    else:
        u.cover("C12.feed_data.raises")
        u.check("C12.escape._feed_data", isinstance(out.exc, R.WebSocketError),
                f"only WebSocketError may escape, got {type(out.exc).__name__}: {out.exc}")
        if isinstance(out.exc, R.WebSocketError) and not any(e[0] == "_handle_frame" for e in u.events[head.get("events0", 0):]):
            # raised by _feed_data itself (not by the callee): classify by RFC
            code = out.exc.code
            s = r
            sp = head["start_pos"]
            d = L["data_cstr"]
            dl = L["data_len"]
            read_hdr = And(head["state"] == R.READ_HEADER, dl - sp >= 2)
            if u.branch(read_hdr, "raise_in_header_iteration") and "has_mask" not in _assigned_since_head(L, head):
                pass
            if isinstance(code, int) or is_sym(code):
                if u.branch(code == rfc.CLOSE_PROTOCOL_ERROR, "code1002"):
                    # 1002 only for a protocol violation in the header just read
                    b0, b1 = d.byte_at(sp), d.byte_at(sp + 1)
                    first_fragment = Or(head["frame_fin"], head["compressed"] == R.COMPRESSED_NOT_SET)
                    viol = rfc.header_violation(b0, b1, deflate_negotiated=s._compress, first_fragment=first_fragment)
                    u.check("C12.code.1002_is_violation", And(read_hdr, viol),
                            "PROTOCOL_ERROR is raised only for a header that violates RFC 6455")
                elif u.branch(code == rfc.CLOSE_MESSAGE_TOO_BIG, "code1009"):
                    # the frame was not buffered: nothing was appended in this iteration
                    u.check("C12.cap.pre.nothing_buffered",
                            And(s._payload_fragments.length() == head["nfrag"], blen(s._partial) == head["partial_len"]),
                            "size test rejects before any payload byte of the frame is buffered")
                    # 'messages above max_msg_size' : a message of total size <= max is not rejected
                    declared = L.get("frame_len", s._payload_bytes_to_read) if "frame_len" in _fresh_locals(L, head) else s._payload_bytes_to_read
                    M = s._max_msg_size
                    too_big = Or(declared > R.MAX_PAYLOAD_LEN, And(M > 0, declared + blen(s._partial) > M))
                    u.check("C12.accept.not_above_limit_not_rejected", too_big,
                            "MESSAGE_TOO_BIG only if the declared message size is above max_msg_size")
                else:
                    u.check("C12.code.known", False, "WebSocketError with an unexpected close code")


def _exc_locals(exc):
    tb = exc.__traceback__
    loc = None
    while tb is not None:
        if tb.tb_frame.f_code.co_filename.startswith("<pyvc:"):
            loc = tb.tb_frame.f_locals
            break_here = True
        tb = tb.tb_next
    return dict(loc or {})


def _assigned_since_head(L, head):
    return set()


def _fresh_locals(L, head):
    return set(L.keys())
