"""C12 - WebSocket reader enforces the protocol and its size bounds.

Functions under contract (real text, re-read from /repo every run):
  aiohttp/_websocket/reader_py.py: WebSocketReader.__init__, feed_data, _feed_data, _handle_frame
Spec side: specs/rfc6455.py (written from RFC 6455 / RFC 7692)
"""
import z3

from pyvc import (And, Iff, Implies, Ite, Not, Or, SBytes, SInt, SObj, SOpt, SSeq, U, blen, fields, is_none, is_sym,
                  mk_int, stubs, tint)
from pyvc.registry import native, unit
from specs import rfc6455 as rfc

MOD = "aiohttp._websocket.reader_py"
FN_FEED = "reader_py:WebSocketReader._feed_data"
FN_HANDLE = "reader_py:WebSocketReader._handle_frame"


def live():
    import importlib

    from pyvc import instrument

    instrument._ensure_repo_on_path()
    return importlib.import_module(MOD)


def seq_total(x):
    return x.total_len() if isinstance(x, SSeq) else sum(len(e) for e in x)


def seq_count(x):
    return x.length() if isinstance(x, SSeq) else len(x)


# ---------------------------------------------------------------------------
# symbolic reader object


def mk_reader(u: U, *, methods=None):
    proto = u.obj("BaseProtocol", {"_reading_paused": u.bool("reading_paused")},
                  {"pause_reading": lambda s: (u.event("pause_reading"), setattr(s, "_reading_paused", True))[0],
                   "resume_reading": lambda s: (u.event("resume_reading"), setattr(s, "_reading_paused", False))[0]})
    queue = u.obj("WebSocketDataQueue", {"_protocol": proto, "_limit": u.int("queue_limit", 1), "_size": u.int("queue_size", 0)},
                  {"feed_data": lambda s, msg: u.event("queue.feed_data", msg),
                   "set_exception": lambda s, exc, cause=None: u.event("queue.set_exception", exc)},
                  const=("_protocol",))
    f = {
        "queue": queue,
        "_max_msg_size": u.int("max_msg_size"),
        "_decode_text": u.bool("decode_text"),
        "_exc": None,
        "_partial": SBytes.fresh("partial", bytearray),
        "_state": u.int("state"),
        "_opcode": u.int("opcode"),
        "_frame_fin": u.bool("frame_fin"),
        "_frame_opcode": u.int("frame_opcode"),
        "_payload_fragments": SSeq.fresh("payload_fragments"),
        "_max_fragments": u.int("max_fragments"),
        "_frame_payload_len": u.int("frame_payload_len"),
        "_tail": SBytes.fresh("tail"),
        "_has_mask": u.bool("has_mask"),
        "_frame_mask": SOpt.fresh("frame_mask", lambda n: SBytes.fresh(n)),
        "_payload_bytes_to_read": u.int("payload_bytes_to_read"),
        "_payload_len_flag": u.int("payload_len_flag"),
        "_compressed": u.int("compressed"),
        "_decompressobj": None,
        "_compress": u.bool("compress"),
    }
    return u.obj("WebSocketReader", f, methods or {},
                 init=(MOD, "WebSocketReader.__init__", (queue, 0, False, False), {}),
                 const=("queue", "_max_msg_size", "_decode_text", "_max_fragments", "_compress"),
                 factories={"_frame_mask": lambda n: SOpt.fresh(n, lambda m: SBytes.fresh(m)),
                            "_exc": lambda n: None, "_decompressobj": lambda n: None})


def _maxfrag(M):
    """documented configuration: fragment-count cap = max(1024, max_msg_size // 256), 0 when unlimited"""
    if not is_sym(M):
        return max(1024, M // 256) if M else 0
    m = tint(M)
    q = m / 256
    return mk_int(z3.If(m != 0, z3.If(q > 1024, q, z3.IntVal(1024)), z3.IntVal(0)))


def _masklen(mask):
    if isinstance(mask, SOpt):
        return blen(object.__getattribute__(mask, "_val"))
    return blen(mask) if mask is not None else -1


def I12(r, *, in_loop=False):
    """representation invariant of WebSocketReader (DESIGN 5/C12), named conjuncts.
    Works on the symbolic object and on a real WebSocketReader (native replay)."""
    R = live()
    M = r._max_msg_size
    st = r._state
    payload_states = Or(st == R.READ_PAYLOAD_MASK, st == R.READ_PAYLOAD)
    data_frame = r._frame_opcode <= 2
    return [
        ("cfg", And(M >= 0, r._max_fragments == _maxfrag(M))),
        ("state", rfc.one_of(st, (R.READ_HEADER, R.READ_PAYLOAD_LENGTH, R.READ_PAYLOAD_MASK, R.READ_PAYLOAD))),
        ("msg_opcode", rfc.one_of(r._opcode, (R.OP_CODE_NOT_SET, rfc.OP_TEXT, rfc.OP_BINARY))),
        ("frame_opcode", Implies(st != R.READ_HEADER, rfc.one_of(r._frame_opcode, rfc.VALID_OPCODES))),
        ("len_flag", And(r._payload_len_flag >= 0, r._payload_len_flag <= 127)),
        ("control_len", Implies(And(st != R.READ_HEADER, rfc.is_control(r._frame_opcode)),
                                r._payload_len_flag <= 125)),
        ("to_read", Implies(payload_states, And(r._payload_bytes_to_read >= 0,
                                                Implies(rfc.is_control(r._frame_opcode),
                                                        r._payload_bytes_to_read + r._frame_payload_len <= 125)))),
        # spec bound (property: memory for an incomplete message <= max_msg_size + const)
        ("size_cap", Implies(And(payload_states, M > 0, data_frame),
                             r._frame_payload_len + r._payload_bytes_to_read + blen(r._partial) <= M)),
        ("frag_sum", And(r._frame_payload_len >= 0, r._frame_payload_len == seq_total(r._payload_fragments))),
        ("frag_idle", Implies(st != R.READ_PAYLOAD, r._frame_payload_len == 0)),
        ("compressed", rfc.one_of(r._compressed, (R.COMPRESSED_NOT_SET, R.COMPRESSED_FALSE, R.COMPRESSED_TRUE))),
        ("mask", Implies(And(st == R.READ_PAYLOAD, r._has_mask),
                         And(Not(is_none(r._frame_mask)), _masklen(r._frame_mask) == 4))),
        ("partial_opcode", Implies(blen(r._partial) > 0, r._opcode != R.OP_CODE_NOT_SET)),
        ("partial_cap", Implies(M > 0, blen(r._partial) <= M)),
        ("tail", blen(r._tail) == 0 if in_loop else blen(r._tail) <= 7),
    ]


def assume_all(u, items):
    for _, c in items:
        u.assume(c)


def check_all(u, prefix, items, **kw):
    for n, c in items:
        u.check(f"{prefix}.{n}", c, **kw)


# ---------------------------------------------------------------------------
# contract of _handle_frame: the callee is verified against it (unit handle_frame.contract),
# call sites in _feed_data only see this contract.


def handle_frame_requires(r, fin, opcode, payload, compressed):
    R = live()
    M = r._max_msg_size
    return [
        ("opcode_valid", rfc.one_of(opcode, rfc.VALID_OPCODES)),
        ("control_small", Implies(rfc.is_control(opcode), blen(payload) <= 125)),
        ("size_cap", Implies(And(M > 0, opcode <= 2), blen(r._partial) + blen(payload) <= M)),
        ("compressed_flag", rfc.one_of(compressed, (R.COMPRESSED_NOT_SET, R.COMPRESSED_FALSE, R.COMPRESSED_TRUE))),
        ("msg_opcode", rfc.one_of(r._opcode, (R.OP_CODE_NOT_SET, rfc.OP_TEXT, rfc.OP_BINARY))),
        ("partial_opcode", Implies(blen(r._partial) > 0, r._opcode != R.OP_CODE_NOT_SET)),
    ]


def handle_frame_ensures(r, opcode, old_partial_len, old_opcode, payload_len):
    """facts after a NORMAL return that callers rely on (modifies: _opcode, _partial, _decompressobj, queue)"""
    R = live()
    return [
        ("msg_opcode", rfc.one_of(r._opcode, (R.OP_CODE_NOT_SET, rfc.OP_TEXT, rfc.OP_BINARY))),
        ("partial_opcode", Implies(blen(r._partial) > 0, r._opcode != R.OP_CODE_NOT_SET)),
        ("partial_grow", blen(r._partial) <= old_partial_len + Ite(opcode <= 2, payload_len, 0)),
    ]


HANDLE_FRAME_MODIFIES = ("_opcode", "_partial", "_decompressobj")


def make_handle_frame_stub(u):
    R = live()

    def stub(self, fin, opcode, payload, compressed):
        for n, c in handle_frame_requires(self, fin, opcode, payload, compressed):
            u.check(f"C12.call._handle_frame.requires.{n}", c,
                    "precondition of _handle_frame at its call site in _feed_data")
        u.event("_handle_frame", fin, opcode, payload, compressed)
        old_len = blen(self._partial)
        old_op = self._opcode
        plen = blen(payload)
        if u.choose(2, "_handle_frame.raises"):
            raise R.WebSocketError(u.int("hf_code"), "symbolic")
        fs = fields(self)
        fs["_opcode"] = u.int("opcode_after_hf")
        fs["_partial"] = SBytes.fresh("partial_after_hf", bytearray)
        fs["_decompressobj"] = None
        for n, c in handle_frame_ensures(self, opcode, old_len, old_op, plen):
            u.assume(c)

    return stub


def mask_stub(u):
    def websocket_mask(mask, data):
        """ASSUMED contract of websocket_mask: in place, length preserved (content: C11)."""
        stubs.used("websocket_mask(mask, bytearray): in place, length unchanged; requires len(mask)==4 (content: C11)")
        m = mask.get() if isinstance(mask, SOpt) else mask
        u.check("C12.call.websocket_mask.requires.mask4", And(m is not None, blen(m) == 4 if m is not None else False))
        u.check("C12.call.websocket_mask.requires.bytearray", data.kind is bytearray)
        n = data.length()
        fresh = SBytes.fresh("masked")
        u.assume(blen(fresh) == n)
        data.segs = fresh.segs

    return websocket_mask


def _exc_locals(exc):
    tb = exc.__traceback__
    loc = None
    while tb is not None:
        if tb.tb_frame.f_code.co_filename.startswith("<pyvc:"):
            loc = tb.tb_frame.f_locals
        tb = tb.tb_next
    return dict(loc or {})


# ---------------------------------------------------------------------------
# units: _feed_data


def _feed_data_unit(u: U, *, canary=None):
    R = live()
    f = u.load(MOD, "WebSocketReader._feed_data", globals={"websocket_mask": mask_stub(u)})
    r = mk_reader(u, methods={"_handle_frame": make_handle_frame_stub(u)})
    data = u.bytes("data")
    assume_all(u, I12(r))
    u.cover("C12.feed_data.pre")
    head = {}
    entry_tail_len = blen(r._tail)
    entry = {"tail": r._tail, "data": data}

    def inv(L):
        s = L["self"]
        return I12(s, in_loop=True) + [("pos", And(L["start_pos"] >= 0, L["start_pos"] <= L["data_len"]))]

    def at_head(L):
        s = L["self"]
        head.clear()
        head.update(state=s._state, start_pos=L["start_pos"], frame_fin=s._frame_fin, compressed=s._compressed,
                    partial_len=blen(s._partial), fpl=s._frame_payload_len, to_read=s._payload_bytes_to_read,
                    nfrag=seq_count(s._payload_fragments), paused=s.queue._protocol._reading_paused,
                    events0=len(u.events))
        # make the loop-head state part of the counterexample (native replay starts one iteration from it)
        u.c.inputs["loop_head"] = {"self": u.snapshot(s), "start_pos": L["start_pos"],
                                   "fragments": s._payload_fragments, "queue_paused": head["paused"]}
        # C03/C12.seg: loop-carried locals (assigned in the loop and live at its head).  A local that is
        # bound at the head AND assigned in the body carries information from one iteration to the next
        # inside one call but not across calls; only the cursor into the current chunk may do that.
        info = u.fn_infos[FN_FEED].loops[0]
        carried = sorted(v for v in info["assigned"] if v in L)
        u.check("C12.seg.no_hidden_local", carried == ["start_pos"],
                f"loop-carried locals of _feed_data are {carried}; only the chunk cursor may be carried")

    def header_rules(L):
        s = L["self"]
        sp = head["start_pos"]
        dl = L["data_len"]
        if not u.branch(And(head["state"] == R.READ_HEADER, dl - sp >= 2), "iteration_read_header"):
            return
        d = L["data_cstr"]
        b0, b1 = d.byte_at(sp), d.byte_at(sp + 1)
        first_fragment = Or(head["frame_fin"], head["compressed"] == R.COMPRESSED_NOT_SET)
        viol = rfc.header_violation(b0, b1, deflate_negotiated=s._compress, first_fragment=first_fragment)
        u.check("C12.hdr.accepted_is_valid", Not(viol),
                "a header accepted by READ_HEADER satisfies RFC 6455 5.2/5.5 and RFC 7692 6.1")

    u.loop(FN_FEED, 0, inv=inv, at_head=at_head, at_back=header_rules)
    out = u.call(f, r, data)
    M = r._max_msg_size
    if out.ok:
        L = u.last_locals.get(FN_FEED)
        u.cover("C12.feed_data.normal_exit")
        items = I12(r)
        if canary == "tail":
            items = [("canary_tail", blen(r._tail) <= 6)]
        check_all(u, "C12.inv.exit", items)
        header_rules(L)
        retained = blen(r._partial) + seq_total(r._payload_fragments) + blen(r._tail)
        u.check("C12.cap.retained", Implies(M > 0, retained <= M + 125 + 7),
                "bytes retained for an incomplete message <= max_msg_size + constant")
        # C12.seg: the unconsumed bytes are stored exactly (provenance), nothing is dropped or duplicated
        full = L["data_cstr"]
        sp, dl = L["start_pos"], L["data_len"]
        u.check("C12.seg.tail_exact", r._tail.prov_eq(full.slice(sp, dl)) if isinstance(r._tail, SBytes)
                else And(blen(r._tail) == 0, sp == dl),
                "_tail is exactly data[start_pos:] at every exit that leaves input unconsumed")
        # C12.frag: the pieces buffered for an unfinished frame stay few (bounded overhead) ...
        nf = seq_count(r._payload_fragments)
        u.check("C12.frag.pause",
                Implies(And(nf > head["nfrag"], r._max_fragments > 0, nf > r._max_fragments),
                        r.queue._protocol._reading_paused),
                "the per-piece overhead is capped: once more than max_fragments pieces are buffered the cap is acted on "
                "(today: by asking for back-pressure; vacuous if the pieces are merged instead)")
        # ... and the reader itself never pauses the transport: reading is resumed only when a consumer takes a
        # message from the queue (WebSocketDataQueue._read_from_buffer), and an unfinished frame cannot become a
        # message unless its remaining bytes are read - so a pause here with an empty queue stalls the connection for
        # good, however large the frame and however small the segments (property: 'however the frames are segmented')
        own_pause = [e for e in u.events[head.get("events0", 0):] if e[0] == "pause_reading"]
        u.check("C12.flow.pause_needs_a_consumer", len(own_pause) == 0,
                "_feed_data does not pause reading for an unfinished frame (only the message queue applies back-pressure, "
                "and only it can lift it)", known=[("F12d", And(r._max_fragments > 0, nf > r._max_fragments))],
                witness={"fragments": nf, "max_fragments": r._max_fragments, "frame_bytes_so_far": r._frame_payload_len},
                # the same obligation carries C11's 'however the frames are segmented in transit': while a frame is
                # incomplete the reader keeps reading, so a multi-megabyte message in many segments is not stalled
                also_as=("C11.seg.reader_never_stalls_an_unfinished_frame",))
        return
    u.cover("C12.feed_data.raises")
    L = _exc_locals(out.exc)
    u.check("C12.escape._feed_data", isinstance(out.exc, R.WebSocketError),
            f"only WebSocketError may escape _feed_data, got {type(out.exc).__name__}: {out.exc}")
    from_callee = any(e[0] == "_handle_frame" for e in u.events[head.get("events0", 0):])
    if not isinstance(out.exc, R.WebSocketError) or from_callee or not head:
        return
    code = out.exc.code
    sp, dl, d = head["start_pos"], L["data_len"], L["data_cstr"]
    read_hdr = And(head["state"] == R.READ_HEADER, dl - sp >= 2)
    if u.branch(code == rfc.CLOSE_PROTOCOL_ERROR, "code1002"):
        b0, b1 = d.byte_at(sp), d.byte_at(sp + 1)
        first_fragment = Or(head["frame_fin"], head["compressed"] == R.COMPRESSED_NOT_SET)
        viol = rfc.header_violation(b0, b1, deflate_negotiated=r._compress, first_fragment=first_fragment)
        u.check("C12.code.1002_is_violation", And(read_hdr, viol),
                "PROTOCOL_ERROR is raised by _feed_data only for a header that violates RFC 6455")
    elif u.branch(code == rfc.CLOSE_MESSAGE_TOO_BIG, "code1009"):
        u.check("C12.cap.pre.nothing_buffered",
                And(seq_count(r._payload_fragments) == head["nfrag"], blen(r._partial) == head["partial_len"]),
                "the size test rejects before any payload byte of the frame is buffered")
        # frame_len is bound only in an iteration that decoded a 64-bit length
        declared = L["frame_len"] if "frame_len" in L else r._payload_bytes_to_read
        too_big = Or(declared > R.MAX_PAYLOAD_LEN, And(M > 0, declared + blen(r._partial) > M))
        u.check("C12.accept.not_above_limit_not_rejected", too_big,
                "MESSAGE_TOO_BIG only if the declared message size is ABOVE max_msg_size (exactly max is accepted)",
                witness={"declared": declared, "partial_len": blen(r._partial), "max_msg_size": M})
    else:
        u.check("C12.code.known", False, "WebSocketError with an unexpected close code raised by _feed_data")


@unit("C12", "feed_data.inv", functions=[f"{MOD}:WebSocketReader._feed_data"], also=("C11",))
def feed_data_inv(u: U):
    """I12 preserved by _feed_data for every chunk and prior state; only WebSocketError escapes; header rules
    agree with RFC 6455 in both directions; size test precedes buffering; unconsumed input kept exactly."""
    _feed_data_unit(u)


@unit("C12", "canary.tail_le_6", functions=[f"{MOD}:WebSocketReader._feed_data"], expect="canary")
def feed_data_canary(u: U):
    """deliberately false clause: len(_tail) <= 6 at exit (an incomplete 64-bit length leaves 7 bytes)"""
    _feed_data_unit(u, canary="tail")


def _real_reader(state: dict, fragments, paused):
    from unittest import mock

    R = live()
    proto = mock.Mock()
    proto._reading_paused = bool(paused)
    proto.pause_reading.side_effect = lambda: setattr(proto, "_reading_paused", True)
    q = R.WebSocketDataQueue(proto, 2 ** 16, loop=mock.Mock())
    r = R.WebSocketReader.__new__(R.WebSocketReader)
    for k, v in state.items():
        if k == "queue":
            v = q
        elif k == "_partial":
            v = bytearray(v)
        elif k == "_payload_fragments":
            v = list(fragments if fragments is not None else v)
        setattr(r, k, v)
    return r, q


@native("C12.feed_data.inv")
def native_feed_data(model, obligation):
    """replay: build a REAL WebSocketReader in the loop-head state of the counterexample (it satisfies I12),
    feed the rest of the chunk to the real _feed_data, evaluate the same contract natively."""
    R = live()
    hd = model.get("loop_head")
    if not hd:
        return {"confirmed": False, "detail": "counterexample has no loop-head state"}
    st = dict(hd["self"])
    st["_tail"] = b""
    r, q = _real_reader(st, hd.get("fragments"), hd.get("queue_paused"))
    pre = [n for n, c in I12(r) if c is not True and not c]
    data = (model.get("tail", b"") + model.get("data", b""))[hd["start_pos"]:]
    try:
        r._feed_data(data)
    except R.WebSocketError as e:
        w = (model.get("__witness__") or {})
        if obligation.startswith("C12.accept") and e.code == 1009 and w and \
                w["declared"] + w["partial_len"] <= w["max_msg_size"]:
            return {"confirmed": True, "detail": f"real _feed_data raised {e!r} for a message not above the limit",
                    "input": {"state": repr(st), "data": data.hex()}}
        return {"confirmed": False, "detail": f"WebSocketError {e!r}", "pre_violated": pre}
    except Exception as e:  # noqa: BLE001
        return {"confirmed": True, "detail": f"real _feed_data raised {type(e).__name__}: {e}", "pre_violated": pre,
                "input": {"state": repr(st), "data": data.hex()}}
    bad = [n for n, c in I12(r) if c is not True and not c]
    return {"confirmed": bool(bad) and not pre, "detail": f"I12 conjuncts violated after the real call: {bad}",
            "pre_violated": pre, "input": {"state": repr(st), "data": data.hex()}}


# ---------------------------------------------------------------------------
# units: _handle_frame


class _Decomp:
    """ASSUMED contract of ZLibDecompressor.decompress_sync (A: zlib): the result has at most max_length bytes when
    max_length > 0; it may raise TooManyMembersError or a zlib error."""

    def __init__(self, u, **kw):
        self.u = u
        u.event("ZLibDecompressor", kw)

    def decompress_sync(self, data, max_length=0):
        u = self.u
        R = live()
        stubs.used("ZLibDecompressor.decompress_sync(data, max_length): len(result) <= max_length when max_length > 0; "
                   "may raise TooManyMembersError / zlib.error")
        u.event("decompress_sync", data, max_length)
        k = u.choose(3, "decompress")
        if k == 1:
            raise R.TooManyMembersError("symbolic")
        if k == 2:
            import zlib

            raise zlib.error("symbolic corrupt deflate stream")
        out = SBytes.fresh("inflated")
        u.assume(Implies(max_length > 0, blen(out) <= max_length))
        return out

    def __bool__(self):
        return True


@unit("C12", "handle_frame.contract", functions=[f"{MOD}:WebSocketReader._handle_frame"], also=("C11",))
def handle_frame_contract(u: U):
    """_handle_frame against RFC 6455 5.4/5.5/7.4 + RFC 7692 and against the contract its caller uses."""
    R = live()
    f = u.load(MOD, "WebSocketReader._handle_frame",
               globals={"ZLibDecompressor": lambda **kw: _Decomp(u, **kw)})
    r = mk_reader(u)
    fin = u.bool("fin")
    opcode = u.int("frame_opcode_arg")
    payload = u.bytes("payload", bytes if u.choose(2, "payload_kind") == 0 else bytearray)
    compressed = u.int("compressed_arg")
    u.assume(r._max_msg_size >= 0)
    for n, c in handle_frame_requires(r, fin, opcode, payload, compressed):
        u.assume(c)
    u.cover("C12.handle_frame.pre")
    M = r._max_msg_size
    old_partial = r._partial.copy_as(bytearray)
    old_plen = blen(old_partial)
    old_op = r._opcode
    in_progress = old_op != R.OP_CODE_NOT_SET
    plen = blen(payload)
    out = u.call(f, r, fin, opcode, payload, compressed)
    feeds = [e[1] for e in u.events if e[0] == "queue.feed_data"]
    decs = [e for e in u.events if e[0] == "decompress_sync"]
    is_data = opcode <= 2
    # frame: only the declared fields are written
    stores = set(object.__getattribute__(r, "_o_stores"))
    u.check("C12.handle.frame", stores <= set(HANDLE_FRAME_MODIFIES),
            f"_handle_frame writes {sorted(stores)}; its contract allows {HANDLE_FRAME_MODIFIES}")
    if not out.ok:
        e = out.exc
        import zlib

        u.check("C12.escape._handle_frame", isinstance(e, (R.WebSocketError, zlib.error)),
                f"only WebSocketError (or the decompressor's own error) may escape, got {type(e).__name__}: {e}")
        u.check("C12.latch.nothing_delivered_on_error", len(feeds) == 0,
                "no message is delivered by a frame that ends in an error")
        if isinstance(e, R.WebSocketError):
            code = e.code
            if u.branch(code == rfc.CLOSE_PROTOCOL_ERROR, "1002"):
                close_bad = False
                if u.branch(And(opcode == rfc.OP_CLOSE, plen >= 2), "close_with_code"):
                    cc = payload.byte_at(0) * 256 + payload.byte_at(1)
                    close_bad = Not(rfc.close_code_valid(cc))
                    # C11 (round trip): every status code a sender may put into a Close frame - the public WSCloseCode
                    # vocabulary except the local-only 1006, and 3000-4999 - is received, not refused
                    u.check("C11.close.sendable_code_accepted", close_bad,
                            "a Close frame is refused for its status code only if that code may not travel at all: "
                            "writer.close(code) with any wire-valid code (RFC 6455 7.4.1 + IANA: 1000-1003, 1007-1014, "
                            "3000-4999) is received as WSMessageClose(code), not as a protocol error",
                            witness={"close_code": cc})
                u.check("C12.code.handle.1002", Or(
                    And(opcode == rfc.OP_CONT, Not(in_progress)),
                    And(rfc.one_of(opcode, (rfc.OP_TEXT, rfc.OP_BINARY)), in_progress),
                    And(opcode == rfc.OP_CLOSE, plen == 1),
                    close_bad,
                ), "1002 from _handle_frame only for: continuation without message, data frame inside a fragmented "
                   "message, close payload of 1 byte, invalid close code")
            elif u.branch(code == rfc.CLOSE_INVALID_TEXT, "1007"):
                u.check("C12.code.handle.1007", Or(opcode == rfc.OP_CLOSE, And(is_data, fin, r._decode_text)),
                        "1007 only for undecodable text / close reason")
            elif u.branch(code == rfc.CLOSE_MESSAGE_TOO_BIG, "1009"):
                u.check("C12.code.handle.1009", And(is_data, fin, compressed != 0),
                        "1009 from _handle_frame only on the decompression path (too big / too many members)")
            else:
                u.check("C12.code.handle.known", False, "unexpected close code")
        return
    u.cover("C12.handle_frame.normal")
    # ---- the contract the caller relies on
    for n, c in handle_frame_ensures(r, opcode, old_plen, old_op, plen):
        u.check(f"C12.handle.ensures.{n}", c, "postcondition of _handle_frame used at its call site")
    # ---- RFC 6455 5.4: fragmentation
    u.check("C12.handle.cont_needs_message", Not(And(opcode == rfc.OP_CONT, Not(in_progress))),
            "a continuation frame without a started message is a protocol error (never a normal return)")
    u.check("C12.handle.no_interleave", Not(And(rfc.one_of(opcode, (rfc.OP_TEXT, rfc.OP_BINARY)), in_progress)),
            "a new TEXT/BINARY frame while a fragmented message is in progress is a protocol error (RFC 6455 5.4)",
            known=[("F12b", And(rfc.one_of(opcode, (rfc.OP_TEXT, rfc.OP_BINARY)), in_progress,
                                Or(Not(fin), old_plen == 0)))],
            witness={"fin": fin, "opcode": opcode, "msg_opcode_in_progress": old_op, "partial_len": old_plen})
    if u.branch(is_data, "data_frame"):
        if u.branch(fin, "fin"):
            u.check("C12.handle.deliver_one", len(feeds) == 1, "a final data frame delivers exactly one message")
            if len(feeds) == 1:
                msg = feeds[0]
                mtype = Ite(opcode == rfc.OP_CONT, old_op, opcode)
                u.check("C12.handle.msg_type", msg[3] == Ite(mtype == rfc.OP_TEXT, int(R.WSMsgType.TEXT), int(R.WSMsgType.BINARY))
                        if not isinstance(msg[3], R.WSMsgType) else
                        And(Implies(mtype == rfc.OP_TEXT, msg[3] is R.WSMsgType.TEXT),
                            Implies(mtype != rfc.OP_TEXT, msg[3] is R.WSMsgType.BINARY)),
                        "message type is the opcode of the first fragment")
                body = msg[0].src_bytes if isinstance(msg[0], stubs.SDecoded) else msg[0]
                if u.branch(compressed != 0, "compressed"):
                    u.check("C12.cap.inflate.max_length", And(len(decs) == 1, decs[0][2] == Ite(M != 0, M + 1, 0))
                            if decs else False,
                            "decompression is asked for at most max_msg_size + 1 bytes")
                    u.check("C12.cap.inflate.size", Implies(M > 0, blen(body) <= M),
                            "a decompressed message above max_msg_size is never delivered")
                    if decs:
                        arg = decs[0][1]
                        want = SBytes.of(old_partial).__add__(payload).__add__(R.WS_DEFLATE_TRAILING)
                        u.check("C12.handle.inflate_input", SBytes.of(arg).prov_eq(SBytes.of(want)),
                                "the decompressor receives partial ++ payload ++ 00 00 ff ff")
                else:
                    want = SBytes.of(old_partial).__add__(payload)
                    u.check("C12.handle.payload_exact", SBytes.of(body).prov_eq(SBytes.of(want)),
                            "delivered payload is exactly the buffered fragments followed by this frame's payload")
                    u.check("C12.cap.msg_size", Implies(M > 0, blen(body) <= M), "delivered message <= max_msg_size")
                u.check("C12.handle.msg_size_field", msg[1] == blen(body), "WSMessage.size is the payload length")
            u.check("C12.handle.partial_cleared", blen(r._partial) == 0, "no fragment bytes remain after delivery")
            u.check("C12.handle.message_closed", Implies(opcode == rfc.OP_CONT, r._opcode == R.OP_CODE_NOT_SET),
                    "a final continuation ends the fragmented message")
        else:
            u.check("C12.handle.nonfinal_delivers_nothing", len(feeds) == 0, "a non-final fragment delivers nothing")
            want = SBytes.of(old_partial).__add__(payload)
            u.check("C12.handle.partial_append", r._partial.prov_eq(SBytes.of(want, bytearray)),
                    "a non-final fragment is appended to the buffered message")
            u.check("C12.handle.msg_opcode_set", r._opcode == Ite(opcode == rfc.OP_CONT, old_op, opcode),
                    "the first fragment's opcode is remembered")
    else:
        u.check("C12.handle.control_delivers_one", len(feeds) == 1, "a control frame delivers exactly one message")
        u.check("C12.handle.control_keeps_message", And(r._opcode == old_op, r._partial.prov_eq(old_partial)),
                "a control frame between fragments does not disturb the message being assembled")
        if len(feeds) == 1 and u.branch(opcode == rfc.OP_CLOSE, "close"):
            msg = feeds[0]
            u.check("C12.handle.close.no_1byte", plen != 1, "a close payload of one byte is a protocol error")
            if u.branch(plen >= 2, "close_code_present"):
                cc = payload.byte_at(0) * 256 + payload.byte_at(1)
                u.check("C12.handle.close.code_reported", msg.data == cc, "reported close code is the peer's code")
                u.check("C11.close.roundtrip_code", msg.data == cc, "the received close code is the two bytes the writer packed")
                u.check("C12.handle.close.code_valid", rfc.close_code_valid(cc),
                        "only close codes that may appear on the wire (RFC 6455 7.4) are accepted",
                        known=[("F12c", cc == 1006)], witness={"close_code": cc})
                body = msg.extra.src_bytes if isinstance(msg.extra, stubs.SDecoded) else msg.extra
                u.check("C12.handle.close.reason", SBytes.of(body).prov_eq(SBytes.of(payload).slice(2, None))
                        if not isinstance(body, str) else False, "close reason is payload[2:] decoded")
            else:
                u.check("C12.handle.close.empty", And(msg.data == 0, msg.extra == ""), "empty close payload: code 0")
        elif len(feeds) == 1:
            msg = feeds[0]
            u.check("C12.handle.pingpong.payload", SBytes.of(msg.data).prov_eq(SBytes.of(payload)),
                    "ping/pong payload is delivered unchanged")
            want_t = Ite(opcode == rfc.OP_PING, int(R.WSMsgType.PING), int(R.WSMsgType.PONG))
            u.check("C12.handle.pingpong.type", int(msg.type) == want_t if not is_sym(want_t) else msg.type == want_t,
                    "ping -> PING message, pong -> PONG message")


# ---------------------------------------------------------------------------
# units: feed_data (latch) and __init__


@unit("C12", "feed_data.latch", functions=[f"{MOD}:WebSocketReader.feed_data"])
def feed_data_latch(u: U):
    """after an error nothing more is parsed or delivered; any exception of _feed_data latches the reader."""
    R = live()
    calls = []
    boom = RuntimeError("symbolic failure inside _feed_data")

    def feed_stub(self, data):
        calls.append(data)
        k = u.choose(3, "_feed_data.outcome")
        if k == 1:
            raise R.WebSocketError(u.int("code"), "symbolic")
        if k == 2:
            raise boom

    f = u.load(MOD, "WebSocketReader.feed_data",
               globals={"set_exception": lambda q, exc, *a: u.event("set_exception", q, exc)})
    r = mk_reader(u, methods={"_feed_data": feed_stub})
    prev = None
    if u.choose(2, "already_failed"):
        prev = R.WebSocketError(1002, "earlier")
        fields(r)["_exc"] = prev
    data = u.bytes("data", bytes if u.choose(2, "kind") == 0 else bytearray)
    out = u.call(f, r, data)
    u.check("C12.latch.total", out.ok, f"feed_data never raises, got {out.exc!r}")
    if not out.ok:
        return
    res = out.value
    if prev is not None:
        u.check("C12.latch.no_parse_after_error", And(len(calls) == 0, len(u.events) == 0, res[0] is True),
                "once an error was recorded feed_data parses and delivers nothing")
        u.check("C12.latch.returns_data", SBytes.of(res[1]).prov_eq(SBytes.of(data)), "the unparsed data is returned")
        return
    u.check("C12.latch.one_parse", len(calls) == 1, "_feed_data is called exactly once")
    sets = [e for e in u.events if e[0] == "set_exception"]
    if r._exc is not None:
        u.check("C12.latch.error_recorded", And(len(sets) == 1, sets[0][2] is r._exc if sets else False,
                                                sets[0][1] is r.queue if sets else False, res[0] is True),
                "a parsing exception is recorded, forwarded to the queue and reported as an error result")
    else:
        u.check("C12.latch.ok_result", And(len(sets) == 0, res[0] is False), "no error: (False, b'')")
    u.check("C12.latch.bytes_coerced", calls[0].kind is bytes if calls and isinstance(calls[0], SBytes) else True,
            "_feed_data always receives bytes")


@unit("C12", "init.establishes_inv", functions=[f"{MOD}:WebSocketReader.__init__"])
def init_inv(u: U):
    """__init__ establishes I12 for every max_msg_size >= 0 and flag combination."""
    R = live()
    f = u.load(MOD, "WebSocketReader.__init__")
    r = u.obj("WebSocketReader", {}, {})
    q = u.obj("WebSocketDataQueue", {}, {})
    M = u.int("max_msg_size", 0)
    out = u.call(f, r, q, M, u.bool("compress"), u.bool("decode_text"))
    u.check("C12.init.total", out.ok, f"__init__ raised {out.exc!r}")
    if out.ok:
        fs = fields(r)
        fs["_payload_fragments"] = list(fs["_payload_fragments"])
        check_all(u, "C12.init.inv", I12(r))
        u.check("C12.init.idle", And(r._state == R.READ_HEADER, r._opcode == R.OP_CODE_NOT_SET, r._exc is None),
                "a new reader waits for a header with no message in progress")
