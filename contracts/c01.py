"""C01 / C10 (header level) - request framing is unambiguous; parsers are total.

Functions under contract (real text from /repo/aiohttp/http_parser.py):
  HeadersParser.parse_headers, HttpRequestParser._is_chunked_te, HttpParser.parse_headers,
  HttpRequestParser.parse_message, HttpResponseParser.parse_message (totality only)
Spec side: specs/rfc9110.py (RFC 9110 / 9112 ABNF).
"""
import z3

from pyvc import And, Implies, Ite, Not, Or, U, fields, is_sym, mk_bool, mk_int, stubs, tint
from pyvc import regexlang as RL
from pyvc.registry import unit
from pyvc.text import SText, TextArray
from specs import rfc9110 as rfc

MOD = "aiohttp.http_parser"


def live():
    import importlib

    from pyvc import instrument

    instrument._ensure_repo_on_path()
    return importlib.import_module(MOD)


def http_errors():
    import importlib

    live()
    return importlib.import_module("aiohttp.http_exceptions")


# ---------------------------------------------------------------------------
# syntactic gates: accepted language of every LIVE pattern == RFC grammar


@unit("C01", "regex.gates", kind="lemma", functions=[f"{MOD}:TOKENRE", f"{MOD}:DIGITS", f"{MOD}:HEXDIGITS", f"{MOD}:VERSRE",
                                                     f"{MOD}:_FIELD_VALUE_FORBIDDEN_CTL_RE"])
def regex_gates(u: U):
    """TOKENRE, DIGITS, HEXDIGITS, VERSRE, _FIELD_VALUE_FORBIDDEN_CTL_RE (with their flags) accept exactly the RFC
    9110/9112 languages - over all of Unicode, so e.g. dropping re.ASCII (Arabic-Indic digits) is a counterexample."""
    H = live()
    for name, pat, spec, mode in (
        ("TOKENRE", H.TOKENRE, rfc.TOKEN, "fullmatch"),
        ("DIGITS", H.DIGITS, rfc.DIGITS, "fullmatch"),
        ("HEXDIGITS", H.HEXDIGITS, rfc.HEXDIGITS, "fullmatch"),
        ("VERSRE", H.VERSRE, rfc.VERSION, "fullmatch"),
    ):
        v, w = RL.equivalent(RL.lang(pat, mode), spec)
        u.check(f"C01.regex.{name}", v == "equal", f"L({name}) == RFC grammar (distinguishing string: {w!r})")
    v, w = RL.equivalent(RL.lang(H._FIELD_VALUE_FORBIDDEN_CTL_RE, "search"), rfc.contains_any(rfc.FIELD_VALUE_BAD))
    u.check("C01.regex.FIELD_VALUE_CTL", v == "equal", f"rejected field values == values with a forbidden control char ({w!r})")
    u.check("C01.regex.singletons", {"content-length", "transfer-encoding", "host"} <= set(H.SINGLETON_HEADERS),
            "the framing-relevant fields are singleton fields")


# ---------------------------------------------------------------------------
# HeadersParser.parse_headers


class _AbsHeaders:
    """abstract CIMultiDict under construction (ASSUMED: add/contains semantics of multidict)"""

    def __init__(self, u):
        self.u = u
        self.added = []
        self.queries = []

    def add(self, name, value):
        self.added.append((name, value))

    def sym_contains(self, name):
        p = self.u.bool("already_present")
        self.queries.append((name, p))
        return p


class _AbsList:
    def __init__(self):
        self.items = []

    def append(self, x):
        self.items.append(x)

    def __iter__(self):
        return iter(self.items)


FIELD_LINE_OK = None


def field_line_language():
    """RFC 9112 5: field-line = field-name ":" OWS field-value OWS ; no whitespace before the colon; value without
    CR / LF / NUL / other CTLs"""
    ows = z3.Star(RL.ranges_to_re(rfc.OWS_CHARS))
    clean = z3.Star(RL.ranges_to_re(RL._complement(rfc.FIELD_VALUE_BAD, 255)))
    return z3.Concat(rfc.TOKEN, z3.Re(":"), clean)


@unit("C01", "hdr.parse_headers", functions=[f"{MOD}:HeadersParser.parse_headers"], also=("C10",))
def parse_headers_unit(u: U):
    """strict HeadersParser.parse_headers: every accepted line is a well-formed RFC 9112 field line (token name, no
    whitespace around the name, no control bytes, no folding), one pair per line in order, repeated singleton fields
    rejected; indices stay in range; only HTTP protocol errors are raised."""
    H = live()
    E = http_errors()
    hp = u.obj("HeadersParser", {"max_field_size": u.int("max_field_size", 0), "_lax": False}, {})
    lines = TextArray("lines", bytes)
    n = mk_int(lines.n)
    u.assume(n >= 1)
    u.assume(lines.at(n - 1) == b"")  # precondition established by the callers: the block ends with the empty line
    headers = _AbsHeaders(u)
    raw = _AbsList()
    f = u.load(MOD, "HeadersParser.parse_headers",
               globals={"CIMultiDict": lambda: headers, "HeadersDictProxy": lambda h: h})
    FN = "http_parser:HeadersParser.parse_headers"
    head = {}

    def inv(L):
        return [("idx_in_range", And(L["lines_idx"] >= 0, L["lines_idx"] < n)),
                ("line_is_current", L["line"] == lines.at(L["lines_idx"]))]

    def at_head(L):
        head["idx"], head["line"] = L["lines_idx"], L["line"]
        head["n_added"] = len(headers.added)

    def at_back(L):
        u.cover("C01.hdr.accepted_line")
        name, value, bname, bvalue = L["name"], L["value"], L["bname"], L["bvalue"]
        ln = head["line"]
        u.check("C01.hdr.name", z3.InRe(name.t, rfc.TOKEN), "an accepted field name is an RFC 9110 token")
        u.check("C01.hdr.value", Not(z3.InRe(value.t, rfc.contains_any(rfc.FIELD_VALUE_BAD))),
                "an accepted field value has no CR, LF, NUL or other forbidden control character")
        ows = RL.ranges_to_re(rfc.OWS_CHARS)
        anyb = RL.universe(True)
        u.check("C01.hdr.ows", And(Not(z3.InRe(bvalue.t, z3.Concat(ows, anyb))), Not(z3.InRe(bvalue.t, z3.Concat(anyb, ows)))),
                "the stored value carries no leading / trailing optional whitespace")
        # structure of the accepted line as one word equation over the pieces the code produced:
        # line == bname ":" ows* bvalue ows*   (with the discharged facts bname in TOKEN, bvalue clean this gives
        # line in  token ":" OWS field-value OWS  by the concatenation lemma C01.hdr.concat_lemma)
        lefts, rights, cur = [], [], bvalue
        while isinstance(cur, SText) and cur.note and cur.note[0] == "strip":
            _, src, lft, rgt = cur.note
            lefts.insert(0, lft)
            rights.append(rgt)
            cur = src
        u.check("C01.hdr.line_is_field_line",
                ln.t == z3.Concat(bname.t, z3.StringVal(":"), *lefts, bvalue.t, *rights) if lefts else False,
                "the accepted line is exactly  name ':' OWS value OWS  (nothing else is hidden in it)")
        wsre = z3.Star(RL.ranges_to_re(rfc.OWS_CHARS))
        u.check("C01.hdr.trimmed_is_ows", And(*[z3.InRe(x, wsre) for x in lefts + rights]),
                "what was trimmed around the value is optional whitespace only")
        u.check("C01.hdr.nofold", And(L["lines_idx"] == head["idx"] + 1, len(headers.added) == head["n_added"] + 1),
                "exactly one line is consumed per field (no obs-fold merging in strict mode)")
        u.check("C01.hdr.pair_from_line", And(z3.PrefixOf(z3.Concat(bname.t, z3.StringVal(":")), ln.t), z3.Contains(ln.t, bvalue.t),
                                              headers.added[-1][0] is name, headers.added[-1][1] is value),
                "the stored pair is the name before the first colon and the trimmed rest of this very line")
        q = [p for nm, p in headers.queries if nm is name]
        single = Or(*[name.lower() == s for s in sorted(H.SINGLETON_HEADERS)])
        u.check("C01.hdr.singleton", Implies(single, And(len(q) >= 1, Not(q[-1]) if q else False)),
                "a singleton field (Content-Length, Transfer-Encoding, Host, ...) is accepted only if not present yet")

    u.loop(FN, 0, inv=inv, at_head=at_head, at_back=at_back,
           types={"line": lambda nm: SText.fresh(nm, bytes, register=False), "headers": lambda nm: headers,
                  "raw_headers": lambda nm: raw},
           variant=lambda L: n - L["lines_idx"], havoc_heap=False)
    out = u.call(f, hp, lines)
    if out.ok:
        u.cover("C01.hdr.block_end")
        return
    u.check("C10.escape.parse_headers", isinstance(out.exc, E.HttpProcessingError),
            f"only HTTP protocol errors may escape HeadersParser.parse_headers, got {type(out.exc).__name__}: {out.exc}")


# ---------------------------------------------------------------------------
# Transfer-Encoding


class _TE:
    """a header value seen as its comma separated parts: te == ','.join(parts), no part contains a comma"""

    _pyvc_sym = True

    def __init__(self, u, k):
        self.parts = [SText.fresh(f"coding{i}") for i in range(k)]
        for p in self.parts:
            u.assume(Not(p.sym_contains(",")))

    def split(self, sep, maxsplit=-1):
        assert sep == "," and maxsplit == -1
        return list(self.parts)


def coding_is_chunked(p: SText):
    """RFC 9112 7: transfer-coding names are case-insensitive; OWS around list elements is ignored"""
    ows = z3.Star(RL.ranges_to_re(rfc.OWS_CHARS))
    return z3.InRe(p.t, z3.Concat(ows, rfc.caseless("chunked"), ows))


@unit("C01", "te.is_chunked", functions=[f"{MOD}:HttpRequestParser._is_chunked_te"])
def is_chunked_te(u: U):
    """request parser: returns True only if the final coding is 'chunked' and it occurs exactly once; every other value
    raises BadHttpMessage (never False): a Transfer-Encoding that is not a single final chunked is refused."""
    E = http_errors()
    k = u.choose(3, "n_codings") + 1
    te = _TE(u, k)
    f = u.load(MOD, "HttpRequestParser._is_chunked_te")
    out = u.call(f, None, te)
    cnt = sum([Ite(mk_bool(coding_is_chunked(p)), 1, 0) for p in te.parts], 0)
    ok = And(mk_bool(coding_is_chunked(te.parts[-1])), cnt == 1)
    if out.ok:
        u.check("C01.te.never_false", out.value is True, "the request parser never answers 'not chunked': it raises")
        u.check("C01.te.true_only_if_single_final_chunked", ok,
                "True only if the last transfer coding is chunked (ASCII case-insensitive) and chunked occurs once",
                witness={"codings": list(te.parts)})
    else:
        u.check("C01.te.reject_is_400", isinstance(out.exc, E.BadHttpMessage), f"refusal is BadHttpMessage, got {out.exc!r}")
        u.check("C01.te.rejects_only_bad", Not(ok), "a single final chunked coding is not refused",
                witness={"codings": list(te.parts)})


class _Hdrs:
    """abstract parsed headers (ASSUMED multidict get / contains)"""

    def __init__(self, u, H, values):
        self.u, self.values = u, values

    def get(self, name, default=None):
        v = self.values.get(str(name), None)
        return default if v is None else v

    def sym_contains(self, name):
        return self.values.get(str(name)) is not None


@unit("C01", "clte", functions=[f"{MOD}:HttpParser.parse_headers"], also=("C10", "C02"))
def clte(u: U):
    """HttpParser.parse_headers: Transfer-Encoding together with Content-Length is refused; chunked only on the word of
    _is_chunked_te; nothing but HTTP protocol errors escape."""
    H = live()
    E = http_errors()
    te_present = bool(u.choose(2, "te_present"))
    cl_present = bool(u.choose(2, "cl_present"))
    conn = (None, "close", "keep-alive", "Upgrade", "keep-alive, Upgrade", "Keep-alive")[u.choose(6, "connection")]
    te = SText.fresh("te")
    vals = {"Transfer-Encoding": te if te_present else None, "Content-Length": "5" if cl_present else None,
            "Connection": conn, "Content-Encoding": (None, "gzip", "GZIP", "x")[u.choose(4, "enc")],
            "Upgrade": (None, "websocket")[u.choose(2, "upg")]}
    hdrs_ = _Hdrs(u, H, vals)
    te_calls = []

    def is_chunked(self, t):
        te_calls.append(t)
        k = u.choose(3, "_is_chunked_te")
        if k == 2:
            raise E.BadHttpMessage("Request has invalid `Transfer-Encoding`")
        return k == 1

    p = u.obj("HttpParser", {"_headers_parser": u.obj("HeadersParser", {}, {"parse_headers": lambda s, lines: (hdrs_, "RAW")})},
              {"_is_chunked_te": is_chunked})
    f = u.load(MOD, "HttpParser.parse_headers")
    out = u.call(f, p, "LINES")
    if te_present and cl_present:
        u.check("C01.clte", (not out.ok) and isinstance(out.exc, E.BadHttpMessage),
                "Content-Length together with Transfer-Encoding is answered with a client error")
    if out.ok:
        headers, raw, close, enc, upgrade, chunked = out.value
        u.check("C01.clte.chunked_source", (chunked is True) == (te_present and len(te_calls) == 1 and out.ok and chunked),
                "chunked comes from _is_chunked_te only")
        u.check("C01.clte.chunked_needs_te", Implies(chunked, te_present), "no Transfer-Encoding, no chunked framing")
        u.check("C02.ka.close_token", And(Implies(conn == "close", close is True), Implies(conn in ("keep-alive", "keep-alive, Upgrade"), close is False),
                                          Implies(conn in (None, "Upgrade", "Keep-alive"), close is None)),
                "Connection: close / keep-alive tokens are recognised ASCII-case-insensitively; anything else leaves the default")
        u.check("C01.clte.encoding", enc in (None, "gzip", "GZIP"), "only known content codings are reported")
        sent = vals["Content-Encoding"]
        u.check("C02.encoding.canonical", enc == ("gzip" if sent in ("gzip", "GZIP") else None),
                "content codings are case-insensitive (RFC 9110 8.4.1): a known coding is recognised in any case and "
                "reported in the lower-case form the body decoder dispatches on (DeflateBuffer / ZLibDecompressor compare "
                "with 'gzip', 'deflate', 'br', 'zstd' exactly) - 'Content-Encoding: GZip' must not reach it as 'GZip'",
                known=[("F2c", sent == "GZIP")], witness={"content_encoding": sent, "reported": enc})
    else:
        u.check("C10.escape.http_parse_headers", isinstance(out.exc, E.HttpProcessingError), f"got {out.exc!r}")


# ---------------------------------------------------------------------------
# request line


class _URL:
    """ASSUMED yarl contract: constructors may raise ValueError / TypeError on malformed input"""

    def __init__(self, u, how):
        self.how = how
        self.absolute = u.bool("url.absolute")
        self._u = u
        # yarl.URL(str) splits and validates the authority LAZILY: a bad host / port raises ValueError only when
        # host, raw_host or port is first read (URL.build(host=, port=) validates eagerly; build(authority=) is lazy too)
        self.lazy = how == "URL"
        # 0: nothing validated yet, 1: authority split and port checked (raw_host / port read), 2: host IDNA-decoded too
        # (host read) - each step raises a ValueError (UnicodeError is one) the first time it runs on bad input
        self.forced = 0

    @property
    def raw_host(self):
        if self.lazy and self.forced < 1 and self._u.choose(2, "url.lazy_authority_invalid"):
            raise ValueError("Port out of range 0-65535")
        self.forced = max(self.forced, 1)
        return "host"

    port = raw_host

    @property
    def host(self):
        self.raw_host
        if self.lazy and self.forced < 2 and self._u.choose(2, "url.lazy_idna_invalid"):
            raise UnicodeError("Invalid character")
        self.forced = 2
        return "host"


@unit("C01", "request_line", functions=[f"{MOD}:HttpRequestParser.parse_message"], also=("C10", "C02"))
def request_line(u: U):
    """HttpRequestParser.parse_message: accepted => request line is exactly token SP target SP HTTP/d.d; HTTP/1.1
    without Host is refused; defaults for keep-alive follow the version; only HTTP protocol errors escape (C10)."""
    H = live()
    E = http_errors()
    # the request line is abstracted through str.split: ASSUMED contract  line.split(" ", 2) == [a, b, c]  iff
    # line == a + " " + b + " " + c  with a, b free of SP (first two separators); fewer parts iff fewer SPs.
    split_calls = []
    nosp = z3.Star(RL.ranges_to_re(RL._complement([(32, 32)], RL.MAXCHAR)))

    class _Line:
        _pyvc_sym = True

        def __init__(self):
            k = u.choose(3, "n_parts") + 1
            self.parts = [SText.fresh(nm) for nm in ("method", "target", "version")[:k]]
            for q in self.parts[:2] if k == 3 else self.parts:
                u.c.add(z3.InRe(q.t, nosp))
            for q in self.parts:
                # text decoded with errors="surrogateescape": non-UTF-8 wire bytes become lone surrogates, which
                # cannot be encoded again (ghost flag; encode()/decode() yield fresh, unflagged texts)
                q.may_have_surrogates = True

        def split(self, sep=None, maxsplit=-1):
            split_calls.append((sep, maxsplit))
            return list(self.parts)

        def startswith(self, prefix):
            return bool(u.choose(2, "line.startswith"))

        def sym_str(self):
            return "REQUEST-LINE"

        def __format__(self, spec):
            return "REQUEST-LINE"

    line_obj = _Line()

    class _Raw:
        def decode(self, enc, err):
            split_calls.append(("decode", enc, err))
            return line_obj

    line0 = _Raw()
    host_present = u.bool("host_present")
    close = (None, True, False)[u.choose(3, "close")]
    chunked = u.bool("chunked")
    ph_raises = bool(u.choose(2, "parse_headers_raises"))

    class _HH:
        def sym_contains(self, name):
            assert str(name) == "Host", name
            return host_present

    hh = _HH()

    def parse_headers(self, lines):
        if ph_raises:
            raise E.BadHttpMessage("bad header")
        return hh, "RAW", close, None, False, chunked

    url_calls = []

    class _URLf:
        def __call__(self, path, encoded=False):
            url_calls.append(("URL", path))
            if u.choose(2, "URL.raises"):
                raise ValueError("Invalid IPv6 URL")
            r = _URL(u, "URL")
            if isinstance(path, SText) and u.c._check(z3.Not(path.t == z3.StringVal("*"))) == z3.unsat:
                r.lazy = False  # the asterisk form has no authority that could be invalid
            return r

        def build(self, **kw):
            url_calls.append(("build", kw))
            if u.choose(2, "URL.build.raises"):
                raise ValueError("Port out of range 0-65535")
            r = _URL(u, "build")
            # build(host=..., port=...) validates eagerly, but build(authority=..., encoded=True) keeps the authority
            # verbatim and splits / validates it lazily like URL(str) (observed: 'host:99999' builds, .port raises)
            r.lazy = "authority" in kw
            return r

    p = u.obj("HttpRequestParser", {}, {"parse_headers": parse_headers})
    f = u.load(MOD, "HttpRequestParser.parse_message", globals={"URL": _URLf()})
    out = u.call(f, p, [line0, "HEADER-LINES"])
    if not out.ok:
        u.check("C10.escape.parse_message", isinstance(out.exc, E.HttpProcessingError),
                f"only HTTP protocol errors (-> 400) may escape parse_message, got {type(out.exc).__name__}",
                known=[("F10a", isinstance(out.exc, ValueError))])
        if isinstance(out.exc, E.HttpProcessingError):
            # (.args may keep the raw text; only .message is rendered into the response.  repr() - '{line!r}' -
            # escapes lone surrogates, so texts that went through it are fine)
            msgs = [out.exc.message]
            u.check("C10.error_message_encodable", not any(getattr(x, "may_have_surrogates", False) for x in msgs),
                    "the message of a protocol error never is raw surrogateescape-decoded wire text: the server copies it "
                    "into the 400 response body (UTF-8), where a lone surrogate would raise inside the connection task")
        return
    u.cover("C01.request_line.accepted")
    m = out.value
    mu = getattr(m, "url", None)
    if isinstance(mu, _URL) and mu.lazy and mu.absolute is not False:
        u.check("C10.escape.lazy_url_forced", mu.forced >= 2,
                "an absolute-form or authority-form target is validated completely inside parse_message (yarl splits the "
                "authority, checks the port and IDNA-decodes the host only when port / raw_host / host are first read; "
                "BaseRequest.__init__ reads url.host): otherwise the ValueError surfaces later, in the connection task, outside any "
                "handler - the request is never answered and the connection is left open",
                known=[("F5a", mu.how == "URL" and mu.forced == 0), ("F5b", mu.how == "build" and mu.forced == 0),
                       ("F5c", mu.forced == 1)],
                witness={"request": "GET http://a:99999/ HTTP/1.1" if mu.how == "URL" else "CONNECT a:99999 HTTP/1.1"})
    sp = z3.Re(z3.StringVal(" "))
    # the accepted request line, byte for byte (decode is the identity on the ASCII skeleton: assumed lemma U1)
    # component obligations (single-variable regular facts + one word equation); together with the discharged
    # lemma C01.reqline.concat_lemma they give: request-line in  token SP target SP HTTP-version
    L = u.last_locals.get("http_parser:HttpRequestParser.parse_message", {})
    method0 = m.method.base if hasattr(m.method, "base") else m.method
    path, version = m.path, L.get("version")
    ok_shape = isinstance(method0, SText) and isinstance(path, SText) and isinstance(version, SText)
    u.check("C01.reqline.shape", ok_shape, "method, target and version are the three space separated parts")
    if ok_shape:
        u.check("C01.reqline.method_token", z3.InRe(method0.t, rfc.TOKEN), "the method is an RFC 9110 token")
        u.check("C01.reqline.version", z3.InRe(version.t, rfc.VERSION), "the version is HTTP/DIGIT.DIGIT")
        u.check("C01.reqline.target_no_space", z3.InRe(path.t, nosp), "the target contains no SP")
        noctl = z3.Star(RL.ranges_to_re(RL._complement([(0, 32), (127, 127)], RL.MAXCHAR)))
        u.check("C01.reqline.target_no_ctl", z3.InRe(path.t, noctl),
                "the request-target of an accepted request holds no control byte (NUL, HTAB, bare CR or LF, DEL ...): "
                "RFC 9112 3.2 allows visible characters only",
                known=[("F1b", True)], witness={"request": "GET /a\\nb HTTP/1.1"})
        u.check("C01.reqline.exact", And(split_calls[:2] == [("decode", "utf-8", "surrogateescape"), (" ", 2)],
                                         method0 is line_obj.parts[0], path is line_obj.parts[1], version is line_obj.parts[2]),
                "method, target and version are exactly the three parts of line.split(' ', 2)")
        u.check("C01.reqline.method_reported", m.method.is_upper is True if hasattr(m.method, "is_upper") else False,
                "the reported method is the upper-cased token")
    v = m.version
    is11 = And(v.major == 1, v.minor == 1)
    u.check("C01.host.required", Implies(is11, host_present), "an HTTP/1.1 request without Host is refused")
    if close is None:
        old = Or(v.major < 1, And(v.major == 1, v.minor == 0))
        u.check("C02.ka.request_default", And(Implies(old, m.should_close is True), Implies(Not(old), m.should_close is False))
                if not is_sym(m.should_close) else False,
                "without a Connection token: HTTP/1.0 and older close, HTTP/1.1 keeps the connection")
    else:
        u.check("C02.ka.request_explicit", m.should_close is close, "an explicit Connection token wins")
    u.check("C01.reqline.chunked_passthrough", m.chunked is chunked, "framing decision is the one of parse_headers")


@unit("C01", "concat_lemmas", kind="lemma")
def concat_lemmas(u: U):
    """from the per-component facts to the whole-line grammar (pure regular-language / concatenation reasoning)"""
    m, p, v = z3.String("m"), z3.String("p"), z3.String("v")
    nosp = z3.Star(RL.ranges_to_re(RL._complement([(32, 32)], RL.MAXCHAR)))
    sp = z3.Re(z3.StringVal(" "))
    u.assume(z3.InRe(m, rfc.TOKEN))
    u.assume(z3.InRe(v, rfc.VERSION))
    u.assume(z3.InRe(p, nosp))
    u.check("C01.reqline.concat_lemma",
            z3.InRe(z3.Concat(m, z3.StringVal(" "), p, z3.StringVal(" "), v), z3.Concat(rfc.TOKEN, sp, nosp, sp, rfc.VERSION)),
            "token SP space-free-target SP version is in the request-line language")
    n, l, b, r = z3.String("n"), z3.String("l"), z3.String("b"), z3.String("r")
    ows = z3.Star(RL.ranges_to_re(rfc.OWS_CHARS))
    clean = z3.Star(RL.ranges_to_re(RL._complement(rfc.FIELD_VALUE_BAD, RL.MAXCHAR)))
    u.assume(z3.InRe(n, rfc.TOKEN))
    u.assume(z3.InRe(l, ows))
    u.assume(z3.InRe(r, ows))
    u.assume(z3.InRe(b, clean))
    u.check("C01.hdr.concat_lemma",
            z3.InRe(z3.Concat(n, z3.StringVal(":"), l, b, r), z3.Concat(rfc.TOKEN, z3.Re(z3.StringVal(":")), ows, clean, ows)),
            "name ':' OWS clean-value OWS is in the field-line language")


@unit("C01", "canary.hdr_value_may_keep_tab", functions=[f"{MOD}:HeadersParser.parse_headers"], expect="canary")
def canary_hdr(u: U):
    """deliberately false: accepted field values contain no HTAB at all"""
    hp = u.obj("HeadersParser", {"max_field_size": 8190, "_lax": False}, {})
    lines = TextArray("lines", bytes)
    n = mk_int(lines.n)
    u.assume(n >= 1)
    u.assume(lines.at(n - 1) == b"")
    headers = _AbsHeaders(u)
    raw = _AbsList()
    f = u.load(MOD, "HeadersParser.parse_headers", globals={"CIMultiDict": lambda: headers, "HeadersDictProxy": lambda h: h})
    FN = "http_parser:HeadersParser.parse_headers"

    def at_back(L):
        u.check("C01.canary", Not(z3.Contains(L["value"].t, z3.StringVal("\\u{9}"))), "false: HTAB inside a value is legal")

    u.loop(FN, 0, inv=lambda L: [("idx", And(L["lines_idx"] >= 0, L["lines_idx"] < n)), ("cur", L["line"] == lines.at(L["lines_idx"]))],
           at_back=at_back, types={"line": lambda nm: SText.fresh(nm, bytes, register=False), "headers": lambda nm: headers,
                                   "raw_headers": lambda nm: raw}, havoc_heap=False)
    u.call(f, hp, lines)
