"""C04 - outbound messages: field contents cannot inject structure; framing is truthful.

Functions under contract (real text from /repo):
  aiohttp/http_writer.py: _safe_header, _py_serialize_headers, StreamWriter._write, _writelines,
      _write_chunked_payload, _send_headers_with_payload, write, write_headers, send_headers, set_eof, write_eof
Spec side: RFC 9110 5.5 / RFC 9112 (field values carry no CR, LF, NUL), RFC 9112 7.1 (chunked coding).
"""
import re

import z3

from pyvc import And, Implies, Ite, Not, Or, SBytes, SInt, U, blen, fields, is_sym, mk_int, stubs, tint
from pyvc import regexlang as RL
from pyvc.registry import unit
from pyvc.text import SText
from pyvc.values import fmt_lookup

MOD = "aiohttp.http_writer"


def live():
    import importlib

    from pyvc import instrument

    instrument._ensure_repo_on_path()
    return importlib.import_module(MOD)


# spec: characters that must never be emitted inside a start line / field (RFC 9110 5.5: CR, LF, NUL are
# dangerous; the other C0 controls and DEL are invalid in field values) - HTAB is allowed
FORBIDDEN = [(0x00, 0x08), (0x0A, 0x1F), (0x7F, 0x7F)]
CRLF = "\r\n"


def forbidden_re():
    return RL.ranges_to_re(FORBIDDEN)


def safe_star():
    return z3.Star(RL.ranges_to_re(RL._complement(FORBIDDEN, RL.MAXCHAR)))


def has_forbidden(x: SText):
    anyc = RL.universe(False)
    return z3.InRe(x.t, z3.Concat(anyc, forbidden_re(), anyc))


@unit("C04", "inj.class", kind="lemma", functions=[f"{MOD}:_FORBIDDEN_HEADER_CHARS_RE"])
def inj_class(u: U):
    """the LIVE pattern object rejects exactly the strings containing a char of {00-08, 0A-1F, 7F}; in particular no
    accepted string contains CR, LF or NUL (all code points, decided on the regular languages)."""
    H = live()
    anyc = RL.universe(False)
    code = RL.lang(H._FORBIDDEN_HEADER_CHARS_RE, "search")
    spec = z3.Concat(anyc, forbidden_re(), anyc)
    v, w = RL.equivalent(code, spec)
    u.check("C04.inj.class.equals_spec", v == "equal", f"rejected language == strings with a forbidden char (witness {w!r})")
    crlfnul = z3.Concat(anyc, RL.ranges_to_re([(0, 0), (10, 10), (13, 13)]), anyc)
    v2, w2 = RL.subset(crlfnul, code)
    u.check("C04.inj.class.no_cr_lf_nul", v2 == "subset", f"every string with CR, LF or NUL is rejected (witness {w2!r})")


@unit("C04", "inj.safe_header", functions=[f"{MOD}:_safe_header"])
def safe_header(u: U):
    """_safe_header(s) returns s unchanged iff s has no forbidden character, else raises ValueError."""
    f = u.load(MOD, "_safe_header")
    s = SText.fresh("s")
    out = u.call(f, s)
    bad = has_forbidden(s)
    if out.ok:
        u.check("C04.inj.safe_header.accepts_only_clean", Not(bad), "an accepted string has no forbidden character")
        u.check("C04.inj.safe_header.identity", out.value is s, "the string is returned unchanged")
    else:
        u.check("C04.inj.safe_header.refuses_with_value_error", And(isinstance(out.exc, ValueError), bad),
                "refusal is a ValueError and only for strings with a forbidden character")


@unit("C04", "inj.serialize", functions=[f"{MOD}:_py_serialize_headers"])
def serialize(u: U):
    """_py_serialize_headers: either ValueError/UnicodeEncodeError before anything is produced, or exactly
    status CRLF (name ": " value CRLF)* CRLF with one line per supplied header (n = 0..3 headers, contents symbolic;
    the general n follows by the concatenation lemma C04.inj.crlf_lemma)."""
    sh = u.load(MOD, "_safe_header")  # the callee is the real function too (inlined; its contract: inj.safe_header)
    f = u.load(MOD, "_py_serialize_headers", globals={"_safe_header": sh})
    n = u.choose(4, "n_headers")
    status = SText.fresh("status_line")
    pairs = [(SText.fresh(f"name{i}"), SText.fresh(f"value{i}")) for i in range(n)]

    class _H:
        def items(self):
            return list(pairs)

    out = u.call(f, status, _H())
    comps = [status] + [x for p in pairs for x in p]
    any_bad = Or(*[has_forbidden(x) for x in comps])
    if not out.ok:
        u.check("C04.inj.serialize.refusal", isinstance(out.exc, (ValueError, UnicodeEncodeError)),
                f"the only refusals are ValueError / UnicodeEncodeError, got {out.exc!r}")
        if isinstance(out.exc, ValueError) and not isinstance(out.exc, UnicodeEncodeError):
            u.check("C04.inj.serialize.refuses_only_bad", any_bad, "ValueError only when some component has a forbidden char")
        return
    u.cover("C04.serialize.ok")
    res = out.value
    u.check("C04.inj.serialize.all_clean", Not(any_bad), "every emitted component passed the forbidden-character test")
    u.check("C04.inj.serialize.bytes", isinstance(res, SText) and res.kind is bytes, "result is the encoded byte string")
    if isinstance(res, SText):
        line = safe_star()
        crlf = z3.Re(z3.StringVal(RL._esc(CRLF)))
        shape = [line, crlf]
        for _ in range(n):
            shape += [line, crlf]
        shape.append(crlf)
        u.check("C04.inj.serialize.exact_lines", z3.InRe(res.t, z3.Concat(*shape)),
                "the block is start-line CRLF, one CR/LF-free line per header, CRLF: no value can add a line or a message")
        want = status.t
        want = z3.Concat(want, z3.StringVal(RL._esc(CRLF)))
        for k, v in pairs:
            want = z3.Concat(want, k.t, z3.StringVal(": "), v.t, z3.StringVal(RL._esc(CRLF)))
        want = z3.Concat(want, z3.StringVal(RL._esc(CRLF)))
        u.check("C04.inj.serialize.exact_text", res.t == want, "the block is exactly the supplied text in order")


@unit("C04", "inj.crlf_lemma", kind="lemma")
def crlf_lemma(u: U):
    """induction step for any number of headers: if a block B is in (LINE CRLF)+ and k, v are CR/LF-free then
    B ++ k ++ ": " ++ v ++ CRLF is in (LINE CRLF)+ with exactly one more line."""
    line = safe_star()
    crlf = z3.Re(z3.StringVal(RL._esc(CRLF)))
    B, k, v = z3.String("B"), z3.String("k"), z3.String("v")
    j = z3.Int("j")
    lines = z3.Plus(z3.Concat(line, crlf))
    u.assume(z3.InRe(B, lines))
    u.assume(z3.InRe(k, line))
    u.assume(z3.InRe(v, line))
    ext = z3.Concat(B, k, z3.StringVal(": "), v, z3.StringVal(RL._esc(CRLF)))
    u.check("C04.inj.crlf_lemma.step", z3.InRe(ext, lines), "appending one clean field line keeps the line structure")
    u.check("C04.inj.crlf_lemma.one_more_line",
            z3.Not(z3.InRe(z3.Concat(k, z3.StringVal(": "), v), z3.Concat(RL.universe(False), RL.ranges_to_re([(10, 10), (13, 13)]), RL.universe(False)))),
            "the appended field contains no line break of its own")


# ---------------------------------------------------------------------------
# StreamWriter framing


def mk_writer(u: U, *, chunked=None, length="sym", headers="sym", eof=None):
    tstate = {"closing": u.bool("transport_closing")}
    tr = u.obj("Transport", {}, {
        "is_closing": lambda s: tstate["closing"],
        "write": lambda s, data: u.event("wire", data),
        "writelines": lambda s, chunks: [u.event("wire", c) for c in chunks] and None,
    })
    has_tr = bool(u.choose(2, "has_transport"))
    proto = u.obj("BaseProtocol", {"transport": tr if has_tr else None, "_paused": u.bool("paused")},
                  {"_drain_helper": lambda s: stubs.SAwait(name="drain_helper")})
    hb = None
    if headers == "sym":
        if u.choose(2, "headers_buffered"):
            hb = SBytes.fresh("headers_buf")
            u.assume(blen(hb) > 0)
    L = None
    if length == "sym":
        if u.choose(2, "has_length"):
            L = u.int("length", 0)
    w = u.obj("StreamWriter", {
        "_protocol": proto, "loop": None, "_on_chunk_sent": None, "_on_headers_sent": None,
        "_headers_buf": hb, "_headers_written": False if hb is not None else u.bool("headers_written"),
        "length": L, "chunked": u.bool("chunked") if chunked is None else chunked,
        "_eof": u.bool("eof") if eof is None else eof, "_compress": None,
        "buffer_size": u.int("buffer_size", 0), "output_size": u.int("output_size", 0),
    }, {}, const=("_protocol", "loop"))
    return w, proto, tr, hb


def wire_tokens(u):
    """the ghost wire as a list of tokens: ('lit', bytes) | ('hex', value) | ('data', SBytes-segment-rope)"""
    toks = []
    for e in u.events:
        if e[0] != "wire":
            continue
        rope = SBytes.of(e[1])
        for seg in rope.segs:
            if seg.src is None:
                for part in re.split(rb"(\x01\d+\x02)", seg.data):
                    if not part:
                        continue
                    m = re.fullmatch(rb"\x01(\d+)\x02", part)
                    if m:
                        v, spec = fmt_lookup(part.decode())
                        toks.append(("fmt", v, spec))
                    else:
                        toks.append(("lit", part))
            else:
                toks.append(("data", SBytes([seg])))
    # merge adjacent literals
    out = []
    for t in toks:
        if t[0] == "lit" and out and out[-1][0] == "lit":
            out[-1] = ("lit", out[-1][1] + t[1])
        else:
            out.append(t)
    return out


def expect_frames(u, prefix, toks, *, headers, body, chunked, terminator):
    """check the token stream == [headers] ++ frame(body) ++ [terminator] for the chunked / identity coding"""
    want = []
    if headers is not None:
        want.append(("data", headers))
    if body is not None:
        if chunked:
            want += [("fmt", blen(body), "x"), ("lit", b"\r\n"), ("data", body), ("lit", b"\r\n")]
        else:
            want.append(("data", body))
    if terminator:
        want.append(("lit", b"0\r\n\r\n"))
    # normalise adjacent literals on the expected side as well
    norm = []
    for t in want:
        if t[0] == "lit" and norm and norm[-1][0] == "lit":
            norm[-1] = ("lit", norm[-1][1] + t[1])
        else:
            norm.append(t)
    # data tokens: compare ropes by provenance, allow one rope to be split over several data tokens
    def flat(ts):
        o = []
        for t in ts:
            if t[0] == "data" and o and o[-1][0] == "data":
                o[-1] = ("data", SBytes(o[-1][1].segs + t[1].segs))
            else:
                o.append(t)
        return o

    got, norm = flat(toks), flat(norm)
    ok = len(got) == len(norm)
    conds = []
    if ok:
        for g, w in zip(got, norm):
            if g[0] != w[0]:
                ok = False
                break
            if g[0] == "lit":
                ok = ok and g[1] == w[1]
            elif g[0] == "fmt":
                ok = ok and g[2] == w[2]
                conds.append(g[1] == w[1])
            else:
                conds.append(g[1].prov_eq(w[1]))
    u.check(prefix, And(ok, *conds) if ok else False,
            f"bytes on the wire == {'headers ++ ' if headers is not None else ''}"
            f"{'hex(len) CRLF data CRLF' if chunked and body is not None else 'data' if body is not None else ''}"
            f"{' ++ 0 CRLF CRLF' if terminator else ''} (got {[t[0] for t in got]})")


@unit("C04", "chunk.write", functions=[f"{MOD}:StreamWriter.write", f"{MOD}:StreamWriter._write_chunked_payload",
                                       f"{MOD}:StreamWriter._send_headers_with_payload", f"{MOD}:StreamWriter._write",
                                       f"{MOD}:StreamWriter._writelines"])
def chunk_write(u: U):
    """write(chunk): emits pending headers first, then exactly one frame for the (length-truncated) chunk - chunked:
    hex(len) CRLF data CRLF with len > 0, identity: the data - never a terminator; with a length set never more than
    the remaining length; nothing at all for an empty chunk (an empty chunk would read as the terminator)."""
    H = live()
    w, proto, tr, hb = mk_writer(u, eof=False)
    for n in ("_write", "_writelines", "_write_chunked_payload", "_send_headers_with_payload"):
        fn = u.load(MOD, f"StreamWriter.{n}")
        from pyvc.values import methods as _m

        _m(w)[n] = (lambda ff: lambda self, *a, **k: ff(self, *a, **k))(fn)
    from pyvc.values import methods as _m

    _m(w)["drain"] = lambda self: stubs.SAwait(name="drain")
    chunk = u.bytes("chunk")
    L0 = w.length
    chunked = w.chunked
    f = u.load(MOD, "StreamWriter.write")
    out = u.call(f, w, chunk)
    toks = wire_tokens(u)
    if not out.ok:
        u.check("C04.write.refusal", isinstance(out.exc, H.ClientConnectionResetError),
                f"the only failure of write() is a closed/closing transport, got {out.exc!r}")
        u.check("C04.write.refused_before_bytes", len(toks) == 0, "a refused write puts nothing on the wire")
        return
    u.cover("C04.write.ok")
    n = blen(chunk)
    sent_len = n if L0 is None else Ite(L0 >= n, n, L0)
    body = chunk if L0 is None else chunk.slice(0, sent_len)
    is_chunked = bool(u.branch(chunked, "chunked"))
    nonempty = bool(u.branch(sent_len > 0, "nonempty"))
    hdr_now = hb
    if hb is not None and not nonempty and not toks:
        # nothing was sent at all: the buffered headers must still be pending (they go out with a later call)
        u.check("C04.chunk.write.headers_not_lost", And(w._headers_buf is hb, w._headers_written == False),  # noqa: E712
                "headers that were not emitted stay buffered")
        hdr_now = None
    elif hb is not None:
        u.check("C04.chunk.write.headers_once", And(w._headers_buf is None, w._headers_written == True),  # noqa: E712
                "emitted headers are not kept for a second emission")
    expect_frames(u, "C04.chunk.write.frame", toks, headers=hdr_now, body=body if nonempty else None,
                  chunked=is_chunked, terminator=False)
    if L0 is not None:
        u.check("C04.len.write.accounting", And(w.length == L0 - sent_len, w.length >= 0),
                "the remaining declared length decreases by exactly the bytes sent and never goes negative")
    u.check("C04.chunk.write.no_eof", Not(w._eof), "write() never ends the message")


@unit("C04", "chunk.eof", functions=[f"{MOD}:StreamWriter.write_eof", f"{MOD}:StreamWriter.set_eof",
                                     f"{MOD}:StreamWriter.send_headers"])
def chunk_eof(u: U):
    """write_eof / set_eof (no compression): pending headers, the last chunk framed like any other, and the
    terminator 0 CRLF CRLF exactly once iff chunked; idempotent once _eof is set; send_headers emits only headers."""
    H = live()
    which = ("write_eof", "set_eof", "send_headers")[u.choose(3, "which")]
    w, proto, tr, hb = mk_writer(u, length=None)
    from pyvc.values import methods as _m

    for n in ("_write", "_writelines", "_write_chunked_payload", "_send_headers_with_payload"):
        fn = u.load(MOD, f"StreamWriter.{n}")
        _m(w)[n] = (lambda ff: lambda self, *a, **k: ff(self, *a, **k))(fn)
    _m(w)["drain"] = lambda self: stubs.SAwait(name="drain")
    eof0 = w._eof
    chunked = w.chunked
    hw0 = w._headers_written
    f = u.load(MOD, f"StreamWriter.{which}")
    chunk = u.bytes("last_chunk") if which == "write_eof" else None
    out = u.call(f, w, chunk) if which == "write_eof" else u.call(f, w)
    toks = wire_tokens(u)
    if not out.ok:
        u.check("C04.eof.refusal", isinstance(out.exc, H.ClientConnectionResetError), f"got {out.exc!r}")
        return
    if which == "send_headers":
        expect_frames(u, "C04.send_headers.only_headers", toks, headers=hb, body=None, chunked=False, terminator=False)
        u.check("C04.send_headers.state", Implies(hb is not None, And(w._headers_written == True, w._headers_buf is None)),  # noqa: E712
                "buffered headers are emitted once")
        return
    if u.branch(eof0, "already_eof"):
        u.check("C04.eof.idempotent", len(toks) == 0, "nothing is written after the message was ended")
        return
    is_chunked = bool(u.branch(chunked, "chunked"))
    body = None
    if which == "write_eof" and u.branch(blen(chunk) > 0, "has_last_chunk"):
        body = chunk
    # set_eof with headers already sent earlier and chunked: only the terminator; headers never sent at all and no
    # buffer: (headers_written False, no buffer) -> nothing but the state change
    term = is_chunked and (hb is not None or which == "write_eof" or bool(u.branch(hw0, "headers_were_written")))
    expect_frames(u, f"C04.chunk.{which}.frame", toks, headers=hb, body=body, chunked=is_chunked, terminator=term)
    u.check("C04.eof.latched", w._eof == True, "the writer is marked finished")  # noqa: E712


@unit("C04", "chunk.compressed", functions=[f"{MOD}:StreamWriter.write", f"{MOD}:StreamWriter.write_eof"],
      must_cover=("C04.compressed.write.sent", "C04.compressed.write.swallowed", "C04.compressed.eof.sent"))
def chunk_compressed(u: U):
    """write / write_eof with a compressor installed: what goes on the wire is framed from what the COMPRESSOR returned
    (its bytes in order: compress(chunk) then, at the end, flush()), never from the caller's chunk - chunked: one frame
    whose hex length is the length of exactly those bytes, then the terminator; identity: those bytes; a write the
    compressor swallows (returns nothing yet) emits nothing at all, pending headers stay pending"""
    H = live()
    which = ("write", "write_eof")[u.choose(2, "which")]
    w, proto, tr, hb = mk_writer(u, length=None, eof=False)
    from pyvc.values import methods as _m

    for n in ("_write", "_writelines", "_write_chunked_payload", "_send_headers_with_payload"):
        fn = u.load(MOD, f"StreamWriter.{n}")
        _m(w)[n] = (lambda ff: lambda self, *a, **k: ff(self, *a, **k))(fn)
    _m(w)["drain"] = lambda self: stubs.SAwait(name="drain")
    c1 = SBytes.fresh("compressed")          # may be empty: the compressor buffers
    fl = SBytes.fresh("flushed")
    u.assume(blen(fl) > 0)                   # finishing a deflate / gzip stream always yields its trailer
    calls = []

    class _Comp:
        def compress(self, data):
            calls.append(("compress", data))
            return stubs.SAwait(result=c1, name="compress")

        def flush(self, *a):
            calls.append(("flush",))
            return fl

        def __bool__(self):
            return True

    fields(w)["_compress"] = _Comp()
    chunk = u.bytes("chunk")
    chunked = w.chunked
    f = u.load(MOD, f"StreamWriter.{which}")
    out = u.call(f, w, chunk)
    toks = wire_tokens(u)
    if not out.ok:
        u.check("C04.compressed.refusal", isinstance(out.exc, H.ClientConnectionResetError), f"got {out.exc!r}")
        return
    is_chunked = bool(u.branch(chunked, "chunked"))
    fed = [c for c in calls if c[0] == "compress"]
    u.check("C04.compressed.input_is_the_chunk", all(c[1] is chunk for c in fed) and len(fed) <= 1,
            "the compressor is fed the caller's chunk, once")
    if which == "write":
        u.check("C04.compressed.write.no_flush", ("flush",) not in calls, "write() does not end the compressed stream")
        if u.branch(blen(c1) > 0, "compressor returned bytes"):
            expect_frames(u, "C04.compressed.write.frame", toks, headers=hb, body=c1, chunked=is_chunked, terminator=False)
            u.cover("C04.compressed.write.sent")
        else:
            u.check("C04.compressed.write.swallowed_emits_nothing", len(toks) == 0,
                    "nothing is written while the compressor holds the data back (an empty chunk frame would end the body)")
            if hb is not None:
                u.check("C04.compressed.write.headers_still_pending", And(w._headers_buf is hb, w._headers_written == False),  # noqa: E712
                        "pending headers stay pending")
            u.cover("C04.compressed.write.swallowed")
        u.check("C04.compressed.write.no_eof", Not(w._eof), "write() never ends the message")
        return
    u.check("C04.compressed.eof.flushed_once", calls.count(("flush",)) == 1, "the compressed stream is finished exactly once")
    has_c1 = bool(u.branch(blen(chunk) > 0, "has_last_chunk")) and bool(u.branch(blen(c1) > 0, "compressor returned bytes"))
    body = (c1 + fl) if has_c1 else fl
    expect_frames(u, "C04.compressed.eof.frame", toks, headers=hb, body=body, chunked=is_chunked, terminator=is_chunked)
    u.check("C04.compressed.eof.latched", w._eof == True, "the writer is marked finished")  # noqa: E712
    u.cover("C04.compressed.eof.sent")


@unit("C04", "write_headers", functions=[f"{MOD}:StreamWriter.write_headers"])
def write_headers(u: U):
    """write_headers: the header block is the result of _serialize_headers(status_line, headers) and nothing else;
    a refusal by the serializer propagates before any state changes or byte is written."""
    w, proto, tr, hb = mk_writer(u, headers=None, length=None)
    calls = []
    refuse = bool(u.choose(2, "serializer_refuses"))

    def ser(status_line, headers):
        calls.append((status_line, headers))
        if refuse:
            raise ValueError("Forbidden control character detected in headers.")
        return "SERIALIZED"

    f = u.load(MOD, "StreamWriter.write_headers", globals={"_serialize_headers": ser})
    out = u.call(f, w, "STATUS", "HEADERS")
    toks = wire_tokens(u)
    u.check("C04.inj.dom.serializer_used", calls == [("STATUS", "HEADERS")], "the block comes from _serialize_headers only")
    if refuse:
        u.check("C04.inj.dom.refusal_propagates", And(isinstance(out.exc, ValueError), len(toks) == 0, w._headers_buf is None),
                "a refused header block raises before anything is buffered or written")
    else:
        u.check("C04.inj.dom.buffered", And(out.ok, w._headers_buf == "SERIALIZED", w._headers_written == False, len(toks) == 0),  # noqa: E712
                "the serialized block is buffered verbatim")


@unit("C04", "canary.empty_chunk_framed", functions=[f"{MOD}:StreamWriter.write"], expect="canary")
def canary_write(u: U):
    """deliberately false: write() always puts something on the wire"""
    w, proto, tr, hb = mk_writer(u, eof=False, headers=None)
    from pyvc.values import methods as _m

    for n in ("_write", "_writelines", "_write_chunked_payload", "_send_headers_with_payload"):
        fn = u.load(MOD, f"StreamWriter.{n}")
        _m(w)[n] = (lambda ff: lambda self, *a, **k: ff(self, *a, **k))(fn)
    _m(w)["drain"] = lambda self: stubs.SAwait(name="drain")
    f = u.load(MOD, "StreamWriter.write")
    out = u.call(f, w, u.bytes("chunk"))
    if out.ok:
        u.check("C04.canary", len(wire_tokens(u)) > 0, "false for an empty chunk")
