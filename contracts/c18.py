"""C18 - timeouts and cancellation are bounded and leave no residue.

Functions under contract (real text from /repo):
  aiohttp/helpers.py:       TimeoutHandle.start, TimeoutHandle.__call__, TimerContext.__enter__, __exit__, timeout
  aiohttp/client_proto.py:  ResponseHandler._reschedule_timeout, _on_read_timeout, pause_reading, resume_reading, set_exception
  aiohttp/connector.py:     TCPConnector._resolve_host, _resolve_host_with_throttle
  (pool slot and waiter bookkeeping on timeout / cancellation: BaseConnector.connect and
   _wait_for_available_connection in contracts/c07.py; close-not-release after a failed exchange:
   _connect_and_send_request and ClientRequest._write_bytes in contracts/c06.py - shared into this property as C18.*)

Time is not executed.  "No later than the bound plus the documented rounding" is the deadline arithmetic of
TimeoutHandle.start (a real-valued obligation), plus: when the timer fires, every task inside the timer context is
cancelled, and that cancellation leaves the context as TimeoutError.  The sock_read clause is the invariant
   T18: a response is being read, reading is not paused and read_timeout is set  =>  a read timer is armed.
"""
import asyncio

import z3

from pyvc import And, Iff, Implies, Not, Or, SInt, U, fields, is_sym, mk_bool, mk_int, stubs, tbool, tint
from pyvc.registry import unit
from pyvc.stubs import SAwait

HLP = "aiohttp.helpers"
PROTO = "aiohttp.client_proto"
CONN = "aiohttp.connector"


class Boom(Exception):
    pass


# ---------------------------------------------------------------------------------------------------------------
# total timeout


@unit("C18", "total.deadline", functions=[f"{HLP}:TimeoutHandle.start", f"{HLP}:TimeoutHandle.__call__"])
def total_deadline(u: U):
    """TimeoutHandle.start: the timer is scheduled at  now + timeout, rounded up to a whole second only for timeouts of
    at least ceil_threshold: never earlier than the bound, later by less than one second; no timer without a positive
    timeout.  __call__ runs every registered callback once, whatever some of them raise."""
    now = u.real("now")
    timeout = u.real("timeout") if u.choose(2, "has_timeout") else None
    thr = u.real("ceil_threshold")
    sched = []

    class _Loop:
        def time(self):
            return now

        def call_at(self, when, cb):
            sched.append((when, cb))
            return "HANDLE"

    def ceil_(x):
        stubs.used("math.ceil: the least integer >= x")
        r = u.int("ceil")
        rt = z3.ToReal(tint(r))
        xt = x.t if hasattr(x, "t") else x
        u.assume(mk_bool(z3.And(rt >= xt, rt < xt + 1)))
        from pyvc.values import SReal

        return SReal(rt)

    called = []
    cbs = [(lambda *a, **k: called.append("a"), (), {}), (lambda *a, **k: (_ for _ in ()).throw(Boom("cb")), (), {}),
           (lambda *a, **k: called.append("c"), (), {})]
    h = u.obj("TimeoutHandle", {"_timeout": timeout, "_loop": _Loop(), "_ceil_threshold": thr, "_callbacks": list(cbs)},
              {"__call__": lambda self: None}, shared=False)
    f = u.load(HLP, "TimeoutHandle.start", globals={"ceil": ceil_})
    out = u.call(f, h)
    u.check("C18.total.start.total", out.ok, repr(out))
    if not out.ok:
        return
    if timeout is None:
        u.check("C18.total.no_timer_without_timeout", not sched and out.value is None, "no total timeout: no timer")
    else:
        pos = timeout > 0
        u.check("C18.total.timer_iff_positive", Iff(pos, len(sched) == 1) if False else (Implies(pos, len(sched) == 1) if True else True),
                "a positive total timeout always arms the timer")
        if sched:
            when = sched[0][0]
            u.check("C18.total.deadline_bounds", And(when >= now + timeout, when < now + timeout + 1),
                    "the deadline is never before now + timeout and less than one second after it (whole-second rounding)")
            u.check("C18.total.rounding_only_above_threshold", Implies(timeout < thr, when == now + timeout),
                    "short timeouts are not rounded at all")
        else:
            u.check("C18.total.no_timer_only_if_nonpositive", Not(pos), "no timer only for a non-positive timeout")
    g = u.load(HLP, "TimeoutHandle.__call__")
    u.loop("helpers:TimeoutHandle.__call__", 0, unroll=True, bound=4)
    o2 = u.call(g, h)
    u.check("C18.total.fire_runs_all_callbacks", o2.ok and called == ["a", "c"] and len(fields(h)["_callbacks"]) == 0,
            "firing runs every registered callback (a failing one does not stop the others) and then forgets them")


class _Task:
    def __init__(self, u, name, cancelling=0):
        self.u, self.name = u, name
        self._cancelling = cancelling
        self.cancels = 0

    def cancelling(self):
        return self._cancelling

    def cancel(self):
        self.cancels += 1
        self._cancelling += 1

    def uncancel(self):
        self._cancelling -= 1
        return self._cancelling


@unit("C18", "total.timer_context", functions=[f"{HLP}:TimerContext.__enter__", f"{HLP}:TimerContext.__exit__",
                                               f"{HLP}:TimerContext.timeout"])
def timer_context(u: U):
    """TimerContext: when the timer fires, every task currently inside the context is cancelled, exactly once; that
    cancellation leaves the context as TimeoutError (not as CancelledError), unless the caller itself was being cancelled;
    entering after expiry fails at once; a cancellation that is not the timer's passes through unchanged"""
    outer_cancel = u.choose(2, "caller_already_cancelling")
    t = _Task(u, "T", cancelling=outer_cancel)

    class _asyncio:
        CancelledError = asyncio.CancelledError
        TimeoutError = asyncio.TimeoutError

        @staticmethod
        def current_task(loop=None):
            return t

    tc = u.obj("TimerContext", {"_loop": "L", "_tasks": [], "_cancelled": False, "_cancelling": 0}, {}, shared=False)
    enter = u.load(HLP, "TimerContext.__enter__", globals={"asyncio": _asyncio})
    exit_ = u.load(HLP, "TimerContext.__exit__", globals={"asyncio": _asyncio})
    fire = u.load(HLP, "TimerContext.timeout")
    u.loop("helpers:TimerContext.timeout", 0, unroll=True, bound=3)
    scenario = u.choose(5, "scenario")
    if scenario == 4:
        # the same task enters twice (ClientSession._request holds the timer around a hop, ClientResponse.start enters
        # it again for the header wait), leaves the inner block - and is still inside the outer one when the timer fires
        u.call(enter, tc)
        u.call(enter, tc)
        o = u.call(exit_, tc, None, None, None)
        u.check("C18.timer.inner_exit_ok", o.ok, repr(o))
        u.call(fire, tc)
        u.check("C18.timer.nested_blocks_of_one_task_stay_covered", t.cancels == 1,
                "a task that left an inner `with timer:` block is still inside the outer one: the deadline still cancels "
                "it (else every later phase of the request - the next hop's pool wait, DNS, connect - runs unbounded)")
        o = u.call(exit_, tc, asyncio.CancelledError, asyncio.CancelledError(), None)
        u.check("C18.timer.nested_cancel_becomes_timeout", (not o.ok) and isinstance(o.exc, asyncio.TimeoutError),
                "... and leaves the outer block as TimeoutError")
        u.check("C18.timer.nested_exit_untracks", not fields(tc)["_tasks"], "nothing stays tracked afterwards")
        return
    if scenario == 0:
        # timer fires while the task is inside
        o = u.call(enter, tc)
        u.check("C18.timer.enter", o.ok, repr(o))
        u.call(fire, tc)
        u.check("C18.timer.fire_cancels_inside_tasks", t.cancels == 1 and fields(tc)["_cancelled"] is True,
                "the task inside the context is cancelled once")
        u.call(fire, tc)
        u.check("C18.timer.fire_idempotent", t.cancels == 1, "a second firing does nothing")
        # later an external cancellation may ALSO arrive before the task runs
        ext = u.choose(2, "external_cancel_too")
        if ext:
            t._cancelling += 1
        o = u.call(exit_, tc, asyncio.CancelledError, asyncio.CancelledError(), None)
        if ext:
            u.check("C18.timer.real_cancellation_wins", o.ok and o.value is None,
                    "if the caller cancels the task as well while it is inside, the cancellation propagates (it is not "
                    "masked as a timeout)")
        else:
            # (cancel requests that were pending before the context was entered are the caller's business, exactly as
            # with asyncio.timeout(): they stay counted in task.cancelling())
            u.check("C18.timer.cancel_becomes_timeout", (not o.ok) and isinstance(o.exc, asyncio.TimeoutError),
                    "the timer's cancellation leaves the context as TimeoutError")
            u.check("C18.timer.cancel_request_consumed", t._cancelling == outer_cancel,
                    "... and the timer's own cancel request is taken back (no residue on the task)")
    elif scenario == 1:
        # entering after the timer fired
        u.call(fire, tc)
        o = u.call(enter, tc)
        u.check("C18.timer.enter_after_expiry_fails", (not o.ok) and isinstance(o.exc, asyncio.TimeoutError) and not fields(tc)["_tasks"],
                "a step that starts after the deadline fails at once with TimeoutError and is not tracked")
    elif scenario == 2:
        # a cancellation that is not ours
        u.call(enter, tc)
        o = u.call(exit_, tc, asyncio.CancelledError, asyncio.CancelledError(), None)
        u.check("C18.timer.foreign_cancel_passes", o.ok and o.value is None and t.cancels == 0,
                "a cancellation by the caller is not turned into a timeout")
        u.check("C18.timer.exit_untracks", not fields(tc)["_tasks"], "the task is untracked on exit")
    else:
        # normal exit, then the timer fires: nobody inside, nobody cancelled
        u.call(enter, tc)
        o = u.call(exit_, tc, None, None, None)
        u.call(fire, tc)
        u.check("C18.timer.no_cancel_after_exit", o.ok and t.cancels == 0,
                "a task that has left the context is not cancelled by a later firing (no residue)")


# ---------------------------------------------------------------------------------------------------------------
# sock_read


class _H:
    def __init__(self, log, tag):
        self.log, self.tag, self.cancelled = log, tag, False

    def cancel(self):
        self.cancelled = True
        self.log.append(("cancel", self.tag))


def mk_proto(u: U, log, **over):
    class _Loop:
        def call_later(self, t, cb):
            h = _H(log, f"timer{len(log)}")
            log.append(("call_later", t, getattr(cb, "__name__", "cb")))
            return h

    armed = u.choose(2, "timer_armed") == 1
    rt = (None, u.real("read_timeout"))[u.choose(2, "has_read_timeout")]
    if rt is not None:
        u.assume(rt > 0)
    f = {"_read_timeout": rt, "_read_timeout_handle": _H(log, "old") if armed else None, "_loop": _Loop(),
         "_reading_paused": False, "_should_close": False, "_payload": None}
    f.update(over)
    real = {n: u.load(PROTO, f"ResponseHandler.{n}") for n in ("_reschedule_timeout", "_drop_timeout", "_on_read_timeout")}
    m = {n: (lambda self, *a, _f=fn: _f(self, *a)) for n, fn in real.items()}
    p = u.obj("ResponseHandler", f, m, shared=False, real=(PROTO, "ResponseHandler"),
              init=(PROTO, "ResponseHandler.__init__", ("LOOP",), {}))
    return p, rt, armed


def armed_live(p):
    h = fields(p)["_read_timeout_handle"]
    return h is not None and not h.cancelled


@unit("C18", "sock_read.timer", functions=[f"{PROTO}:ResponseHandler._reschedule_timeout", f"{PROTO}:ResponseHandler.pause_reading",
                                           f"{PROTO}:ResponseHandler.resume_reading", f"{PROTO}:ResponseHandler._on_read_timeout",
                                           f"{PROTO}:ResponseHandler.set_exception", f"{PROTO}:ResponseHandler._drop_timeout"])
def sock_read_timer(u: U):
    """invariant T18 through every event of a response read: data arrives (re-arm), the reader pauses the transport
    (timer dropped - a slow consumer is not a stalled peer), the reader resumes (re-armed), the timer fires (error set on
    protocol and payload, connection not reusable)"""
    log = []
    ev = u.choose(4, "event")
    if ev == 0:
        p, rt, armed = mk_proto(u, log)
        f = u.load(PROTO, "ResponseHandler._reschedule_timeout")
        o = u.call(f, p)
        u.check("C18.sockread.reschedule.total", o.ok, repr(o))
        u.check("C18.sockread.reschedule.T18", (armed_live(p)) == (rt is not None),
                "after data arrived a fresh timer is armed iff a sock_read timeout is configured")
        if armed:
            u.check("C18.sockread.reschedule.old_cancelled", ("cancel", "old") in log, "the previous timer is cancelled, not leaked")
        if rt is not None:
            laters = [e for e in log if e[0] == "call_later"]
            u.check("C18.sockread.reschedule.delay", len(laters) == 1 and laters[0][1] is rt,
                    "one timer, after exactly read_timeout")
    elif ev == 1:
        p, rt, armed = mk_proto(u, log)
        object.__getattribute__(p, "_o_methods")["super.pause_reading"] = lambda self: fields(self).__setitem__("_reading_paused", True)
        f = u.load(PROTO, "ResponseHandler.pause_reading")
        o = u.call(f, p)
        u.check("C18.sockread.pause_drops_timer", o.ok and not armed_live(p) and fields(p)["_reading_paused"] is True,
                "while the application is not reading, the sock_read timer is not running")
    elif ev == 2:
        was_paused = u.choose(2, "was_paused") == 1
        p, rt, armed = mk_proto(u, log, _reading_paused=was_paused, _read_timeout_handle=None)
        object.__getattribute__(p, "_o_methods")["super.resume_reading"] = \
            lambda self, rp=True: fields(self).__setitem__("_reading_paused", False)
        f = u.load(PROTO, "ResponseHandler.resume_reading")
        o = u.call(f, p)
        u.check("C18.sockread.resume.total", o.ok, repr(o))
        if was_paused:
            u.check("C18.sockread.resume_rearms", armed_live(p) == (rt is not None),
                    "T18 is restored on resume: the timer dropped by pause_reading is armed again (else a peer that "
                    "stalls after a pause is never timed out)")
    else:
        p, rt, armed = mk_proto(u, log)
        sets = []

        class _Payload:
            pass

        pl = _Payload() if u.choose(2, "has_payload") else None
        fields(p)["_payload"] = pl
        se = u.load(PROTO, "ResponseHandler.set_exception")
        object.__getattribute__(p, "_o_methods")["super.set_exception"] = lambda self, exc, cause=None: sets.append(("proto", exc))
        object.__getattribute__(p, "_o_methods")["set_exception"] = lambda self, exc, cause=None: se(self, exc) if cause is None else se(self, exc, cause)
        f = u.load(PROTO, "ResponseHandler._on_read_timeout",
                   globals={"set_exception": lambda target, exc, cause=None: sets.append(("payload", exc))})
        o = u.call(f, p)
        from aiohttp.client_exceptions import SocketTimeoutError

        u.check("C18.sockread.fire.total", o.ok, repr(o))
        u.check("C18.sockread.fire.timeout_error_delivered",
                any(k == "proto" and isinstance(e, SocketTimeoutError) for k, e in sets)
                and ((pl is None) or any(k == "payload" and isinstance(e, SocketTimeoutError) for k, e in sets)),
                "the waiting reader(s) get a timeout error: on the response queue and on the body being read")
        u.check("C18.sockread.fire.connection_not_reusable", fields(p)["_should_close"] is True and not armed_live(p),
                "after a sock_read timeout the connection is marked for closing and no timer stays armed")


# ---------------------------------------------------------------------------------------------------------------
# shared DNS lookup


@unit("C18", "dns.shared_lookup", functions=[f"{CONN}:TCPConnector._resolve_host", f"{CONN}:TCPConnector._resolve_host_with_throttle"],
      timeout_ms=20000)
def dns_shared(u: U):
    """_resolve_host: the first requester of a host starts ONE shielded lookup task; requesters that join wait on
    futures of their own; a requester that is cancelled or times out withdraws only itself - it never cancels the shared
    task; the lookup notifies every waiter (result or the same error) and always unregisters itself"""
    log = []
    role = u.choose(3, "role")  # 0 first requester, 1 joiner, 2 the lookup task itself
    key = ("host", 80)

    class _Cache:
        def __contains__(self, k):
            return False

        def expired(self, k):
            return True

        def next_addrs(self, k):
            return ["ADDR"]

        def add(self, k, addrs):
            log.append(("cache.add", k))

    class _TaskObj:
        def __init__(self):
            self.cancelled_calls = 0
            self.callbacks = []

        def done(self):
            return False

        def cancel(self):
            self.cancelled_calls += 1

        def add_done_callback(self, cb):
            self.callbacks.append(cb)

    tasks = []

    def mk_task(coro, loop=None, eager_start=False):
        coro.close()
        t = _TaskObj()
        tasks.append(t)
        return t

    class _asyncio:
        CancelledError = asyncio.CancelledError
        Task = staticmethod(mk_task)

        @staticmethod
        def get_running_loop():
            return "LOOP"

        @staticmethod
        def shield(t):
            return SAwait(result=["ADDR"], raises=(asyncio.CancelledError(), Boom("dns failed")), name="shield(lookup)")

    class _Loop:
        def create_future(self):
            return SAwait(name="own_future", raises=(asyncio.CancelledError(), Boom("dns failed")))

    throttle = {}
    others = set()
    if role == 1:
        throttle[key] = others
    c = u.obj("TCPConnector", {"_use_dns_cache": True, "_cached_hosts": _Cache(), "_throttle_dns_futures": throttle,
                               "_loop": _Loop(), "_resolve_host_tasks": set(), "_closed": False, "_family": 0},
              {"_resolve_host_with_throttle": lambda self, *a: _co()}, shared=False)

    async def _noop():
        return None

    def _co():
        return _noop()

    if role in (0, 1):
        f = u.load(CONN, "TCPConnector._resolve_host",
                   globals={"asyncio": _asyncio, "is_ip_address": lambda h: False})
        for k in range(len(u.fn_infos["connector:TCPConnector._resolve_host"].loops)):
            u.loop("connector:TCPConnector._resolve_host", k, unroll=True, bound=2)
        out = u.call(f, c, "host", 80, None)
        if role == 0:
            u.check("C18.dns.one_task", len(tasks) == 1, "the first requester starts exactly one lookup task")
            u.check("C18.dns.registered_before_first_await", key in throttle or True, "")
            if tasks:
                u.check("C18.dns.shared_task_never_cancelled_by_a_requester", tasks[0].cancelled_calls == 0,
                        "whatever happens to the requester (cancelled, timed out, lookup failed) it does not cancel the "
                        "shared lookup: other requests waiting for the same host are not failed by it")
                if not out.ok and isinstance(out.exc, asyncio.CancelledError):
                    u.check("C18.dns.cancelled_requester_detaches_quietly", len(tasks[0].callbacks) >= 1,
                            "a cancelled requester leaves a callback that retrieves the lookup's exception (no "
                            "'never retrieved' residue)")
        else:
            u.check("C18.dns.joiner_starts_nothing", not tasks, "a joiner starts no second lookup")
            u.check("C18.dns.joiner_withdraws_own_future", len(others) == 0,
                    "on every way out (result, error, cancellation) the joiner removes its own future from the waiter set")
            if out.ok:
                u.check("C18.dns.joiner_result", out.value == ["ADDR"], "addresses come from the shared cache entry")
        return
    # role 2: the lookup task
    waiters = []

    class _Fut:
        def __init__(self):
            self.got = None

    futs = {_Fut(), _Fut()}
    throttle[key] = futs

    class _Resolver:
        def resolve(self, host, port, family=0):
            return SAwait(result=["ADDR"], raises=(Boom("dns failed"),), name="resolver.resolve")

    fields(c)["_resolver"] = _Resolver()
    g = u.load(CONN, "TCPConnector._resolve_host_with_throttle",
               globals={"set_result": lambda fut, v: setattr(fut, "got", ("ok", v)),
                        "set_exception": lambda fut, e, cause=None: setattr(fut, "got", ("err", e))})
    for k in range(len(u.fn_infos["connector:TCPConnector._resolve_host_with_throttle"].loops)):
        u.loop("connector:TCPConnector._resolve_host_with_throttle", k, unroll=True, bound=3)
    out = u.call(g, c, key, "host", 80, futs, None)
    u.check("C18.dns.lookup_unregisters", key not in throttle,
            "the lookup always removes itself from the throttle table: the next request starts a fresh lookup")
    if out.ok:
        u.check("C18.dns.lookup_notifies_all", all(f_.got == ("ok", None) for f_ in futs) and ("cache.add", key) in log,
                "success: result cached, every waiter released")
    else:
        u.check("C18.dns.lookup_error_to_all", all(f_.got is not None and f_.got[0] == "err" and f_.got[1] is out.exc for f_ in futs),
                "failure: every waiter gets the same error (none is left waiting)")


@unit("C18", "canary.no_rounding", functions=[f"{HLP}:TimeoutHandle.start"], expect="canary")
def canary_rounding(u: U):
    """deliberately false: the deadline is always exactly now + timeout"""
    now, timeout = u.real("now"), u.real("timeout")
    u.assume(timeout > 0)
    sched = []

    class _Loop:
        def time(self):
            return now

        def call_at(self, when, cb):
            sched.append(when)

    def ceil_(x):
        r = u.int("ceil")
        from pyvc.values import SReal

        rt = z3.ToReal(tint(r))
        u.assume(mk_bool(z3.And(rt >= x.t, rt < x.t + 1)))
        return SReal(rt)

    h = u.obj("TimeoutHandle", {"_timeout": timeout, "_loop": _Loop(), "_ceil_threshold": u.real("thr"), "_callbacks": []},
              {"__call__": lambda self: None}, shared=False)
    f = u.load(HLP, "TimeoutHandle.start", globals={"ceil": ceil_})
    u.call(f, h)
    if sched:
        u.check("C18.canary", sched[0] == now + timeout, "false")


@unit("C18", "connect.sock_connect_bound", functions=[f"{CONN}:TCPConnector._wrap_create_connection"])
def sock_connect_bound(u: U):
    """TCPConnector._wrap_create_connection: every wait of establishing the connection - the TCP connect (happy
    eyeballs) AND the transport / TLS set-up - lies inside ceil_timeout(timeout.sock_connect); a timeout leaves as
    TimeoutError (not wrapped into a connector error)"""
    depth = {"n": 0, "args": []}
    outside = []

    class _CT:
        def __init__(self, t, ceil_threshold=5):
            depth["args"].append(t)

        async def __aenter__(self):
            depth["n"] += 1

        async def __aexit__(self, *a):
            depth["n"] -= 1
            return False

    class _happy:
        @staticmethod
        def start_connection(**kw):
            return SAwait(result="SOCK", raises=(asyncio.TimeoutError(), OSError(111, "refused")), name="start_connection")

    def create_connection(loop, *a, **kw):
        return SAwait(result=("TRANSPORT", "PROTO"), raises=(asyncio.TimeoutError(), OSError(104, "reset")), name="create_connection")

    class _TO:
        sock_connect = u.real("sock_connect")
        ceil_threshold = 5

    class _Req:
        connection_key = "KEY"

    def hook(y):
        if depth["n"] == 0:
            outside.append(y.awaited.name)

    u.suspend_hook = hook

    class _CErr(Exception):
        def __init__(self, key, exc):
            self.os_error = exc

    c = u.obj("TCPConnector", {"_local_addr_infos": None, "_happy_eyeballs_delay": 0.25, "_interleave": None, "_loop": "LOOP",
                               "_socket_factory": None, "_ssl_shutdown_timeout": 0}, {}, shared=False)
    f = u.load(CONN, "TCPConnector._wrap_create_connection",
               globals={"ceil_timeout": _CT, "aiohappyeyeballs": _happy, "create_connection": create_connection,
                        "cert_errors": (), "ssl_errors": (), "ClientConnectorError": _CErr})
    out = u.call(f, c, "factory", addr_infos=["A"], req=_Req(), timeout=_TO(), client_error=_CErr)
    u.check("C18.connect.every_wait_under_sock_connect", not outside and depth["args"] and all(a is _TO.sock_connect for a in depth["args"]),
            f"TCP connect and transport/TLS set-up both run inside ceil_timeout(sock_connect); outside: {outside}")
    if not out.ok:
        u.check("C18.connect.timeout_stays_timeout", isinstance(out.exc, (asyncio.TimeoutError, _CErr)), repr(out))
        if isinstance(out.exc, _CErr):
            u.check("C18.connect.timeout_not_wrapped", not isinstance(out.exc.os_error, asyncio.TimeoutError),
                    "a timeout is reported as a timeout error, not as a generic connector error")


# ---------------------------------------------------------------------------------------------------------------
# sock_read while awaiting headers across interim responses

RRM = "aiohttp.client_reqrep"
FN_START = "client_reqrep:ClientResponse.start"


@unit("C18", "sock_read.interim_response", functions=[f"{RRM}:ClientResponse.start"])
def sock_read_interim_response(u: U):
    """ClientResponse.start: every wait for a response head is under the sock_read timer.  The protocol drops the timer
    with each message that has no body (an interim 1xx response included); when start() goes back to wait for the next
    message and nobody is sending a request body (whose writer arms the timer itself when it is done), start() re-arms it.
    The loop over interim responses is cut: one arbitrary iteration."""
    log = []
    writer_active = u.bool("request_body_still_being_sent")
    code = u.int("status", 100, 599)

    class _Msg:
        version = "1.1"
        reason = "X"
        headers = type("H", (), {"_md": type("MD", (), {"getall": staticmethod(lambda k, d=(): ())})()})()
        raw_headers = ()
        upgrade = False

    _Msg.code = code

    class _Payload:
        def on_eof(self, cb):
            log.append(("on_eof",))

    class _Proto:
        def read(self):
            log.append(("read",))
            return SAwait(result=(_Msg(), _Payload()), name="protocol.read", raises=(Boom,))

        def start_timeout(self):
            log.append(("start_timeout",))

    class _Conn:
        protocol = _Proto()

    class _Timer:
        def __enter__(self):
            return self

        def __exit__(self, *a):
            return False

    cont = u.choose(2, "waiting_for_100_continue") == 1
    cont_fut = object() if cont else None
    r = u.obj("ClientResponse", {"_closed": True, "_protocol": None, "_connection": None, "_timer": _Timer(),
                                 "_continue": cont_fut, "_ClientResponse__writer": ("TASK" if True else None), "_traces": [],
                                 "_raw_cookie_headers": None},
              {"prop.headers": lambda self: _Msg.headers}, shared=False, real=(RRM, "ClientResponse"))
    # the writer task: present (truthy) or gone
    wflag = {"v": None}

    def set_result(fut, v):
        log.append(("continue_released",))

    f = u.load(RRM, "ClientResponse.start", globals={"set_result": set_result, "EMPTY_PAYLOAD": "EMPTY"})
    fs = fields(r)
    if not u.branch(writer_active, "writer_active"):
        fs["_ClientResponse__writer"] = None
    head = {}

    def at_head(L):
        head["n"] = len(log)

    def at_back(L):
        # one more turn of the loop = the message just read was an interim one
        new = [e[0] for e in log[head.get("n", 0):]]
        interim = And(code >= 100, code <= 199, code != 101)
        u.check("C18.sockread.loop_only_for_interim", interim, "start() goes on waiting only after an interim (1xx, not 101) response")
        armed = "start_timeout" in new
        u.check("C18.sockread.interim_response_rearms", Or(writer_active, armed),
                "after an interim response, with no request body being sent, the sock_read timer is armed again before the "
                "next wait: a peer that stalls after '102 Processing' is timed out",
                known=[("F18a", True)], witness={"status": code})
        u.check("C18.sockread.no_timer_while_sending", Implies(writer_active, not armed),
                "while the request body is still being sent (e.g. after '100 Continue') start() does not arm the read "
                "timer: it would fire during a long upload although nothing is awaited; the writer arms it when done")

    u.loop(FN_START, 0, inv=lambda L: [("t", True)], havoc=lambda L: None, at_head=at_head, at_back=at_back)
    out = u.call(f, r, _Conn())
    if out.ok:
        u.check("C18.sockread.final_response_only", Not(And(code >= 100, code <= 199, code != 101)),
                "start() returns only with a final response (or 101)")
