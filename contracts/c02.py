"""C02 - wire round trip: what one aiohttp endpoint sends, the other receives.

The round trip is decomposed into agreement lemmas between the real sender and receiver functions:
  (F-req)  the framing the client commits to in its headers (Content-Length / Transfer-Encoding) is the framing its
           StreamWriter applies to the body                                  [this module: client.framing]
  (F-resp) likewise for the server's response                                [this module: server.prepare_headers]
  (K)      the server's own keep-alive decision equals the one the client derives from version + Connection header
           [this module: server.prepare_headers, using the receiver rule proved in contracts/c01.py: C02.ka.*]
  (B)      the receiver delimits the body exactly as announced: HttpPayloadParser length / chunked contracts
           [contracts/c03.py, C02.* obligations shared into this property] and the writer's framing [contracts/c04.py]
  (S)      independence of segmentation is C03.

Functions under contract here (real text from /repo):
  aiohttp/client_reqrep.py: ClientRequest._update_body_from_data, _update_transfer_encoding, _create_writer
  aiohttp/web_response.py:  StreamResponse._prepare_headers
"""
import z3

from pyvc import And, Iff, Implies, Not, Or, U, fields, is_sym, mk_bool, stubs
from pyvc.registry import unit
from pyvc.stubs import SAwait

RR = "aiohttp.client_reqrep"
WRSP = "aiohttp.web_response"


def has_chunked(headers):
    return "chunked" in headers.get("Transfer-Encoding", "").lower()


@unit("C02", "client.framing", functions=[f"{RR}:ClientRequest._update_body_from_data",
                                          f"{RR}:ClientRequest._update_transfer_encoding",
                                          f"{RR}:ClientRequest._create_writer"])
def client_framing(u: U):
    """for every combination of the `chunked` argument (None / False / True), caller-supplied Content-Length /
    Transfer-Encoding headers, body kind (none, sized payload, unsized payload) and method class: the header pair the
    request ends up with and the framing mode of its StreamWriter agree, and are never 'both'"""
    from multidict import CIMultiDict

    from aiohttp import hdrs

    chunked = (None, False, True)[u.choose(3, "chunked_arg")]
    caller_cl = u.choose(2, "caller.content_length") == 1
    caller_te = u.choose(2, "caller.te_chunked") == 1
    body_kind = u.choose(3, "body")  # 0 none, 1 sized (5 bytes), 2 unsized
    get_like = u.choose(2, "method.get_like") == 1
    headers = CIMultiDict()
    if caller_cl:
        headers["Content-Length"] = "5"
    if caller_te:
        headers["Transfer-Encoding"] = "chunked"

    class _Payload:
        size = 5 if body_kind == 1 else None
        headers = {"Content-Type": "application/octet-stream"}

    body = _Payload() if body_kind else None

    class _Writer:
        def __init__(self, *a, **k):
            self.chunking = False

        def enable_chunking(self):
            self.chunking = True

        def enable_compression(self, c):
            pass

    class _Registry:
        def get(self, data, disposition=None):
            return data

    class _payload:
        PAYLOAD_REGISTRY = _Registry()
        LookupError = LookupError

    req = u.obj("ClientRequest", {"headers": headers, "chunked": chunked, "method": "GET" if get_like else "POST",
                                  "GET_METHODS": {"GET", "HEAD", "OPTIONS", "TRACE"}, "_EMPTY_BODY": "EMPTY", "_body": None,
                                  "_skip_auto_headers": None, "loop": None, "_traces": [], "compress": False,
                                  "url": "URL"}, {}, shared=False)
    f1 = u.load(RR, "ClientRequest._update_body_from_data", globals={"payload": _payload, "FormData": type("FD", (), {})})
    f2 = u.load(RR, "ClientRequest._update_transfer_encoding")
    f3 = u.load(RR, "ClientRequest._create_writer", globals={"StreamWriter": _Writer})
    u.loop("client_reqrep:ClientRequest._update_body_from_data", 0, unroll=True, bound=3)
    # the REAL constructor decides which of the framing steps run and in which order; its other steps are no-ops here
    from pyvc.values import methods as _methods

    m = _methods(req)
    for nm in ("_update_auto_headers", "_update_cookies", "_update_content_encoding", "_update_proxy",
               "_update_expect_continue"):
        m[nm] = lambda self, *a, **k: None
    m["_update_body_from_data"] = lambda self, d: f1(self, d)
    m["_update_transfer_encoding"] = lambda self: f2(self)
    m["super.__init__"] = lambda self, method, url, **kw: None
    init = u.load(RR, "ClientRequest.__init__")
    o1 = u.call(init, req, fields(req)["method"], "URL", params=None, headers=headers, skip_auto_headers=None, data=body,
                cookies=None, version="1.1", compress=False, chunked=chunked, expect100=False, loop=None,
                response_class=None, proxy=None, response_params=None, timer=None, timeout=None, session=None, ssl=True,
                proxy_headers=None, traces=[], trust_env=False, server_hostname=None)
    if not o1.ok:
        u.check("C02.client.contradiction_refused",
                isinstance(o1.exc, ValueError) and (caller_te or caller_cl) and (chunked is True or body_kind == 2),
                f"a request is refused only when chunked framing (asked for, or needed for an unsized body) contradicts a "
                f"caller-supplied framing header: {o1!r}")
        u.cover("C02.client.refused")
        return
    o3 = u.call(f3, req, "PROTO")
    u.check("C02.client.writer.total", o3.ok, repr(o3))
    if not o3.ok:
        return
    w = o3.value
    h = fields(req)["headers"]
    cl, te = "Content-Length" in h, has_chunked(h)
    F4a = bool(chunked is False and cl and w.chunking)
    F4b = bool(caller_te and cl and te and chunked is not True)
    u.check("C02.frame.req.not_both", not (cl and te),
            "a request never announces Content-Length and Transfer-Encoding: chunked together",
            known=[("F4b", F4b)], witness={"chunked": chunked, "caller_cl": caller_cl, "caller_te": caller_te, "body": body_kind})
    u.check("C02.frame.req.writer_agrees_with_headers", w.chunking == te,
            "the body is chunk-framed exactly when the request says Transfer-Encoding: chunked (so the server's parser, which "
            "delimits by the headers, reads exactly the body bytes)",
            known=[("F4a", F4a), ("F4b", F4b)],
            witness={"chunked": chunked, "caller_cl": caller_cl, "caller_te": caller_te, "body": body_kind,
                     "writer.chunking": w.chunking, "headers": dict(h)})
    if body_kind:
        u.check("C02.frame.req.body_is_delimited", cl or te, "a request with a body announces how it is delimited")
    if body_kind == 2 and not caller_cl:
        u.check("C02.frame.req.unsized_is_chunked", te or F4b, "a body of unknown size goes out chunked")


@unit("C02", "client.update_body", functions=[f"{RR}:ClientRequest._update_body", f"{RR}:ClientRequest._update_body_from_data",
                                               f"{RR}:ClientRequest._update_transfer_encoding",
                                               f"{RR}:ClientRequest._create_writer"], also=("C04",))
def client_update_body(u: U):
    """ClientRequest._update_body (the worker of `await request.update_body(...)`, used by client middlewares): from
    every framing state the constructor can leave behind (chunked flag, compression, Content-Length / Transfer-Encoding
    header) and for every replacement body (none, sized, unsized) the request is again framed truthfully: never both
    headers, the writer chunk-frames exactly when the header says so, and a compressed body - whose length on the wire
    is not the payload's size - is never announced with a Content-Length"""
    from multidict import CIMultiDict

    compress = (None, "deflate")[u.choose(2, "compress")]
    chunked0 = (None, False, True)[u.choose(3, "chunked_flag")]
    te0 = u.choose(2, "had_te_header") == 1
    cl0 = u.choose(2, "had_cl_header") == 1
    get_like = u.choose(2, "method.get_like") == 1
    new_kind = u.choose(3, "new_body")  # 0 none, 1 sized, 2 unsized
    # pre-state = what __init__ establishes (unit client.framing + _update_content_encoding): compression forces the
    # chunked flag; the flag and the Transfer-Encoding header agree; never both headers
    if compress and chunked0 is not True:
        return
    if bool(chunked0) != te0 or (te0 and cl0):
        return
    headers = CIMultiDict()
    if cl0:
        headers["Content-Length"] = "3"
    if te0:
        headers["Transfer-Encoding"] = "chunked"
    if compress:
        headers["Content-Encoding"] = compress

    class _Payload:
        size = 5 if new_kind == 1 else None
        headers = {"Content-Type": "application/octet-stream"}

    body = _Payload() if new_kind else None

    class _Writer:
        def __init__(self, *a, **k):
            self.chunking = False
            self.compression = None

        def enable_chunking(self):
            self.chunking = True

        def enable_compression(self, c):
            self.compression = c

    class _Registry:
        def get(self, data, disposition=None):
            return data

    class _payload:
        PAYLOAD_REGISTRY = _Registry()
        LookupError = LookupError

    req = u.obj("ClientRequest", {"headers": headers, "chunked": chunked0, "method": "GET" if get_like else "POST",
                                  "GET_METHODS": {"GET", "HEAD", "OPTIONS", "TRACE"}, "_EMPTY_BODY": "EMPTY", "_body": "OLD",
                                  "_skip_auto_headers": None, "loop": None, "_traces": [], "compress": compress,
                                  "url": "URL"}, {}, shared=False, real=(RR, "ClientRequest"))
    u.module_globals[RR] = {"payload": _payload, "FormData": type("FD", (), {}), "StreamWriter": _Writer}
    u.loop("client_reqrep:ClientRequest._update_body_from_data", 0, unroll=True, bound=3)
    f = u.load(RR, "ClientRequest._update_body")
    o1 = u.call(f, req, body)
    if not o1.ok:
        u.check("C04.frame.update_body.refusal_is_value_error", isinstance(o1.exc, ValueError), repr(o1))
        return
    f3 = u.load(RR, "ClientRequest._create_writer")
    o3 = u.call(f3, req, "PROTO")
    u.check("C04.frame.update_body.writer_total", o3.ok, repr(o3))
    if not o3.ok:
        return
    w = o3.value
    h = fields(req)["headers"]
    cl, te = "Content-Length" in h, has_chunked(h)
    wit = {"compress": compress, "chunked_before": chunked0, "new_body": ("none", "sized", "unsized")[new_kind],
           "headers": dict(h), "writer.chunking": w.chunking, "writer.compression": w.compression}
    u.check("C04.frame.update_body.not_both", not (cl and te),
            "after update_body the request never announces Content-Length and Transfer-Encoding: chunked together", witness=wit)
    u.check("C04.frame.update_body.writer_agrees_with_headers", w.chunking == te,
            "after update_body the body is chunk-framed exactly when the header says Transfer-Encoding: chunked", witness=wit)
    u.check("C04.frame.update_body.compressed_body_has_no_length", not (w.compression and new_kind and cl),
            "a body that goes through the compressor is never announced with the Content-Length of its uncompressed size",
            witness=wit)
    if new_kind == 2:
        u.check("C04.frame.update_body.unsized_is_chunked", te, "an unsized replacement body goes out chunked", witness=wit)


@unit("C02", "server.prepare_headers", functions=[f"{WRSP}:StreamResponse._prepare_headers"])
def server_prepare_headers(u: U):
    """StreamResponse._prepare_headers for every version (1.0 / 1.1), request keep-alive wish, explicit keep_alive
    override, chunked flag, known / unknown length and bodiless status: framing headers agree with the writer mode, a body
    is always delimited (length, chunking or close), and the server's keep-alive decision is the one the client will
    derive from the response"""
    from multidict import CIMultiDict

    from aiohttp.http_writer import HttpVersion10, HttpVersion11

    v = (HttpVersion10, HttpVersion11)[u.choose(2, "version")]
    req_ka = u.choose(2, "request.keep_alive") == 1
    ka0 = (None, True, False)[u.choose(3, "resp.keep_alive_override")]
    chunked = u.choose(2, "resp.chunked") == 1
    length = (None, 0, 5)[u.choose(3, "content_length")]
    empty = u.choose(2, "must_be_empty_body") == 1

    class _Req:
        version = v
        keep_alive = req_ka
        method = "GET"

    class _Writer:
        def __init__(self):
            self.chunking = False
            self.length = "unset"

        def enable_chunking(self):
            self.chunking = True

    w = _Writer()
    headers = CIMultiDict()
    if length is not None:
        headers["Content-Length"] = str(length)
    # the application may have put a Transfer-Encoding header on the response itself (headers={...})
    caller_te = u.choose(2, "caller_supplied_transfer_encoding") == 1
    if caller_te:
        headers["Transfer-Encoding"] = "chunked"
    r = u.obj("StreamResponse", {"_req": _Req(), "_payload_writer": w, "_keep_alive": ka0, "_headers": headers,
                                 "_cookies": None, "_compression": False, "_chunked": chunked, "_length_check": True,
                                 "_must_be_empty_body": empty, "status": 204 if empty else 200},
              {"prop.content_length": lambda self: length}, shared=False)
    f = u.load(WRSP, "StreamResponse._prepare_headers",
               globals={"rfc822_formatted_time": lambda: "DATE", "should_remove_content_length": lambda m, s: True})
    out = u.call(f, r)
    if not out.ok:
        u.check("C02.server.chunked_needs_11", isinstance(out.exc, RuntimeError) and chunked and v == HttpVersion10,
                f"the only refusal is chunked encoding on HTTP/1.0: {out!r}")
        return
    h = fields(r)["_headers"]
    cl, te = "Content-Length" in h, has_chunked(h)
    ka = fields(r)["_keep_alive"]
    u.check("C02.frame.resp.writer_agrees_with_headers", w.chunking == te,
            "the response body is chunk-framed exactly when the header says Transfer-Encoding: chunked",
            known=[("F2e", bool(caller_te and te and not w.chunking))],
            witness={"caller_supplied_transfer_encoding": caller_te, "content_length": length, "chunked": chunked})
    # (state invariant of StreamResponse assumed here: enable_chunked_encoding() refuses a response that has a
    # Content-Length and the content_length setter refuses a chunked one - the pair _chunked + Content-Length arises only
    # by writing to resp.headers behind their back)
    u.check("C02.frame.resp.not_both", not (te and cl) or bool(chunked and length is not None),
            "never Transfer-Encoding: chunked next to Content-Length (RFC 9112 6.2)",
            known=[("F2e", bool(caller_te and te and cl))],
            witness={"caller_supplied_transfer_encoding": caller_te, "content_length": length, "chunked": chunked})
    if empty:
        u.check("C02.frame.resp.bodiless_has_no_framing", not te and not cl and not w.chunking,
                "1xx / 204 / 304 / HEAD responses carry neither Transfer-Encoding nor a body framing")
    else:
        delimited_by_close = not te and not (cl and w.length is not None)
        u.check("C02.frame.resp.length_mode", Implies(bool(cl and not te), w.length == length),
                "with Content-Length the writer is limited to exactly that many bytes")
        # keep-alive agreement: what the client derives (C02.ka.* in contracts/c01.py): HTTP/1.0 closes unless
        # 'Connection: keep-alive', HTTP/1.1 stays open unless 'Connection: close'
        conn = h.get("Connection", "").lower()
        client_closes = (conn != "keep-alive") if v == HttpVersion10 else (conn == "close")
        F2a = bool(v == HttpVersion10 and delimited_by_close and ka is True)
        u.check("C02.ka.response_agreement", (not ka) == client_closes,
                "server keeps the connection open exactly when the response tells the client it may reuse it",
                known=[("F2a", F2a)], witness={"version": tuple(v), "request_keep_alive": req_ka, "override": ka0,
                                               "length": length, "chunked": chunked, "Connection": conn, "resp.keep_alive": ka})
        u.check("C02.frame.resp.body_is_delimited", Or(te, bool(cl), not ka),
                "a response body is delimited by length, by chunking, or by the server closing the connection",
                known=[("F2a", F2a)], witness={"version": tuple(v), "length": length})
    u.check("C02.ka.default_from_request", ka0 is not None or ka in (req_ka, False),
            "without an override the keep-alive wish of the request is the starting point")


@unit("C02", "client.status_line", functions=["aiohttp.http_parser:HttpResponseParser.parse_message"], also=("C10",))
def client_status_line(u: U):
    """HttpResponseParser.parse_message: the client's reading of the status line and its connection-reuse decision.
    An explicit Connection token wins; without one an HTTP/1.0 (or older) response closes, an HTTP/1.1 response keeps
    the connection exactly when its body is delimited without closing (1xx/204/304, Content-Length or Transfer-Encoding).
    This is the receiver rule the server's keep-alive decision (server.prepare_headers) is matched against."""
    from pyvc.text import SText

    from aiohttp import http_exceptions as E

    # ASSUMED str.split contract (whitespace separated, maxsplit=1): one or two parts without leading whitespace
    version = SText.fresh("version")
    status = SText.fresh("status")
    reason = SText.fresh("reason")
    for q in (version, status, reason):
        q.may_have_surrogates = True
    n1 = u.choose(2, "status_line.parts") + 1
    n2 = u.choose(2, "status_part.parts") + 1

    class _Rest:
        _pyvc_sym = True

        def split(self, sep=None, maxsplit=-1):
            assert sep is None and maxsplit == 1
            return [status, reason][:n2]

        def strip(self):
            return status

    class _Line:
        _pyvc_sym = True

        def split(self, sep=None, maxsplit=-1):
            assert sep is None and maxsplit == 1
            return [version, _Rest()][:n1]

        def sym_str(self):
            return "STATUS-LINE"

        def __format__(self, spec):
            return "STATUS-LINE"

    class _Raw:
        def decode(self, enc, err):
            return _Line()

    close = (None, True, False)[u.choose(3, "close")]
    has_cl, has_te = u.bool("has_content_length"), u.bool("has_transfer_encoding")
    ph_raises = u.choose(2, "parse_headers_raises") == 1

    class _HH:
        def sym_contains(self, name):
            return {"Content-Length": has_cl, "Transfer-Encoding": has_te}[str(name)]

    def parse_headers(self, lines):
        if ph_raises:
            raise E.BadHttpMessage("bad header")
        return _HH(), "RAW", close, None, False, u.bool("chunked")

    p = u.obj("HttpResponseParser", {}, {"parse_headers": parse_headers})
    f = u.load("aiohttp.http_parser", "HttpResponseParser.parse_message")
    out = u.call(f, p, [_Raw(), "HEADER-LINES"])
    if not out.ok:
        u.check("C10.escape.parse_message_response", isinstance(out.exc, E.HttpProcessingError),
                f"only HTTP protocol errors (-> client error) may escape parse_message, got {type(out.exc).__name__}")
        return
    u.cover("C02.status_line.accepted")
    m = out.value
    v, code = m.version, m.code
    u.check("C02.status.three_digits", And(code >= 0, code <= 999, z3.Length(status.t) == 3)
            if is_sym(code) else False, "the status code is exactly three ASCII digits")
    if close is not None:
        u.check("C02.ka.response_explicit", m.should_close is close, "an explicit Connection token wins")
        return
    old = Or(v.major < 1, And(v.major == 1, v.minor == 0))
    delimited = Or(And(code >= 100, code < 200), code == 204, code == 304, has_cl, has_te)
    sc = m.should_close
    u.check("C02.ka.response_default", And(Implies(old, sc), Implies(And(Not(old), delimited), Not(sc)),
                                           Implies(And(Not(old), Not(delimited)), sc)),
            "without a Connection token: an HTTP/1.0 response closes (the server closes it: server.prepare_headers), "
            "an HTTP/1.1 response is reusable exactly when its end does not depend on the connection closing",
            witness={"version": (v.major, v.minor), "code": code, "content_length": has_cl, "transfer_encoding": has_te,
                     "should_close": sc})


@unit("C02", "server.start_compression", functions=[f"{WRSP}:StreamResponse._do_start_compression"])
def server_start_compression(u: U):
    """StreamResponse._do_start_compression for every coding x bodiless-or-not: the stream writer gets a compressor
    exactly when a body will follow.  (A compressor writes its end-of-stream bytes at write_eof even when nothing was
    written - contracts/c04.py - so on a HEAD / 204 / 304 response those bytes would follow the header block.)"""
    from multidict import CIMultiDict

    from aiohttp.web_response import ContentCoding

    coding = (ContentCoding.identity, ContentCoding.gzip, ContentCoding.deflate)[u.choose(3, "coding")]
    empty = u.choose(2, "must_be_empty_body") == 1
    had_cl = u.choose(2, "had_content_length") == 1
    calls = []

    class _Writer:
        def enable_compression(self, encoding="deflate", strategy=None):
            calls.append((encoding, strategy))

    headers = CIMultiDict()
    if had_cl:
        headers["Content-Length"] = "5"
    r = u.obj("StreamResponse", {"_payload_writer": _Writer(), "_headers": headers, "_compression_strategy": "STRATEGY",
                                 "_must_be_empty_body": empty}, {}, shared=False)
    f = u.load(WRSP, "StreamResponse._do_start_compression")
    out = u.call(f, r, coding)
    u.check("C02.compress.total", out.ok, f"{out!r}")
    if empty or coding is ContentCoding.identity:
        u.check("C02.compress.bodiless_gets_no_compressor", not calls,
                "a response that must not have a body (HEAD, 1xx, 204, 304) never gets a compressing writer: its "
                "end-of-stream bytes would be put on the wire after the header block and read as the next response",
                known=[("F2b", bool(empty and calls))], witness={"coding": coding.value, "empty": empty})
    else:
        u.check("C02.compress.body_compressed_as_announced",
                calls == [(coding.value, "STRATEGY")] and headers.get("Content-Encoding") == coding.value
                and "Content-Length" not in headers,
                "a body announced as Content-Encoding: X is compressed with X, and the stale Content-Length is dropped")


PAYLOAD = "aiohttp.payload"
FN_IOW = "payload:IOBasePayload.write_with_length"


@unit("C02", "payload.file_body_complete", functions=[f"{PAYLOAD}:IOBasePayload.write_with_length",
                                                      f"{PAYLOAD}:IOBasePayload._should_stop_writing"], also=("C04",))
def payload_file_body(u: U):
    """IOBasePayload.write_with_length (file, pipe, socket-file and text-file bodies of requests and responses): every
    chunk read is written - whole, or cut at the announced length - in order, and the copy ends only at end of file
    (an empty read), when the known size has been written or when the announced length is used up.  A short read is not
    end of file: pipes, sockets and raw streams return what they have."""
    from pyvc import blen, mk_int, tint
    from pyvc.values import SBytes

    cl = None if u.choose(2, "content_length_given") == 0 else u.int("content_length", 0)
    size = None if u.choose(2, "size_known") == 0 else u.int("size", 0)
    reads, writes = [], []

    def read_chunk(n):
        b = u.bytes("chunk_read")
        u.assume(blen(b) <= n)  # io.RawIOBase.read(n): at most n bytes, b'' only at end of file
        reads.append(b)
        return b

    def read_and_available_len(self, remaining):
        return size, read_chunk(65536)

    def read(self, n):
        return read_chunk(n)

    class _Loop:
        def run_in_executor(self, ex, fn, *args):
            return SAwait(result=lambda: fn(*args), name="executor.read")

    class _Asyncio:
        @staticmethod
        def get_running_loop():
            return _Loop()

    class _Writer:
        def write(self, data):
            writes.append(data)
            return SAwait(name="writer.write")

    p = u.obj("IOBasePayload", {}, {"_read_and_available_len": read_and_available_len, "_read": read},
              shared=False, real=(PAYLOAD, "IOBasePayload"))
    f = u.load(PAYLOAD, "IOBasePayload.write_with_length", globals={"asyncio": _Asyncio})
    head = {}

    def stop_spec(avail, written, remaining):
        return Or(And(avail is not None, written >= avail) if avail is not None else False,
                  (remaining <= 0) if remaining is not None else False)

    def inv(L):
        items = [("written_nonneg", L["total_written_len"] >= 0)]
        if cl is not None:
            # what is left of the announced length: the announced length minus everything handed on so far
            items.append(("remaining_tracks_written", L["remaining_content_len"] == cl - L["total_written_len"]))
            items.append(("remaining_nonneg", L["remaining_content_len"] >= 0))
        return items

    def at_head(L):
        head.update(chunk=L["chunk"], nwrites=len(writes), remaining=L.get("remaining_content_len"))

    def at_back(L):
        ch = SBytes.of(head["chunk"])
        new = writes[head["nwrites"]:]
        n = blen(ch)
        want = n if cl is None else mk_int(z3.If(tint(n) < tint(head["remaining"]), tint(n), tint(head["remaining"])))
        u.check("C02.payload.chunk_written_once_in_order",
                len(new) == 1 and tbool_(SBytes.of(new[0]).prov_eq(ch.slice(0, want))) if len(new) == 1 else False,
                "each chunk read from the file is handed to the writer exactly once, whole or cut at what is left of "
                "the announced length",
                # C04 (truthful framing): never more body bytes than the announced Content-Length - a text file is read
                # by characters and re-encoded, so a chunk can be longer than the bytes that were asked for
                also_as=("C04.frame.file_body_cut_at_announced_length",))

    def tbool_(x):
        return x

    u.loop(FN_IOW, 0, inv=inv, at_head=at_head, at_back=at_back,
           types={"chunk": lambda nm: SBytes.fresh(nm, register=False),
                  "remaining_content_len": (lambda nm: None) if cl is None else (lambda nm: u.int(nm))})
    out = u.call(f, p, _Writer(), cl)
    u.check("C02.payload.write.total", out.ok, f"{out!r}")
    if not out.ok:
        return
    L = u.last_locals.get(FN_IOW, {})
    if head and len(writes) > head["nwrites"]:
        # the iteration that ended the copy (it leaves through `return`, not through the back edge)
        at_back(L)
    last = L.get("chunk")
    at_eof = blen(last) == 0 if last is not None else False
    u.check("C02.payload.file_body_complete",
            Or(at_eof, stop_spec(L.get("available_len"), L.get("total_written_len"), L.get("remaining_content_len"))),
            "the copy ends only at end of file (an empty read), or when the payload's known size / the announced "
            "Content-Length has been written: a read shorter than the chunk size is not the end of a pipe or socket",
            witness={"last_chunk_len": blen(last) if last is not None else None, "size": size, "content_length": cl,
                     "written": L.get("total_written_len")})


@unit("C02", "server.response_compression", functions=[f"{WRSP}:Response._do_start_compression"])
def server_response_compression(u: U):
    """Response._do_start_compression for every body kind (none, bytes, Payload) x chunked x coding: total (a response
    without a body is a legal thing to compress: nothing), a fixed bytes body is compressed as a whole and announced with
    its compressed length, streamed / payload bodies are handed to the stream writer's compressor"""
    from multidict import CIMultiDict

    from aiohttp.payload import Payload
    from aiohttp.web_response import ContentCoding

    coding = (ContentCoding.identity, ContentCoding.gzip, ContentCoding.deflate)[u.choose(3, "coding")]
    kind = u.choose(3, "body_kind")  # 0 none, 1 bytes, 2 Payload
    chunked = u.choose(2, "chunked") == 1
    log = []

    class _P(Payload):
        def __init__(self):
            pass

        def decode(self, *a, **k):
            return ""

        def write(self, writer):
            return None

    class _Z:
        def __init__(self, **kw):
            log.append(("compressor", kw.get("encoding")))

        def compress(self, data):
            log.append(("compress", data))
            return SAwait(result=b"COMP", name="compress")

        def flush(self):
            return b"END"

    def super_start(self, c):
        log.append(("writer_compression", c))
        return SAwait(name="StreamResponse._do_start_compression")

    body = (None, b"BODY", _P())[kind]
    headers = CIMultiDict()
    r = u.obj("Response", {"_chunked": chunked, "_body": body, "_compressed_body": None, "_headers": headers,
                           "_zlib_executor_size": None, "_zlib_executor": None},
              {"super._do_start_compression": super_start}, shared=False)
    f = u.load(WRSP, "Response._do_start_compression", globals={"ZLibCompressor": _Z})
    out = u.call(f, r, coding)
    u.check("C02.compress.response.total", out.ok,
            f"enable_compression() never makes a response fail, whatever its body - a Response without a body too: {out!r}",
            known=[("F2d", kind == 0 and not chunked and coding is not ContentCoding.identity)],
            witness={"body": ("none", "bytes", "payload")[kind], "chunked": chunked, "coding": coding.value})
    if not out.ok:
        return
    cb = fields(r)["_compressed_body"]
    if chunked or kind == 2:
        u.check("C02.compress.response.streamed_by_writer", log == [("writer_compression", coding)] and cb is None,
                "chunked and payload bodies are compressed by the stream writer as they are written")
    elif coding is ContentCoding.identity or kind == 0:
        u.check("C02.compress.response.nothing_to_do", cb is None and "Content-Encoding" not in headers and not log,
                "identity coding, or no body at all: nothing is compressed and no Content-Encoding is announced")
    else:
        u.check("C02.compress.response.whole_body", cb == b"COMPEND" and ("compress", body) in log
                and headers.get("Content-Encoding") == coding.value and headers.get("Content-Length") == str(len(b"COMPEND")),
                "a fixed body is compressed as a whole (compress + flush) and announced with the coding and the compressed length")


@unit("C02", "server.write_eof", functions=[f"{WRSP}:Response.write_eof"])
def server_write_eof(u: U):
    """Response.write_eof for every body kind (none, bytes, pre-compressed bytes, Payload) x bodiless-or-not: the bytes
    put on the wire after the header block are exactly the body the headers announced - nothing at all for a response
    that must be empty (HEAD, 1xx, 204, 304), whose headers carry no framing (server.prepare_headers)"""
    from aiohttp.payload import Payload

    kind = u.choose(4, "body_kind")  # 0 none, 1 bytes, 2 bytes + compressed copy, 3 Payload
    empty = u.choose(2, "must_be_empty_body") == 1
    log = []

    class _P(Payload):
        def __init__(self):  # no Payload.__init__: only the type matters to the function under contract
            pass

        def write(self, writer):
            log.append(("payload.write", writer))
            return SAwait(name="payload.write", raises=(ConnectionResetError("gone"),))

        def close(self):
            log.append(("payload.close",))
            return SAwait(name="payload.close")

        def decode(self, *a, **k):
            return ""

    body = (None, b"BODY", b"BODY", _P())[kind]
    compressed = b"COMPRESSED" if kind == 2 else None

    def super_write_eof(self, data=b""):
        log.append(("write_eof", data))
        return SAwait(name="StreamResponse.write_eof")

    r = u.obj("Response", {"_eof_sent": False, "_body": body, "_compressed_body": compressed, "_req": "REQ",
                           "_payload_writer": "WRITER", "_must_be_empty_body": empty},
              {"super.write_eof": super_write_eof}, shared=False)
    f = u.load(WRSP, "Response.write_eof")
    out = u.call(f, r)
    wire = [e for e in log if e[0] in ("payload.write", "write_eof")]
    if out.ok:
        u.check("C02.frame.resp.eof_once", [e[0] for e in wire].count("write_eof") == 1 and wire[-1][0] == "write_eof",
                "the response is ended exactly once, after the body")
    sent_payload = [e for e in wire if e[0] == "payload.write"]
    sent_bytes = [e[1] for e in wire if e[0] == "write_eof" and e[1]]
    if empty or kind == 0:
        u.check("C02.frame.resp.bodiless_sends_no_body", not sent_payload and not sent_bytes,
                "a response that must not have a body (HEAD, 1xx, 204, 304: no framing in its headers) puts no body byte "
                "on the wire, whatever body object it was given - the client would read them as the next response",
                witness={"body_kind": ("none", "bytes", "compressed", "payload")[kind], "wire": repr(wire)})
    elif kind == 3:
        u.check("C02.frame.resp.payload_written_once", len(sent_payload) == 1 and sent_payload[0][1] == "WRITER" and not sent_bytes,
                "a Payload body is written once, through the response's framing writer")
    else:
        u.check("C02.frame.resp.bytes_body_exact", not sent_payload and sent_bytes == [compressed if kind == 2 else body],
                "a bytes body goes out exactly once: the compressed copy when there is one (its length is the announced one)")
    if kind == 3 and sent_payload:
        u.check("C02.frame.resp.payload_closed", ("payload.close",) in log, "a payload that was opened for writing is closed, also on error")


@unit("C02", "canary.always_chunked", functions=[f"{RR}:ClientRequest._create_writer"], expect="canary")
def canary_client(u: U):
    """deliberately false: every request writer chunks"""
    class _Writer:
        def __init__(self, *a, **k):
            self.chunking = False

        def enable_chunking(self):
            self.chunking = True

    chunked = (None, False, True)[u.choose(3, "chunked")]
    req = u.obj("ClientRequest", {"chunked": chunked, "loop": None, "_traces": [], "compress": False, "method": "POST",
                                  "url": "URL"}, {}, shared=False)
    f = u.load(RR, "ClientRequest._create_writer", globals={"StreamWriter": _Writer})
    o = u.call(f, req, "PROTO")
    u.check("C02.canary", o.ok and o.value.chunking, "false")


@unit("C02", "server.stream_write", functions=[f"{WRSP}:StreamResponse.write", f"{WRSP}:StreamResponse.write_eof"],
      also=("C04",))
def server_stream_write(u: U):
    """StreamResponse.write / write_eof after prepare(): what the handler writes reaches the payload writer unchanged -
    except for a response that ends with its header block while the connection goes on speaking HTTP (the answer to a
    HEAD request - a GET handler serves HEAD too -, status 204, status 304): nothing of it may reach the wire, where it
    would be read as the beginning of the next response.  (101 and a successful CONNECT are left alone: what follows
    them is the new protocol's data.)"""
    from pyvc import blen

    method = ("GET", "HEAD", "POST", "CONNECT")[u.choose(4, "method")]
    status = (200, 204, 304, 101, 404)[u.choose(5, "status")]
    from aiohttp.helpers import must_be_empty_body

    log = []

    class _PW:
        output_size = 0

        def write(self, data):
            log.append(("write", data))
            return SAwait(name="writer.write")

        def write_eof(self, data=b""):
            log.append(("write_eof", data))
            return SAwait(name="writer.write_eof")

    class _Req:
        pass

    req = _Req()
    req.method = method
    r = u.obj("StreamResponse", {"_eof_sent": False, "_payload_writer": _PW(), "_req": req, "_status": status,
                                 "_must_be_empty_body": must_be_empty_body(method, status), "_body_length": 0},
              {}, shared=False, real=(WRSP, "StreamResponse"))
    which = ("write", "write_eof")[u.choose(2, "which")]
    data = u.bytes("data")
    u.assume(blen(data) > 0)
    f = u.load(WRSP, f"StreamResponse.{which}")
    out = u.call(f, r, data)
    u.check("C02.stream.write.total", out.ok, repr(out))
    if not out.ok:
        return
    ends_with_headers = method == "HEAD" or status in (204, 304)
    sent = [e[1] for e in log if blen(e[1]) > 0] if log else []
    if ends_with_headers:
        u.check("C02.frame.stream.bodiless_sends_no_body", all(blen(e[1]) == 0 for e in log),
                f"{method} / {status}: nothing the handler writes reaches the wire",
                known=[("F4f", True)], witness={"method": method, "status": status, "call": which},
                also_as=("C04.frame.stream.bodiless_sends_no_body",))
    else:
        u.check("C02.stream.write.data_passed_unchanged", len(log) == 1 and log[0][0] == which and log[0][1] is data,
                "the data goes to the payload writer as it is, once")
    if which == "write_eof":
        u.check("C02.stream.write_eof.ends_once", [e[0] for e in log] == ["write_eof"] and fields(r)["_eof_sent"] is True,
                "the message is ended exactly once")
