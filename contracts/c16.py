"""C16 - cookies are sent only where RFC 6265 scoping allows.

Functions under contract (real text from /repo, aiohttp/cookiejar.py):
  CookieJar._is_domain_match, update_cookies, filter_cookies, _delete_cookies, _expire_cookie, _do_expiration,
  save, _load_json_data and the two live fold functions _FORMAT_DOMAIN_REVERSED / _FORMAT_PATH.
Spec side (RFC 6265): domain-match 5.1.3, default-path / path-match 5.1.4, storage model 5.3, selection 5.4.

Decomposition.  The jar keeps cookies in `_cookies[(domain, path)][name]`; the representation invariant I16 is
   dom :  cookie["domain"] == key.domain                 (the host-only test of filter_cookies reads cookie["domain"])
   path:  cookie["path"] == key.path ++ "/"?  and begins with "/"   (lookup key = cookie path minus one trailing "/")
   exp :  the deadline of a cookie is `_expirations[(key.domain, key.path, name)]`, and that entry is on the heap
   cache: `_morsel_cache[key][name]`, when present, was built from the cookie now stored under key/name
 * update_cookies is the only writer of `_cookies` entries: its loop body is executed for one arbitrary (name, morsel)
   against an arbitrary jar and must (a) store only inside the response host's domain, (b) establish I16 for the stored
   cookie, (c) set the host-only flag exactly for cookies without a usable Domain attribute.
 * filter_cookies is executed for one arbitrary candidate pair of the enumeration and one arbitrary cookie stored under
   it (I16 assumed); every `filtered[name] = ...` must be justified by domain-match, host-only, path-match, Secure and
   must be preceded by the expiry sweep.  The enumeration itself (accumulate over split) is handled by two induction
   lemmas over the LIVE fold functions.
"""
import z3

from pyvc import And, Iff, Implies, Not, Or, SBool, SInt, U, fields, is_sym, mk_bool, mk_int, stubs, tbool, tint
from pyvc import regexlang as RL
from pyvc.registry import unit
from pyvc.text import SText, SplitParts, from_fmt, sval

MOD = "aiohttp.cookiejar"
FN_UPD = "cookiejar:CookieJar.update_cookies"
FN_FLT = "cookiejar:CookieJar.filter_cookies"
FN_DEL = "cookiejar:CookieJar._delete_cookies"
FN_EXP = "cookiejar:CookieJar._do_expiration"
FN_SAVE = "cookiejar:CookieJar.save"
FN_LOAD = "cookiejar:CookieJar._load_json_data"

S = z3.StringSort()
IP = z3.Function("is_ip_address", S, z3.BoolSort())


def live():
    import importlib

    from pyvc import instrument

    instrument._ensure_repo_on_path()
    return importlib.import_module(MOD)


def is_ip(h):
    """aiohttp.helpers.is_ip_address: ASSUMED a total predicate of the host text, False for None / ''"""
    stubs.used("helpers.is_ip_address(host): a pure predicate of the text; False for None and for ''")
    if h is None:
        return False
    if isinstance(h, str):
        from aiohttp.helpers import is_ip_address

        return is_ip_address(h)
    return mk_bool(z3.And(h.t != sval(""), IP(h.t)))


# ---------------------------------------------------------------------------------------------------------------
# spec side


def spec_domain_match(domain: SText, host: SText):
    """RFC 6265 5.1.3: identical, or domain is a suffix, the char before it is '.', and the host is not an IP"""
    d, h = SText.of(domain), SText.of(host)
    return Or(mk_bool(d.t == h.t),
              And(mk_bool(d.t != sval("")), mk_bool(z3.SuffixOf(z3.Concat(sval("."), d.t), h.t)), Not(is_ip(h))))


def spec_path_match(cookie_path: SText, req_path: SText):
    """RFC 6265 5.1.4: identical; or a prefix that ends in '/'; or a prefix followed by '/' in the request path"""
    cp, rp = SText.of(cookie_path), SText.of(req_path)
    return Or(mk_bool(cp.t == rp.t),
              And(mk_bool(z3.PrefixOf(cp.t, rp.t)), mk_bool(z3.SuffixOf(sval("/"), cp.t))),
              mk_bool(z3.PrefixOf(z3.Concat(cp.t, sval("/")), rp.t)))


def spec_default_path(uri_path: SText):
    """RFC 6265 5.1.4 default-path: '/' unless the uri path starts with '/' and has a further '/', in which case it is
    the uri path up to, not including, its right-most '/'.  Returned as a predicate on the candidate result."""
    from pyvc import ctx

    up = SText.of(uri_path)
    c = ctx()
    # the cut of the uri path at its right-most "/" (up == head ++ "/" ++ last, no "/" in last) is the str.rfind
    # primitive of the text model; it is memoised per text, so the spec and the code under contract name the same
    # cut and what is checked is the arithmetic the code does around it (which slice, which corner cases)
    if not c.branch(z3.PrefixOf(sval("/"), up.t), "spec.uri_path_absolute"):
        return lambda r: SText.of(r).t == sval("/")
    head, _last = up.rfind_parts("/")
    if c.branch(head == sval(""), "spec.single_slash"):
        return lambda r: SText.of(r).t == sval("/")
    return lambda r: SText.of(r).t == head


def ctx_fresh(nm):
    from pyvc import ctx

    return ctx().fresh_name(nm)


# ---------------------------------------------------------------------------------------------------------------
# stubs of the standard-library objects the jar is built from (ASSUMED dict / set / Morsel semantics)


class Mors:
    """http.cookies.Morsel: a dict of reserved attributes plus key/value/coded_value"""

    _reserved = {"expires": "expires", "path": "Path", "comment": "Comment", "domain": "Domain", "max-age": "Max-Age",
                 "secure": "Secure", "httponly": "HttpOnly", "version": "Version", "samesite": "SameSite",
                 "partitioned": "Partitioned"}

    def __init__(self, u=None, tag="m", attrs=None, key=None):
        self.u = u
        self.tag = tag
        self.attrs = dict(attrs or {})
        self.key = key
        self.value = "v"
        self.coded_value = "v"
        self.log = []
        self.state = None

    def __getitem__(self, k):
        if k not in self.attrs:
            raise KeyError(k)
        return self.attrs[k]

    def __setitem__(self, k, v):
        self.log.append(("set", k, v))
        self.attrs[k] = v

    def __delitem__(self, k):
        self.log.append(("del", k))
        del self.attrs[k]

    def __setstate__(self, st):
        self.state = st
        self.key = st["key"]
        self.value = st["value"]
        self.coded_value = st["coded_value"]

    def __ne__(self, o):
        return Not(self.__eq__(o))

    def __eq__(self, o):
        if o is None:
            return False
        if o is self:
            return True
        return self.u.bool("equal_to_stored")

    __hash__ = object.__hash__


class Bucket:
    """one SimpleCookie / dict of the jar: `_cookies[key]` or `_morsel_cache[key]`"""

    def __init__(self, table, key):
        self.table = table
        self.key = key

    def get(self, name, default=None):
        return self.table.lookup(self.key, name, default)

    def __getitem__(self, name):
        r = self.table.lookup(self.key, name, KeyError)
        if r is KeyError:
            raise KeyError(name)
        return r

    def __setitem__(self, name, v):
        self.table.log.append(("set", self.key, name, v))
        self.table.written[(id(self.key), id(name))] = v

    def pop(self, name, *d):
        self.table.log.append(("pop", self.key, name))
        return None

    def sym_contains(self, name):
        return self.table.has(self.key, name)

    def items(self):
        return self.table.items_of(self.key)

    def values(self):
        return [v for _, v in self.table.items_of(self.key)]


class Table:
    """defaultdict keyed by (domain, path): arbitrary content; reads are answered by the unit"""

    def __init__(self, u, name, lookup=None, has=None, items_of=None, nonempty=True):
        self.u = u
        self.name = name
        self.log = []
        self.written = {}
        self._lookup = lookup
        self._has = has
        self._items = items_of
        self.nonempty = nonempty

    def __getitem__(self, key):
        return Bucket(self, key)

    def lookup(self, key, name, default):
        w = self.written.get((id(key), id(name)))
        if w is not None:
            return w
        return self._lookup(key, name, default) if self._lookup else default

    def has(self, key, name):
        if (id(key), id(name)) in self.written:
            return True
        return self._has(key, name) if self._has else self.u.bool(f"{self.name}.has")

    def items_of(self, key):
        return self._items(key) if self._items else []

    def sym_contains(self, key):
        return self.u.bool(f"{self.name}.has_key")

    def __bool__(self):
        return self.nonempty

    def clear(self):
        self.log.append(("clear",))


class PairSet:
    """set of tuples (the host-only table): membership answered by the unit, updates logged"""

    def __init__(self, u, member=None):
        self.u = u
        self.log = []
        self.member = member

    def add(self, k):
        self.log.append(("add", k))

    def discard(self, k):
        self.log.append(("discard", k))

    def sym_contains(self, k):
        self.log.append(("query", k))
        return self.member(k) if self.member else self.u.bool("host_only.member")

    def clear(self):
        self.log.append(("clear",))


def text_eq(a, b):
    """equality of two str-like values (SText / str / None) as a contract term"""
    if a is None or b is None:
        return a is b
    return SText.of(a) == SText.of(b)


# ---------------------------------------------------------------------------------------------------------------
# 1. domain-match


# (z3's sequence solver leaves two of these queries `unknown`; they are decided by cvc5 - a short z3 budget avoids
#  waiting for the inevitable)
@unit("C16", "domain_match", functions=[f"{MOD}:CookieJar._is_domain_match"], timeout_ms=3000)
def domain_match(u: U):
    """_is_domain_match(domain, hostname) decides exactly RFC 6265 5.1.3 for every pair of strings"""
    d, h = SText.fresh("domain"), SText.fresh("hostname")
    f = u.load(MOD, "CookieJar._is_domain_match", globals={"is_ip_address": is_ip})
    out = u.call(f, d, h)
    u.check("C16.domain.total", out.ok, f"no exception: {out!r}")
    if out.ok:
        u.check("C16.domain.equals_rfc6265_5_1_3", Iff(out.value, spec_domain_match(d, h)),
                "result <=> (host == domain or host ends with '.'+domain, domain non-empty, host not an IP)")
        u.cover("C16.domain.true" if u.branch(out.value, "dm.result") else "C16.domain.false")


@unit("C16", "canary.domain_suffix", functions=[f"{MOD}:CookieJar._is_domain_match"], expect="canary")
def canary_domain(u: U):
    """deliberately false: a plain suffix test would be enough (evil-example.com vs example.com)"""
    d, h = SText.fresh("domain"), SText.fresh("hostname")
    f = u.load(MOD, "CookieJar._is_domain_match", globals={"is_ip_address": is_ip})
    out = u.call(f, d, h)
    if out.ok:
        u.check("C16.canary", Iff(out.value, mk_bool(z3.SuffixOf(d.t, h.t))), "false: suffix-lookalike hosts")


# ---------------------------------------------------------------------------------------------------------------
# 2. acceptance: update_cookies


class _Url:
    def __init__(self, raw_host=None, path="", scheme=None, origin=None):
        self.raw_host = raw_host
        self.path = path
        self.scheme = scheme
        self._origin = origin

    def origin(self):
        return self._origin


class _MaxAge:
    """a non-empty Max-Age attribute: int() gives any integer or raises ValueError"""

    _pyvc_sym = True

    def __init__(self, u):
        self.u = u

    def __bool__(self):
        return True

    def sym_int(self, base=10):
        if self.u.branch(self.u.bool("max_age.is_numeral"), "max_age.valid"):
            self.delta = self.u.int("max_age.delta")
            return self.delta
        raise ValueError("invalid literal for int()")


def mk_jar(u: U, **over):
    J = live()
    f = {"_unsafe": u.bool("unsafe"), "_quote_cookie": True, "MAX_TIME": J.CookieJar.MAX_TIME,
         "_cookies": Table(u, "cookies"), "_morsel_cache": Table(u, "cache"), "_host_only_cookies": PairSet(u),
         "_expirations": None, "_expire_heap": None, "_treat_as_secure_origin": frozenset()}
    f.update(over.pop("fields", {}))
    jar = u.obj("CookieJar", f, over.pop("methods", {}), shared=False)
    return jar


@unit("C16", "accept", functions=[f"{MOD}:CookieJar.update_cookies"], timeout_ms=30000)
def accept(u: U):
    """update_cookies: one arbitrary (name, morsel) of the response, arbitrary jar, arbitrary response URL"""
    ev = []
    has_host = u.choose(2, "response_url.has_host") == 0
    hostname = SText.fresh("hostname") if has_host else None
    if has_host:
        # precondition: the response host is a host name / address as DNS or a connector can produce it - not empty
        # and without an empty leading label (yarl lets 'http://.c/' through; no resolver returns such a host)
        u.assume(hostname != "")
        u.assume(Not(hostname.startswith(".")))
    upath = SText.fresh("url_path")
    dom_attr = SText.fresh("attr.domain")
    path_attr = SText.fresh("attr.path")
    k = u.choose(2, "attr.max_age")
    max_age = "" if k == 0 else _MaxAge(u)
    expires = "" if u.choose(2, "attr.expires") == 0 else SText.fresh("attr.expires")
    cookie = Mors(u, "new", {"domain": dom_attr, "path": path_attr, "max-age": max_age, "expires": expires,
                             "secure": u.bool("attr.secure")}, key="n")
    name = "n"
    old = u.choose(2, "stored.old")  # 0: nothing stored under key/name, 1: some cookie already stored
    old_cookie = Mors(u, "old")

    def dm(self, d, h):
        ev.append(("dm", d, h))
        b = u.bool("dm.result")
        u.assume(Iff(b, spec_domain_match(d, h)))  # contract of _is_domain_match (unit C16.domain_match)
        return b

    now = u.real("now")
    parsed = {}

    def parse_date(self, s):
        # _parse_date: None for an unparsable date, else its POSIX timestamp - which is 0 for the epoch, the date
        # servers conventionally send to delete a cookie ("Thu, 01 Jan 1970 00:00:00 GMT")
        parsed["ts"] = None if u.choose(2, "parse_date") == 0 else u.int("date", 0)
        return parsed["ts"]

    class _ExpLog:
        """the deadline table seen from update_cookies: only removals matter here (additions go through _expire_cookie)"""

        def pop(self, key, default=None):
            ev.append(("deadline.forget", key))
            return default

        def get(self, key, default=None):
            return default

    jar = mk_jar(u, fields={"_cookies": Table(u, "cookies", lookup=lambda key, nm, d: old_cookie if old else d),
                            "_expirations": _ExpLog()},
                 methods={"_is_domain_match": dm,
                          "_expire_cookie": lambda self, when, d, p, n: ev.append(("expire", when, d, p, n)),
                          "_do_expiration": lambda self: ev.append(("sweep",)),
                          "_parse_date": parse_date})

    class _time:
        @staticmethod
        def time():
            return now

    f = u.load(MOD, "CookieJar.update_cookies",
               globals={"is_ip_address": is_ip, "Morsel": Mors, "time": _time, "Mapping": dict})
    u.loop(FN_UPD, 0, unroll=True, bound=2)
    out = u.call(f, jar, [(name, cookie)], _Url(hostname, upath))
    u.check("C16.accept.total", out.ok, f"no exception for any attribute values: {out!r}")
    if not out.ok:
        return
    cookies_t = fields(jar)["_cookies"]
    cache_t = fields(jar)["_morsel_cache"]
    ho = fields(jar)["_host_only_cookies"]
    stores = [e for e in cookies_t.log if e[0] == "set"]
    adds = [e for e in ho.log if e[0] == "add"]
    u.check("C16.accept.single_store", len(stores) <= 1, "at most one table write per Set-Cookie")
    ip_refused = And(Not(fields(jar)["_unsafe"]), is_ip(hostname))
    u.check("C16.accept.ip_refused", Implies(ip_refused, len(stores) == 0 and len(adds) == 0),
            "a response from an IP-address host stores nothing unless the jar is unsafe")
    no_domain = Or(dom_attr == "", dom_attr.endswith("."))
    if has_host and not u.branch(ip_refused, "ip_refused"):
        marked = len(adds) == 1
        u.check("C16.accept.host_only_iff_no_domain", Iff(no_domain, marked),
                "the host-only flag is set exactly when the Domain attribute is empty or ignored (trailing dot)")
        if marked:
            u.check("C16.accept.host_only_key", And(text_eq(adds[0][1][0], hostname), adds[0][1][1] is name),
                    "flag is recorded for (response host, this cookie name)")
    if not has_host:
        u.check("C16.accept.no_host_no_flag", len(adds) == 0, "no response host: no host-only flag")
    if not stores:
        u.cover("C16.accept.rejected")
        if not old:
            # nothing was stored under this key before, so "not stored" means the Set-Cookie was REFUSED (with a
            # stored cookie it may also mean "identical cookie already there", where a deadline update is legitimate)
            u.check("C16.accept.rejected_touches_no_deadline", not any(e[0] == "expire" for e in ev),
                    "a Set-Cookie that is refused (foreign domain, IP host) leaves the deadline tables alone: one site "
                    "can neither delete nor prolong another site's cookie")
        return
    u.cover("C16.accept.stored")
    _, key, nm, stored = stores[0]
    kd, kp = key
    u.check("C16.accept.stores_this_cookie", stored is cookie and nm is name, "the morsel stored is the one received")
    if has_host:
        u.check("C16.accept.own_domain_only", spec_domain_match(kd, hostname),
                "a response sets a cookie only under a domain that domain-matches its own host")
        u.check("C16.accept.host_only_exact", Implies(no_domain, text_eq(kd, hostname)),
                "a cookie without Domain is stored under exactly the response host")
        u.check("C16.accept.I16_dom", text_eq(cookie.attrs.get("domain"), kd),
                "I16.dom: cookie['domain'] == key domain (read by the host-only test of filter_cookies)")
        u.check("C16.accept.key_domain_nonempty", Not(text_eq(kd, "")), "the shared key ('', *) is not reachable from a response")
    cp = cookie.attrs["path"]
    cpt, kpt = SText.of(cp), SText.of(kp)
    u.check("C16.accept.I16_path",
            And(mk_bool(z3.PrefixOf(sval("/"), cpt.t)),
                Or(mk_bool(cpt.t == kpt.t), mk_bool(cpt.t == z3.Concat(kpt.t, sval("/"))))),
            "I16.path: cookie['path'] begins with '/' and the lookup key is that path minus at most one trailing '/'")
    use_default = Or(path_attr == "", Not(path_attr.startswith("/")))
    if u.branch(use_default, "default_path"):
        u.check("C16.accept.default_path", mk_bool(spec_default_path(upath)(cpt)),
                "RFC 6265 5.1.4 default-path of the response URL")
    else:
        u.check("C16.accept.path_attr_kept", text_eq(cp, path_attr), "an absolute Path attribute is kept verbatim")
    # cache invalidation and deadline bookkeeping use the same key
    pops = [e for e in cache_t.log if e[0] == "pop"]
    u.check("C16.accept.cache_invalidated",
            len(pops) == 1 and pops[0][1] is key and pops[0][2] is name,
            "I16.cache: a replaced cookie's cached morsel is dropped (same key, same name)")
    exps = [e for e in ev if e[0] == "expire"]
    for e in exps:
        u.check("C16.accept.deadline_key", And(text_eq(e[2], kd), text_eq(e[3], kp), e[4] is name),
                "I16.exp: the deadline is filed under the key the cookie is stored under")
    if isinstance(max_age, _MaxAge) and hasattr(max_age, "delta") and exps:
        delta = max_age.delta
        u.check("C16.accept.max_age_deadline",
                Or(exps[0][1] == now + delta, exps[0][1] == live().CookieJar.MAX_TIME),
                "deadline = now + Max-Age, capped")
    if parsed.get("ts") is not None:
        u.check("C16.accept.expires_deadline", len(exps) == 1 and exps[0][1] is parsed["ts"],
                "a parsable Expires date - including the epoch - becomes the cookie's deadline (an Expires in the past is "
                "how a server deletes a cookie: it must not turn into a session cookie)",
                known=[("F16c", parsed["ts"] == 0)], witness={"Set-Cookie": "n=v; Expires=Thu, 01 Jan 1970 00:00:00 GMT"})
    # RFC 6265 5.2.2 / 5.3 step 3: a Max-Age whose value is not a number is IGNORED (as if absent), so an Expires
    # attribute next to it decides the lifetime; a valid Max-Age has precedence over Expires
    max_age_counts = isinstance(max_age, _MaxAge) and hasattr(max_age, "delta")
    if not max_age_counts and not isinstance(expires, str):
        u.check("C16.accept.expires_applies_when_max_age_is_absent_or_invalid", Or("ts" in parsed, expires == ""),
                "with no usable Max-Age the Expires attribute is consulted: 'Max-Age=abc; Expires=<a past date>' must not "
                "yield a cookie that is kept and sent indefinitely",
                known=[("F16d", isinstance(max_age, _MaxAge))], witness={"Set-Cookie": "n=v; Max-Age=abc; Expires=Tue, 01 Jan 1980 12:00:00 GMT"})
    if not exps:
        # the cookie stored now has no lifetime attribute that counts: it is a session cookie.  It REPLACES whatever was
        # stored under its key (RFC 6265 5.3 step 11), lifetime included - a deadline left over from the cookie it
        # replaces would delete it early
        forgot = [e for e in ev if e[0] == "deadline.forget"]
        u.check("C16.accept.session_cookie_forgets_old_deadline",
                len(forgot) == 1 and And(text_eq(forgot[0][1][0], kd), text_eq(forgot[0][1][1], kp), forgot[0][1][2] is name)
                if forgot else False,
                "a cookie stored without a (valid) Max-Age / Expires drops the deadline recorded for the cookie it replaces",
                known=[("F16e", True)], witness={"history": "Set-Cookie: a=1; Max-Age=10   then   Set-Cookie: a=2"})
    u.check("C16.accept.sweep_after", bool(ev) and ev[-1] == ("sweep",),
            "expired cookies (Max-Age <= 0) are swept before update_cookies returns")


# ---------------------------------------------------------------------------------------------------------------
# 3. selection: filter_cookies


class _Filtered:
    def __init__(self):
        self.sets = []

    def __setitem__(self, k, v):
        self.sets.append((k, v))


class _Acc:
    def __init__(self, parts, f):
        self.parts = parts
        self.f = f


def enum_fact_domain(d: SText, hostname: SText):
    """a member of accumulate(reversed(host.split('.')), '{1}.{0}'.format): the host or a dot-suffix of it"""
    return Or(mk_bool(d.t == hostname.t), mk_bool(z3.SuffixOf(z3.Concat(sval("."), d.t), hostname.t)))


def enum_fact_path(p: SText, rpath: SText):
    """a member of accumulate(path.split('/'), '{}/{}'.format): the path or a prefix of it that is followed by '/'"""
    return Or(mk_bool(p.t == rpath.t), mk_bool(z3.PrefixOf(z3.Concat(p.t, sval("/")), rpath.t)))


@unit("C16", "enum.lemmas", kind="lemma", functions=[f"{MOD}:_FORMAT_DOMAIN_REVERSED", f"{MOD}:_FORMAT_PATH"])
def enum_lemmas(u: U):
    """induction over itertools.accumulate with the LIVE fold functions (ASSUMED: accumulate(xs, f) yields x0,
    f(x0,x1), ...; sep.join(text.split(sep)) == text)"""
    J = live()
    stubs.used("itertools.accumulate / product, str.split / join: documented stdlib semantics")
    which = u.choose(2, "lemma")
    if which == 0:
        # path: rpath == acc ++ "/" ++ part ++ tail, tail == "" or begins with "/" (the remaining parts)
        rpath, acc, part, tail = (SText.fresh(n) for n in ("rpath", "acc", "part", "tail"))
        u.assume(mk_bool(rpath.t == z3.Concat(acc.t, sval("/"), part.t, tail.t)))
        u.assume(Or(tail == "", tail.startswith("/")))
        new = from_fmt(J._FORMAT_PATH(acc, part))
        u.check("C16.enum.path.step", enum_fact_path(new, rpath), "fold step keeps 'prefix at a / boundary'")
        first = SText.fresh("first")
        u.assume(Or(first == rpath, mk_bool(z3.PrefixOf(z3.Concat(first.t, sval("/")), rpath.t))))
        u.check("C16.enum.path.base", enum_fact_path(first, rpath), "first part of split('/')")
    else:
        host, acc, lab, rest = (SText.fresh(n) for n in ("host", "acc", "label", "rest"))
        # host == rest ++ label ++ "." ++ acc, rest == "" or ends with "."
        u.assume(mk_bool(host.t == z3.Concat(rest.t, lab.t, sval("."), acc.t)))
        u.assume(Or(rest == "", rest.endswith(".")))
        new = from_fmt(J._FORMAT_DOMAIN_REVERSED(acc, lab))
        u.check("C16.enum.domain.step", enum_fact_domain(new, host), "fold step keeps 'dot-suffix of the host'")


def _mk_itertools(u, hostname, rpath, J):
    class _it:
        @staticmethod
        def accumulate(parts, f):
            return _Acc(parts, f)

        @staticmethod
        def product(domains, paths):
            # one arbitrary pair of the product
            if isinstance(domains, tuple):
                d = domains[0]
            else:
                assert isinstance(domains, _Acc) and domains.f is J._FORMAT_DOMAIN_REVERSED, "domain enumeration changed"
                sp = domains.parts
                assert isinstance(sp, SplitParts) and sp.rev and sp.sep == "." and sp.src is hostname
                d = SText.fresh("pair.domain")
                u.assume(enum_fact_domain(d, hostname))  # lemma C16.enum.domain.*
            assert isinstance(paths, _Acc) and paths.f is J._FORMAT_PATH, "path enumeration changed"
            sp = paths.parts
            assert isinstance(sp, SplitParts) and not sp.rev and sp.sep == "/" and sp.src is rpath
            p = SText.fresh("pair.path")
            u.assume(enum_fact_path(p, rpath))  # lemma C16.enum.path.*
            return [(d, p)]

    return _it


@unit("C16", "select", functions=[f"{MOD}:CookieJar.filter_cookies"], timeout_ms=30000)
def select(u: U):
    """filter_cookies: one arbitrary candidate pair, one arbitrary cookie stored under it (I16 assumed)"""
    J = live()
    ev = []
    hostname = SText.fresh("hostname")
    rpath = SText.fresh("request_path")
    u.assume(rpath.startswith("/"))
    u.assume(hostname != "")  # a request URL without host is outside the property
    scheme = SText.fresh("scheme")
    name = "n"
    c_dom, c_path = SText.fresh("cookie.domain"), SText.fresh("cookie.path")
    secure = u.choose(2, "cookie.secure") == 1
    cookie = Mors(u, "stored", {"domain": c_dom, "path": c_path, "secure": secure, "max-age": "", "expires": ""}, key=name)
    is_ho = u.bool("host_only.member")
    cached = Mors(u, "cached")
    built = Mors(u, "built")
    holder = {}

    def items_of(key):
        if key == ("", ""):
            return []  # shared cookies (added by the user without a URL) are outside the property
        holder["key"] = key
        kd, kp = key
        # I16 for the stored cookie (established by update_cookies: unit C16.accept)
        u.assume(text_eq(c_dom, kd))
        # I16: cookies set by a response have a non-empty key domain (C16.accept.key_domain_nonempty); cookies the
        # application adds without a URL live under ('', path) and are outside the property
        u.assume(Not(text_eq(c_dom, "")))
        u.assume(mk_bool(z3.PrefixOf(sval("/"), c_path.t)))
        u.assume(Or(text_eq(c_path, kp), mk_bool(c_path.t == z3.Concat(SText.of(kp).t, sval("/")))))
        return [(name, cookie)]

    def member(k):
        holder["ho_query"] = k
        return is_ho

    trusted = u.choose(2, "treat_as_secure_origin")
    origin_trusted = u.bool("origin_trusted")

    class _Origins:
        def __bool__(self):
            return True

        def sym_contains(self, x):
            return origin_trusted

    cache_hit = u.bool("cache.hit")
    jar = mk_jar(u, fields={"_cookies": Table(u, "cookies", items_of=items_of),
                            "_morsel_cache": Table(u, "cache", lookup=lambda key, nm, d: cached,
                                                   has=lambda key, nm: cache_hit),
                            "_host_only_cookies": PairSet(u, member),
                            "_treat_as_secure_origin": _Origins() if trusted else frozenset()},
                 methods={"_do_expiration": lambda self: ev.append(("sweep",)),
                          "_build_morsel": lambda self, c: (ev.append(("build", c)), built)[1]})

    class _Ctxlib:
        @staticmethod
        def suppress(*a):
            import contextlib

            return contextlib.suppress(*a)

    url = _Url(hostname, rpath, scheme, origin="ORIGIN")
    filt = []

    def mk_filtered():
        f_ = _Filtered()
        filt.append(f_)
        return f_

    f = u.load(MOD, "CookieJar.filter_cookies",
               globals={"is_ip_address": is_ip, "URL": _Url, "BaseCookie": mk_filtered,
                        "itertools": _mk_itertools(u, hostname, rpath, J)})
    for k in range(3):
        u.loop(FN_FLT, k, unroll=True, bound=2)
    out = u.call(f, jar, url)
    u.check("C16.select.total", out.ok, f"no exception: {out!r}")
    if not out.ok:
        return
    sets = filt[0].sets if filt else []
    if not sets:
        u.cover("C16.select.skipped")
        return
    u.cover("C16.select.sent")
    u.check("C16.select.once", len(sets) == 1 and sets[0][0] is name, "the cookie is attached once, under its name")
    kd, kp = holder["key"]
    u.check("C16.select.swept_first", ev and ev[0] == ("sweep",), "expired cookies are removed before selection")
    u.check("C16.select.domain_match", spec_domain_match(c_dom, hostname),
            "sent only to a host that domain-matches the cookie's domain")
    u.check("C16.select.ip_needs_unsafe", Implies(is_ip(hostname), fields(jar)["_unsafe"]),
            "nothing but shared cookies goes to an IP host unless the jar is unsafe")
    q = holder.get("ho_query")
    u.check("C16.select.host_only_consulted", q is not None and q[1] is name,
            "the host-only table is consulted for this cookie's name before sending")
    if q is not None:
        u.check("C16.select.host_only_key", text_eq(q[0], c_dom), "... under the cookie's own domain")
    u.check("C16.select.host_only_exact", Implies(is_ho, text_eq(c_dom, hostname)),
            "a host-only cookie goes only to exactly its host")
    u.check("C16.select.path_match", spec_path_match(c_path, rpath), "RFC 6265 5.1.4 path-match")
    sec_ok = Or(scheme == "https", scheme == "wss", And(bool(trusted), origin_trusted))
    u.check("C16.select.secure", Implies(secure, sec_ok), "a Secure cookie needs https/wss or a trusted origin")
    v = sets[0][1]
    u.check("C16.select.value_of_this_cookie",
            (v is cached) or (v is built and ("build", cookie) in ev),
            "what is sent is the cached morsel of this key/name or one built from this cookie")
    if v is cached:
        u.check("C16.select.cache_only_on_hit", cache_hit, "the cache is used only when it has the entry")


# ---------------------------------------------------------------------------------------------------------------
# 4. deletion keeps the side tables in step


class _Log:
    def __init__(self):
        self.log = []

    def pop(self, k, *a):
        self.log.append(("pop", k))
        return None


@unit("C16", "delete", functions=[f"{MOD}:CookieJar._delete_cookies"])
def delete(u: U):
    """_delete_cookies: one arbitrary (domain, path, name) of the to-delete list"""
    d, p = SText.fresh("domain"), SText.fresh("path")
    name = "n"
    # ghost: another cookie (domain, path' != path, name) is still stored; the host-only flag (domain, name) covers it
    sibling = u.bool("sibling_exists")
    exp = _Log()
    cookies = Table(u, "cookies")

    def all_items():
        """`_cookies.items()`: the entry being deleted (until it is popped) and the Skolem witness of `sibling`"""
        stubs.used("_delete_cookies: a scan of _cookies.items() is abstracted to {the entry under deletion, one "
                   "witness entry that holds a same-named cookie of the domain iff such a sibling is stored}")
        out = []
        own_present = not any(e[0] == "pop" and e[1][0] is d and e[1][1] is p for e in cookies.log)
        own = Table(u, "own", has=lambda key, nm: own_present and nm is name)
        out.append(((d, p), own[(d, p)]))
        d2, p2 = SText.fresh("witness.domain"), SText.fresh("witness.path")
        has2 = u.bool("witness.has_name")
        u.assume(Iff(And(text_eq(d2, d), has2), sibling))
        w = Table(u, "witness", has=lambda key, nm: has2 if nm is name else False)
        out.append(((d2, p2), w[(d2, p2)]))
        return out

    cookies.items = all_items
    jar = mk_jar(u, fields={"_expirations": exp, "_cookies": cookies})
    f = u.load(MOD, "CookieJar._delete_cookies")
    u.loop(FN_DEL, 0, unroll=True, bound=2)
    out = u.call(f, jar, [(d, p, name)])
    u.check("C16.delete.total", out.ok, repr(out))
    if not out.ok:
        return
    ct, mt, ho = fields(jar)["_cookies"], fields(jar)["_morsel_cache"], fields(jar)["_host_only_cookies"]

    def same_key(e):
        return e[1][0] is d and e[1][1] is p and e[2] is name

    pops_c = [e for e in ct.log if e[0] == "pop"]
    pops_m = [e for e in mt.log if e[0] == "pop"]
    u.check("C16.delete.cookie_removed", len(pops_c) == 1 and same_key(pops_c[0]), "the cookie leaves the store")
    u.check("C16.delete.cache_removed", len(pops_m) == 1 and same_key(pops_m[0]),
            "I16.cache: its cached morsel leaves with it")
    u.check("C16.delete.deadline_removed",
            len(exp.log) == 1 and exp.log[0][1][0] is d and exp.log[0][1][1] is p and exp.log[0][1][2] is name,
            "I16.exp: its deadline leaves with it")
    disc = [e for e in ho.log if e[0] == "discard"]
    u.check("C16.delete.flag_kept_for_sibling", Implies(sibling, len(disc) == 0),
            "the host-only flag (domain, name) also covers same-named cookies on other paths: it must survive while "
            "one of them is still stored, or that cookie starts leaking to sub-domains",
            known=[("F16b", sibling)], witness={"history": "Set n (no Domain) on /a; set n on /b with Max-Age=0"})
    u.check("C16.delete.flag_dropped_when_last",
            Implies(Not(sibling), len(disc) == 1 and disc[0][1][0] is d and disc[0][1][1] is name),
            "without siblings the flag is dropped with the cookie (a later domain cookie of that name is not host-only)")


# ---------------------------------------------------------------------------------------------------------------
# 5. expiry: _expire_cookie / _do_expiration


class _Heap:
    """the expiry heap as seen from ONE tracked entry (w, k): either it is still on the heap or it is not; the other
    entries are arbitrary.  heapq is ASSUMED: heap[0] is a minimal entry, heappop removes heap[0]."""

    _pyvc_sym = True

    def __init__(self, u, w, k):
        self.u = u
        self.w = w
        self.k = k
        self.tracked_in = True
        self.n_others = u.int("heap.others", 0)
        self.top = None
        self.popped = []

    def __bool__(self):
        if self.tracked_in:
            return True
        return self.u.branch(self.n_others > 0, "heap.nonempty")

    def sym_len(self):
        return self.n_others + (1 if self.tracked_in else 0)

    def sym_getitem(self, i):
        assert i == 0, "only heap[0] is modelled"
        u = self.u
        if self.tracked_in and (u.branch(self.n_others == 0, "heap.only_tracked") or u.choose(2, "heap.top_is_tracked") == 0):
            self.top = ("tracked", self.w, self.k)
            return (self.w, self.k)
        u.assume(self.n_others > 0)
        when = u.real("heap.other.when")
        if self.tracked_in:
            u.assume(when <= self.w)  # heap property: the top is minimal
        key = ("other-key",)
        self.top = ("other", when, key)
        return (when, key)

    def pop_top(self):
        assert self.top is not None, "heappop without reading heap[0] first"
        t = self.top
        self.top = None
        if t[0] == "tracked":
            self.tracked_in = False
        else:
            self.n_others = self.n_others - 1
        self.popped.append(t)
        return (t[1], t[2])


@unit("C16", "expiry.sweep", functions=[f"{MOD}:CookieJar._do_expiration"], timeout_ms=20000)
def expiry_sweep(u: U):
    """_do_expiration: an arbitrary cookie key k whose deadline w = _expirations[k] is on the heap (I16.exp) and has
    passed (w <= now) is handed to _delete_cookies; a key whose deadline has not passed is not"""
    w = u.real("deadline")
    k = ("tracked-key",)
    now = u.real("now")
    heap = _Heap(u, w, k)
    deleted = []

    class _Expirations:
        _pyvc_sym = True

        def get(self, key, default=None):
            if key is k:
                return w
            o = u.real("exp.other")
            return o if u.choose(2, "exp.other.present") else None

        def sym_len(self):
            return u.int("n_expirations", 1)

    class _time:
        @staticmethod
        def time():
            return now

    class _heapq:
        @staticmethod
        def heappop(h):
            return h.pop_top()

        @staticmethod
        def heapify(h):
            pass

    small = u.int("heap_len_at_entry", 0)
    jar = mk_jar(u, fields={"_expire_heap": heap, "_expirations": _Expirations()},
                 methods={"_delete_cookies": lambda self, td: deleted.append(td)})
    f = u.load(MOD, "CookieJar._do_expiration", globals={"time": _time, "heapq": _heapq})
    u.assume(heap.sym_len() <= live()._MIN_SCHEDULED_COOKIE_EXPIRATION)
    stubs.used("_do_expiration: the heap-compaction branch (more than _MIN_SCHEDULED_COOKIE_EXPIRATION entries) is "
               "not explored; it keeps exactly the entries with _expirations[key] == when, hence the tracked one")
    to_del_has = {"v": False}

    def inv(L):
        td = L["to_del"]
        return [("tracked", Or(heap.tracked_in, any(x is k for x in td)))]

    # the sweep loop is the `while` over the heap, wherever it sits among the loops of the current text (the compaction's
    # comprehension, if it lives in this function, is not reached under the assumption above)
    sweep = [l["index"] for l in u.fn_infos[FN_EXP].loops if l["kind"] == "while"]
    u.check("C16.expiry.sweep_loop_found", len(sweep) == 1, f"one while loop over the heap: {u.fn_infos[FN_EXP].loops}")
    u.loop(FN_EXP, sweep[0] if sweep else 0, inv=inv, havoc=lambda L: None, keep=("to_del",))
    out = u.call(f, jar)
    u.check("C16.expiry.total", out.ok, repr(out))
    if not out.ok:
        return
    handed = any(x is k for td in deleted for x in td)
    u.check("C16.expiry.expired_deleted", Implies(w <= now, handed),
            "a cookie whose deadline has passed is deleted by the sweep that precedes every selection")
    u.check("C16.expiry.live_kept", Implies(w > now, not handed), "a cookie whose deadline lies ahead is kept")


@unit("C16", "expiry.schedule", functions=[f"{MOD}:CookieJar._expire_cookie"])
def expiry_schedule(u: U):
    """_expire_cookie establishes I16.exp: afterwards _expirations[key] == when and (when, key) is on the heap"""
    when = u.real("when")
    d, p = SText.fresh("domain"), SText.fresh("path")
    prev = u.real("previous") if u.choose(2, "has_previous") else None
    on_heap_prev = True  # I16.exp before the call
    pushes = []
    store = {}

    class _Expirations:
        def get(self, key, default=None):
            return prev

        def __setitem__(self, key, v):
            store[key] = v

    class _heapq:
        @staticmethod
        def heappush(h, e):
            pushes.append(e)

    jar = mk_jar(u, fields={"_expire_heap": [], "_expirations": _Expirations()})
    object.__setattr__(jar, "_o_real", (MOD, "CookieJar"))  # a helper split off _expire_cookie is followed
    u.module_globals[MOD] = {"heapq": _heapq}
    from pyvc import LoopSpec

    u.default_loop_spec = LoopSpec(unroll=True, bound=4)
    f = u.load(MOD, "CookieJar._expire_cookie", globals={"heapq": _heapq})
    out = u.call(f, jar, when, d, p, "n")
    u.check("C16.expiry.schedule.total", out.ok, repr(out))
    if not out.ok:
        return
    final = list(store.values())[0] if store else prev
    u.check("C16.expiry.schedule.deadline_set", final is not None and tbool_eq(final, when),
            "_expirations[key] == when afterwards")
    pushed = any(e[1][0] is d and e[1][1] is p and e[1][2] == "n" and e[0] is when for e in pushes)
    u.check("C16.expiry.schedule.on_heap", Or(pushed, And(prev is not None and on_heap_prev, tbool_eq(prev, when))),
            "(when, key) is on the heap: pushed now, or already there for the same deadline")


def tbool_eq(a, b):
    if a is None or b is None:
        return a is b
    return a == b


# ---------------------------------------------------------------------------------------------------------------
# 6. persistence: save / _load_json_data carry the host-only flag and the absolute deadline


def _full_morsel(u, tag, **attrs):
    a = {k: "" for k in Mors._reserved}
    a.update(attrs)
    return Mors(u, tag, a, key="n")


@unit("C16", "persist.save", functions=[f"{MOD}:CookieJar.save"])
def persist_save(u: U):
    """save(): one arbitrary stored cookie; what is written for it determines its scope and deadline"""
    d, p = SText.fresh("domain"), SText.fresh("path")
    name = "n"
    c_path = SText.fresh("cookie.path")
    secure = u.choose(2, "cookie.secure") == 1
    # the morsel may or may not still carry the relative attributes it was set with (a reloaded one does not)
    rel = u.choose(3, "cookie.relative_attrs")
    m = _full_morsel(u, "stored", domain=d, path=c_path, secure=secure,
                     **({"max-age": "60"} if rel == 1 else {"expires": "Wed, 09 Jun 2031 10:18:14 GMT"} if rel == 2 else {}))
    is_ho = u.bool("host_only.member")
    has_exp = u.choose(2, "deadline.present") == 1
    exp = u.real("deadline") if has_exp else None
    queried = []

    class _Exp:
        def get(self, k, default=None):
            queried.append(k)
            return exp

    cookies = Table(u, "cookies")
    bucket = Table(u, "bucket", items_of=lambda key: [(name, m)])[(d, p)]
    cookies.items = lambda: [((d, p), bucket)]
    ho_q = []

    def member(k):
        ho_q.append(k)
        return is_ho

    jar = mk_jar(u, fields={"_cookies": cookies, "_expirations": _Exp(), "_host_only_cookies": PairSet(u, member)})
    dumped = []

    class _json:
        @staticmethod
        def dump(data, f, **kw):
            dumped.append(data)

    class _File:
        def __enter__(self):
            return self

        def __exit__(self, *a):
            return False

    class _pathlib:
        @staticmethod
        def Path(x):
            return x

    f = u.load(MOD, "CookieJar.save", globals={"json": _json, "open": lambda *a, **k: _File(), "pathlib": _pathlib})
    u.loop(FN_SAVE, 0, unroll=True, bound=2)
    u.loop(FN_SAVE, 1, unroll=True, bound=2)
    u.loop(FN_SAVE, 2, unroll=True, bound=len(Mors._reserved) + 1)
    out = u.call(f, jar, "cookies.json")
    u.check("C16.persist.save.total", out.ok, repr(out))
    if not out.ok:
        return
    u.check("C16.persist.save.dumped", len(dumped) == 1 and len(dumped[0]) == 1, "one entry per (domain, path) key")
    if len(dumped) != 1 or len(dumped[0]) != 1:
        return
    (ck, entry), = dumped[0].items()
    u.check("C16.persist.save.key", from_fmt(ck) == d + "|" + p, "compound key is domain|path of the store key")
    md = entry.get(name)
    u.check("C16.persist.save.cookie_written", isinstance(md, dict), "the cookie is written under its name")
    if not isinstance(md, dict):
        return
    u.check("C16.persist.save.host_only_flag", Iff(is_ho, md.get("host_only") is True),
            "host_only is written exactly for host-only cookies")
    u.check("C16.persist.save.host_only_key", len(ho_q) >= 1 and ho_q[-1][0] is d and ho_q[-1][1] is name,
            "... decided for (key domain, this name)")
    u.check("C16.persist.save.deadline",
            (md.get("expires_timestamp") is exp) if has_exp else ("expires_timestamp" not in md),
            "the absolute deadline _expirations[(domain, path, name)] is written whenever the cookie has one - whether "
            "or not the morsel still carries Max-Age / Expires")
    if has_exp:
        u.check("C16.persist.save.deadline_key", any(k[0] is d and k[1] is p and k[2] is name for k in queried),
                "... looked up under the cookie's own key")
    def kept(attr, v):
        return md[attr] is v if attr in md else text_eq(v, "")

    u.check("C16.persist.save.scope_attrs",
            And(kept("domain", d), kept("path", c_path), (md.get("secure") is True) == secure),
            "Domain, Path and Secure are written as stored (an empty attribute is omitted)")
    u.check("C16.persist.save.no_relative_expiry", "max-age" not in md and "expires" not in md,
            "relative expiry is not persisted (it would restart the clock on load)")


@unit("C16", "persist.load", functions=[f"{MOD}:CookieJar._load_json_data"])
def persist_load(u: U):
    """_load_json_data(): one arbitrary saved cookie goes back through update_cookies with its scope and deadline"""
    # the compound key written by save() is "<domain>|<path>" (C16.persist.save.key); host names hold no "|", so the
    # saved key domain is the part before the FIRST "|" - that is the spec-side reading of the key used below
    ck = SText.fresh("compound_key")
    u.assume(ck.sym_contains("|"))
    d = SText.fresh("cookie.domain")  # Domain attribute as saved (== key domain by I16.dom, not needed here)
    name = "n"
    c_path = SText.fresh("cookie.path")
    ho = u.choose(2, "saved.host_only") == 1
    has_exp = u.choose(2, "saved.deadline") == 1
    exp = u.real("deadline") if has_exp else None
    md = {"key": name, "value": "v", "coded_value": "v", "domain": d, "path": c_path}
    if ho:
        md["host_only"] = True
    if has_exp:
        md["expires_timestamp"] = exp
    if u.choose(2, "saved.secure"):
        md["secure"] = True
    ev = []
    made = []

    def mk_morsel():
        m = _full_morsel(u, "loaded")
        made.append(m)
        return m

    def upd(self, cookies, url):
        (nm, m), = cookies.items()
        ev.append(("update", nm, m, dict(m.attrs), url))

    class _URL(_Url):
        @staticmethod
        def build(scheme=None, host=None):
            return _Url(raw_host=host, path="/", scheme=scheme)

    jar = mk_jar(u, methods={"clear": lambda self: ev.append(("clear",)), "update_cookies": upd,
                             "_expire_cookie": lambda self, when, dd, pp, nn: ev.append(("expire", when, dd, pp, nn)),
                             "_do_expiration": lambda self: ev.append(("sweep",))})
    mk_morsel._reserved = Mors._reserved
    f = u.load(MOD, "CookieJar._load_json_data", globals={"Morsel": mk_morsel, "URL": _URL})
    u.loop(FN_LOAD, 0, unroll=True, bound=2)
    u.loop(FN_LOAD, 1, unroll=True, bound=2)
    u.loop(FN_LOAD, 2, unroll=True, bound=len(Mors._reserved) + 1)
    out = u.call(f, jar, {ck: {name: md}})
    u.check("C16.persist.load.total", out.ok, repr(out))
    if not out.ok:
        return
    u.check("C16.persist.load.cleared_first", bool(ev) and ev[0] == ("clear",), "the jar is emptied before loading")
    ups = [e for e in ev if e[0] == "update"]
    u.check("C16.persist.load.through_update_cookies", len(ups) == 1 and ups[0][1] == name,
            "the cookie is stored by update_cookies (same acceptance rules, I16 re-established)")
    if len(ups) != 1:
        return
    _, _, m, attrs, url = ups[0]
    bar = sval("|")
    if url.raw_host is None:
        u.check("C16.persist.load.response_host", mk_bool(z3.PrefixOf(bar, ck.t)),
                "no response host only for the shared key ('', path)")
        kd = SText.of("")
    else:
        kd = SText.of(url.raw_host)
        # provenance set by the text model of str.split: kd is the part of `ck` before its first "|"
        cut = getattr(kd, "cut_head_of", None)
        u.check("C16.persist.load.response_host", cut is not None and cut[0] is ck and cut[1] == "|",
                "the synthetic response URL has the saved key domain (the text before the first '|') as host")
        u.check("C16.persist.load.response_host_first_bar", Not(kd.sym_contains("|")), "... cut at the FIRST '|'")
    if ho:
        u.check("C16.persist.load.host_only_restored", attrs.get("domain") == "",
                "a saved host-only cookie is offered without Domain, so update_cookies flags it host-only again")
    else:
        u.check("C16.persist.load.domain_kept", attrs.get("domain") is d, "a domain cookie keeps its Domain")
    u.check("C16.persist.load.path_secure_kept",
            attrs.get("path") is c_path and bool(attrs.get("secure")) == ("secure" in md), "Path / Secure are restored")
    exps = [e for e in ev if e[0] == "expire"]
    if has_exp:
        ok = len(exps) == 1 and ev.index(exps[0]) > ev.index(ups[0])
        u.check("C16.persist.load.deadline_restored", ok and tbool_or_false(exps[0][1] == exp), "the saved deadline is scheduled again")
        if ok:
            u.check("C16.persist.load.deadline_key",
                    And(text_eq(exps[0][2], kd), mk_bool(ck.t == z3.Concat(kd.t, bar, SText.of(exps[0][3]).t)),
                        exps[0][4] == name),
                    "... under the key the cookie was saved from: compound key == domain|path")
    else:
        u.check("C16.persist.load.no_deadline_invented", not exps, "a session cookie stays one")
    u.check("C16.persist.load.swept", ev[-1] == ("sweep",), "cookies that expired while on disk are dropped before use")


def tbool_or_false(x):
    return x if x is not None else False


# ---------------------------------------------------------------------------------------------------------------
# 7. the expiry table and the expiry heap stay in step, compaction included (wherever it is performed)
#
# I16.exp: for every key k in _expirations, the entry (_expirations[k], k) is on the heap.  The sweep finds a cookie's
# deadline only through that entry, so losing it means the cookie is sent for ever.  The units below run the real
# functions on small concrete jars (0..2 other cookies, 0..3 stale heap entries, deadlines symbolic reals) with the
# compaction threshold _MIN_SCHEDULED_COOKIE_EXPIRATION lowered (a tuning constant: the code is the same for every value),
# so that the compaction branch is taken whichever function hosts it.


def _small_jar_state(u: U, n_other_max=2, n_stale_max=3):
    keys = [("d", f"/p{i}", "n") for i in range(u.choose(n_other_max + 1, "other_cookies"))]
    exps = {k: u.real(f"deadline[{i}]") for i, k in enumerate(keys)}
    heap = [(exps[k], k) for k in keys]
    for j in range(u.choose(n_stale_max + 1, "stale_entries")):
        # a stale entry: an earlier deadline of some key (or of a key that is gone)
        owner = keys[u.choose(len(keys), f"stale[{j}].owner")] if keys and u.choose(2, f"stale[{j}].of_live_key") else ("d", "/gone", "n")
        heap.append((u.real(f"stale[{j}].when"), owner))
    return keys, exps, heap


def _all_loops_unrolled(u, fn_id, bound=12):
    for l in u.fn_infos[fn_id].loops:
        u.loop(fn_id, l["index"], unroll=True, bound=bound)


def _on_heap(heap, when, key):
    return Or(*[And(e[1] == key, tbool_eq(e[0], when)) for e in heap]) if heap else False


@unit("C16", "expiry.schedule.table_and_heap_in_step", functions=[f"{MOD}:CookieJar._expire_cookie"])
def expiry_schedule_in_step(u: U):
    """_expire_cookie on a small concrete jar, compaction threshold lowered: afterwards EVERY key of the expiry table
    - the one just scheduled included - has its current deadline on the heap (I16.exp), whether or not the heap was
    compacted on the way and whichever function performs the compaction"""
    import heapq as real_heapq

    keys, exps, heap = _small_jar_state(u)
    when = u.real("when")
    target = ("d", "/p0", "n") if u.choose(2, "reschedule_existing") and keys else ("d", "/new", "n")

    class _heapq:
        heappush = staticmethod(lambda h, e: h.append(e))
        heapify = staticmethod(lambda h: None)
        heappop = staticmethod(real_heapq.heappop)

    thr = u.choose(2, "compaction_threshold")  # 0 or 1: far below the real 100, so that compaction can trigger
    jar = mk_jar(u, fields={"_expire_heap": heap, "_expirations": dict(exps)})
    object.__setattr__(jar, "_o_real", (MOD, "CookieJar"))
    u.module_globals[MOD] = {"heapq": _heapq, "_MIN_SCHEDULED_COOKIE_EXPIRATION": thr}
    f = u.load(MOD, "CookieJar._expire_cookie")
    # every loop met here (in this function or in a helper it was split into) runs over a small concrete container
    from pyvc import LoopSpec

    u.default_loop_spec = LoopSpec(unroll=True, bound=12)
    out = u.call(f, jar, when, target[0], target[1], target[2])
    u.check("C16.expiry.in_step.total", out.ok, repr(out))
    if not out.ok:
        return
    fs = fields(jar)
    table, h = fs["_expirations"], list(fs["_expire_heap"])
    u.check("C16.expiry.in_step.deadline_recorded", target in table and tbool_eq(table[target], when), "the table holds the new deadline")
    for k in list(table):
        u.check("C16.expiry.in_step.every_deadline_on_heap", _on_heap(h, table[k], k),
                "every cookie with a deadline has that deadline on the expiry heap after scheduling (the sweep finds it "
                "only there): a compaction must not drop the entry that was just pushed, nor any other live one",
                witness={"key": k, "heap_len": len(h), "threshold": thr})


@unit("C16", "expiry.sweep.table_and_heap_in_step", functions=[f"{MOD}:CookieJar._do_expiration"])
def expiry_sweep_in_step(u: U):
    """_do_expiration on a small concrete jar, compaction threshold lowered: every cookie whose deadline has passed is
    handed to _delete_cookies, every other one keeps its heap entry (I16.exp for the survivors)"""
    import heapq as real_heapq

    keys, exps, heap = _small_jar_state(u, n_other_max=2, n_stale_max=2)
    now = u.real("now")
    real_heapq.heapify(heap)  # the jar's heap satisfies the heap property (ASSUMED for heapq's own functions)
    deleted = []

    class _time:
        time = staticmethod(lambda: now)

    thr = u.choose(2, "compaction_threshold")
    jar = mk_jar(u, fields={"_expire_heap": heap, "_expirations": dict(exps)},
                 methods={"_delete_cookies": lambda self, td: deleted.extend(td)})
    object.__setattr__(jar, "_o_real", (MOD, "CookieJar"))
    u.module_globals[MOD] = {"time": _time, "_MIN_SCHEDULED_COOKIE_EXPIRATION": thr}
    f = u.load(MOD, "CookieJar._do_expiration")
    from pyvc import LoopSpec

    u.default_loop_spec = LoopSpec(unroll=True, bound=12)
    out = u.call(f, jar)
    u.check("C16.expiry.sweep_in_step.total", out.ok, repr(out))
    if not out.ok:
        return
    h = list(fields(jar)["_expire_heap"])
    for k in keys:
        w = exps[k]
        u.check("C16.expiry.sweep_in_step.expired_deleted", Implies(w <= now, k in deleted),
                "a cookie whose deadline has passed is handed to _delete_cookies by the sweep", witness={"key": k})
        u.check("C16.expiry.sweep_in_step.live_kept_on_heap", Implies(w > now, And(k not in deleted, _on_heap(h, w, k))),
                "a cookie whose deadline lies ahead is kept, and its deadline stays on the heap", witness={"key": k})


# ---------------------------------------------------------------------------------------------------------------
# 8. clear_domain removes the cookies of a domain and of its sub-domains - and no others


@unit("C16", "clear_domain", functions=[f"{MOD}:CookieJar.clear_domain", f"{MOD}:CookieJar.clear"], kind="bounded")
def clear_domain(u: U):
    """BOUND: one jar holding a cookie for each of seven domains (the target, a sub-domain, look-alikes that share only a
    string suffix or prefix, an unrelated one, an IP address, a shared cookie without domain); targets example.com,
    sub.example.com, com.  clear_domain(d) hands exactly the cookies whose domain domain-matches d (RFC 6265 5.1.3: equal,
    or a suffix that starts at a label boundary; never for an IP address) to _delete_cookies - so that the requests to
    every other site go on carrying what a reference cookie store would attach.  The matching predicate itself is proved
    for all strings in C16.domain_match; this unit fixes which predicate clear_domain applies to which field."""
    from pyvc import LoopSpec

    target = ("example.com", "sub.example.com", "com")[u.choose(3, "target")]
    domains = ["example.com", "sub.example.com", "myexample.com", "example.com.evil.org", "other.org", "10.0.0.1", ""]
    cookies = {(d, "/"): {"n": {"domain": d, "path": "/"}} for d in domains}
    deleted = []
    dm = u.load(MOD, "CookieJar._is_domain_match")     # the real (static) predicate, run on the concrete strings
    jar = mk_jar(u, fields={"_cookies": cookies, "_expirations": {}, "_expire_heap": []},
                 methods={"_delete_cookies": lambda self, keys: deleted.extend(keys),
                          "_is_domain_match": lambda self, domain, hostname: dm(domain, hostname)})
    object.__setattr__(jar, "_o_real", (MOD, "CookieJar"))
    f = u.load(MOD, "CookieJar.clear_domain")
    u.default_loop_spec = LoopSpec(unroll=True, bound=16)
    out = u.call(f, jar, target)
    u.check("C16.clear_domain.total", out.ok, repr(out))
    if not out.ok:
        return

    def spec(cookie_domain):
        if cookie_domain == target:
            return True
        return cookie_domain.endswith("." + target) and not cookie_domain.replace(".", "").isdigit()

    want = sorted((d, "/", "n") for d in domains if spec(d))
    got = sorted(tuple(k) for k in deleted)
    u.check("C16.clear_domain.exactly_the_domain_and_its_subdomains", got == want,
            f"clear_domain({target!r}) removes {want}, got {got}: a look-alike domain (myexample.com for example.com) keeps "
            "its cookies", witness={"target": target, "deleted": got})


@unit("C16", "clear_domain.generic", functions=[f"{MOD}:CookieJar.clear_domain", f"{MOD}:CookieJar.clear"],
      must_cover=("C16.clear_domain.generic.matching_cookie_deleted", "C16.clear_domain.generic.other_cookie_kept",
                  "C16.clear_domain.generic.expired_cookie_deleted"))
def clear_domain_generic(u: U):
    """UNBOUNDED companion of the stand-in above (generic-element reasoning: the comprehension in `clear` carries nothing
    from one cookie to the next).  Three arbitrary cookies - two in one (domain, path) bucket, one in another - each with
    an arbitrary *symbolic* Domain attribute, an arbitrary deadline or none, arbitrary clock, arbitrary target domain.
    `_is_domain_match` is a recording stub that answers an arbitrary boolean per call (its own contract is proved for all
    strings in C16.domain_match).  Proved: the stub is asked exactly about (target, that cookie's Domain attribute) in
    that order; a cookie for which the answer is true is handed to _delete_cookies; a cookie is handed over only if the
    answer is true or its deadline has passed (when exactly an expired cookie goes is left open - selection checks the
    deadline itself); a cookie the stub was not asked about has expired; a cookie is handed over once."""
    target = SText.fresh("target_domain")
    now = u.real("now")
    names = [(("d1", "/"), "a"), (("d1", "/"), "b"), (("d2", "/p"), "a")]
    doms, morsels, exps, cookies = {}, {}, {}, {}
    for (bucket, name) in names:
        key = (bucket[0], bucket[1], name)
        doms[key] = SText.fresh(f"domain_attr.{bucket[0]}.{name}")
        morsels[key] = Mors(u, f"m.{bucket[0]}.{name}", {"domain": doms[key], "path": bucket[1]}, key=name)
        cookies.setdefault(bucket, {})[name] = morsels[key]
        if u.choose(2, f"has_deadline.{bucket[0]}.{name}") == 1:
            exps[key] = u.real(f"deadline.{bucket[0]}.{name}")
    deleted, asked = [], []

    def is_match(self, domain, hostname):
        ans = u.bool(f"match.{len(asked)}")
        asked.append((domain, hostname, ans))
        return ans

    class _time:
        time = staticmethod(lambda: now)

    jar = mk_jar(u, fields={"_cookies": cookies, "_expirations": dict(exps), "_expire_heap": []},
                 methods={"_delete_cookies": lambda self, keys: deleted.extend(keys), "_is_domain_match": is_match})
    object.__setattr__(jar, "_o_real", (MOD, "CookieJar"))
    u.module_globals[MOD] = {"time": _time}
    f = u.load(MOD, "CookieJar.clear_domain")
    from pyvc import LoopSpec

    u.default_loop_spec = LoopSpec(unroll=True, bound=8)
    out = u.call(f, jar, target)
    u.check("C16.clear_domain.generic.total", out.ok, repr(out))
    if not out.ok:
        return
    got = [tuple(k) for k in deleted]
    u.check("C16.clear_domain.generic.no_key_twice_and_only_jar_keys",
            len(got) == len(set(got)) and all(k in morsels for k in got),
            f"_delete_cookies receives keys of the jar, each at most once: {got}")
    for key in morsels:
        mine = [a for a in asked if a[1] is doms[key]]
        u.check("C16.clear_domain.generic.asks_target_against_cookie_domain",
                all(a[0] is target for a in mine) and len(mine) <= 1
                and all(any(a[1] is d for d in doms.values()) for a in asked),
                "the matching predicate is applied to (target domain, the cookie's own Domain attribute) - in this order "
                "(RFC 6265 5.1.3 is not symmetric: the cookies of example.com are not cleared by clear_domain('a.example.com'))",
                witness={"key": key, "asked": [(repr(a[0]), repr(a[1])) for a in asked]})
        if key in exps:
            expired = exps[key] <= now
        else:
            expired = False
        if mine:
            cond = Or(expired, mine[0][2])
        else:
            # short-circuit: the predicate is not consulted for a cookie that has expired anyway
            u.check("C16.clear_domain.generic.predicate_skipped_only_when_expired", expired,
                    "every cookie that has not expired is put to the domain test", witness={"key": key})
            cond = expired
        handed = key in got
        if mine:
            u.check("C16.clear_domain.generic.matching_cookie_leaves", Implies(mine[0][2], handed),
                    "a cookie whose domain domain-matches the target is handed to _delete_cookies: no cookie of the cleared "
                    "site stays", witness={"key": key, "deleted": got})
        u.check("C16.clear_domain.generic.only_matching_or_expired_leave", Implies(handed, cond),
                "a cookie leaves the jar only if its domain domain-matches the target or its deadline has passed: no other "
                "site loses a live cookie (whether an expired one goes now or at the next sweep is left open)",
                witness={"key": key, "deleted": got})
        if handed and mine and key not in exps:
            u.cover("C16.clear_domain.generic.matching_cookie_deleted")
        if not handed:
            u.cover("C16.clear_domain.generic.other_cookie_kept")
        if handed and key in exps and not mine:
            u.cover("C16.clear_domain.generic.expired_cookie_deleted")
