"""C07 - connection pool: limits hold, nothing leaks, no waiter is forgotten (safety clauses).

Functions under contract (real text, aiohttp/connector.py, class BaseConnector):
  _available_connections, _release_acquired, _release_waiter, _wait_for_available_connection, _get, connect,
  _release
State is abstract: _acquired is a set with cardinality, _acquired_per_host / _conns / _waiters are maps restricted
to the connection keys a unit names (K = key of the request under consideration, O = some other key).
Concurrency: every await is a suspension point at which all connector state is havocked subject to the class
invariant I7 and the rely condition "only the owner removes its own placeholder / waiter" (atomic sections).
"""
import asyncio

import z3

from pyvc import And, Implies, Ite, Not, Or, SBool, U, fields, is_sym, mk_bool, mk_int, stubs, tbool, tint
from pyvc.containers import Elem, Entry, SFutQueue, SMap, SSet
from pyvc.registry import unit
from pyvc.values import methods as _methods

MOD = "aiohttp.connector"
CLS = "BaseConnector"
K, O = "K", "O"


def fid(n):
    return f"connector:{CLS}.{n}"


class Key:
    def __init__(self, name, is_ssl=False):
        self.name = name
        self.is_ssl = is_ssl

    def __repr__(self):
        return self.name

    def __hash__(self):
        return hash(self.name)


def mk_future(u):
    def mk(name):
        f = Elem(name)
        f._done = u.bool(f.name + ".done")
        f.done = lambda: f._done
        f.set_result = lambda v: (u.event("set_result", f), setattr(f, "_done", True))[0]
        f.cancel = lambda: u.event("cancel", f)
        f.cancelled = lambda: False
        return f

    return mk


def mk_proto(u, name="proto"):
    p = Elem(name)
    p._connected = u.bool(p.name + ".connected")
    p.is_connected = lambda: p._connected
    p.transport = f"transport({p.name})"
    p.should_close = u.bool(p.name + ".should_close")
    p.close = lambda: u.event("proto.close", p)
    p.abort = lambda: u.event("proto.abort", p)
    p.closed = None
    return p


class PairDeque:
    """deque[(protocol, t0)] of idle pooled connections: `count` entries; popleft yields a fresh protocol that is
    not in _acquired (pool and acquired are disjoint: an idle connection is not in use)"""

    def __init__(self, u, name, conn):
        self.u, self.name, self.conn = u, name, conn
        self.count = u.int(name + ".count", 0)
        self.appended = []

    def __bool__(self):
        return self.u.branch(self.count + len(self.appended) != 0, f"{self.name}.nonempty")

    def popleft(self):
        if self.u.branch(self.count > 0, f"{self.name}.has"):
            self.count = self.count - 1
            p = mk_proto(self.u, "pooled")
            acq = fields(self.conn)["_acquired"]
            self.u.c.add(z3.Not(z3.Select(acq.mem, p.eid)))
            for e in fields(self.conn)["_acquired_per_host"].entries.values():
                if isinstance(e.val, SSet):
                    self.u.c.add(z3.Not(z3.Select(e.val.mem, p.eid)))
            return p, self.u.real("t0")
        if self.appended:
            return self.appended.pop(0)
        raise IndexError("pop from an empty deque")

    def append(self, x):
        self.appended.append(x)

    def sym_len(self):
        return self.count + len(self.appended)


def mk_connector(u: U, keys=(K, O)):
    keyobjs = {k: Key(k, bool(u.choose(2, f"{k}.is_ssl")) if k == K else False) for k in keys}
    acq = SSet.fresh("acquired")
    aph = SMap("_acquired_per_host", {keyobjs[k]: Entry(u.bool(f"aph.{k}.present"), SSet.fresh(f"aph.{k}")) for k in keys},
               default=lambda k: SSet.empty(f"aph.{k}.new"))
    waiters = SMap("_waiters", {keyobjs[k]: Entry(u.bool(f"waiters.{k}.present"), SFutQueue.fresh(f"waiters.{k}", mk_future(u)))
                                for k in keys},
                   default=lambda k: SFutQueue(f"waiters.{k}.new", z3.IntVal(0), z3.IntVal(0), mk_future(u)))
    c = u.obj(CLS, {
        "_limit": u.int("limit", 0),
        "_limit_per_host": u.int("limit_per_host", 0),
        "_closed": u.bool("closed"),
        "_acquired": acq,
        "_acquired_per_host": aph,
        "_waiters": waiters,
        "_force_close": u.bool("force_close"),
        "_keepalive_timeout": u.real("keepalive_timeout"),
        "_cleanup_closed_disabled": u.bool("cleanup_closed_disabled"),
        "_cleanup_closed_transports": [],
        "_cleanup_handle": None,
        "_timeout_ceil_threshold": 5,
        "_placeholder_future": "PLACEHOLDER_FUTURE",
    }, {}, const=("_limit", "_limit_per_host", "_force_close", "_keepalive_timeout", "_cleanup_closed_disabled"))
    conns = SMap("_conns", {}, default=None)
    fs = fields(c)
    fs["_conns"] = conns
    for k in keys:
        conns.entries[keyobjs[k]] = Entry(u.bool(f"conns.{k}.present"), PairDeque(u, f"conns.{k}", c))
    conns.default = lambda k: PairDeque(u, f"conns.{k}.new", c)
    fs["_loop"] = type("Loop", (), {"create_future": staticmethod(lambda: mk_future(u)("waiter")),
                                     "is_closed": staticmethod(lambda: False)})()
    return c, keyobjs


def card(s):
    return mk_int(s.card)


def aph_card(c, key):
    e = c._acquired_per_host.entries[key]
    return Ite(mk_bool(e.present), card(e.val), 0)


def I7(c, keys):
    """class invariant (safety part), named conjuncts"""
    acq = c._acquired
    items = [
        ("cfg", And(c._limit >= 0, c._limit_per_host >= 0)),
        ("limit", Implies(And(Not(c._closed), c._limit > 0), card(acq) <= c._limit)),
        ("card", card(acq) >= 0),
    ]
    for k in keys:
        e = c._acquired_per_host.entries[k]
        pres = mk_bool(e.present)
        items += [
            (f"limit_per_host.{k}", Implies(And(Not(c._closed), c._limit_per_host > 0, pres), card(e.val) <= c._limit_per_host)),
            (f"per_host_nonempty.{k}", Implies(pres, card(e.val) >= 1)),
            (f"per_host_subset.{k}", Implies(And(pres, Not(c._closed)), e.val.subset_of(acq))),
            (f"per_host_only_with_limit.{k}", Implies(And(pres, Not(c._closed)), c._limit_per_host > 0)),
        ]
    items.append(("closed_is_empty", Implies(c._closed, card(acq) == 0)))
    return items


def assume_all(u, items):
    for _, cond in items:
        u.assume(cond)


def check_all(u, prefix, items):
    for n, cond in items:
        u.check(f"{prefix}.{n}", cond)


def avail_spec(c, key):
    """documented meaning of _available_connections: capacity left for `key` (>= 1 means a slot is free)"""
    lim_ok = Or(c._limit == 0, card(c._acquired) < c._limit)
    host_ok = Or(c._limit_per_host == 0, aph_card(c, key) < c._limit_per_host)
    return And(lim_ok, host_ok)


def havoc_connector(u, c, keyobjs, *, mine=None, mine_key=None, my_waiter=None):
    """interference at a suspension point: everything other tasks / callbacks may have done"""
    fs = fields(c)
    fs["_closed"] = u.bool("closed'")

    def reset_set(s, nm):
        f = SSet.fresh(nm)
        s.card, s.mem = f.card, f.mem

    # containers are havocked IN PLACE: locals of the suspended coroutine may alias them
    reset_set(fs["_acquired"], "acquired'")
    for k, ko in keyobjs.items():
        e = fs["_acquired_per_host"].entries[ko]
        e.present = tbool(u.bool(f"aph.{k}.present'"))
        reset_set(e.val, f"aph.{k}'")
        w = fs["_waiters"].entries[ko]
        w.present = tbool(u.bool(f"waiters.{k}.present'"))
        fq = SFutQueue.fresh(f"waiters.{k}'", mk_future(u))
        w.val.count, w.val.live, w.val.added, w.val.front = fq.count, fq.live, [], []
        cn = fs["_conns"].entries[ko]
        cn.present = tbool(u.bool(f"conns.{k}.present'"))
        cn.val.count, cn.val.appended = u.int(f"conns.{k}.count'", 0), []
    assume_all(u, I7(c, list(keyobjs.values())))
    if my_waiter is not None:
        # rely: a queued, not yet woken waiter stays queued (only _release_waiter / its owner remove it)
        w = fs["_waiters"].entries[my_waiter[0]]
        w.present = True
        w.val.added.append(my_waiter[1])
    if mine is not None:
        # rely: nobody but the owner (or close()) removes the owner's placeholder
        u.assume(Implies(Not(c._closed), c._acquired.contains(mine)))
        e = c._acquired_per_host.entries[mine_key]
        u.assume(Implies(And(Not(c._closed), c._limit_per_host > 0), And(mk_bool(e.present), e.val.contains(mine))))


# ---------------------------------------------------------------------------


@unit("C07", "avail", functions=[f"{MOD}:{CLS}._available_connections"])
def avail_unit(u: U):
    """_available_connections(key) >= 1 iff a slot is free under both limits (0 = unlimited)."""
    c, ko = mk_connector(u)
    assume_all(u, I7(c, list(ko.values())))
    f = u.load(MOD, f"{CLS}._available_connections")
    out = u.call(f, c, ko[K])
    u.check("C07.avail.total", out.ok, f"{out.exc!r}")
    if out.ok:
        r = out.value
        u.check("C07.avail.iff_capacity", And(Implies(r >= 1, avail_spec(c, ko[K])), Implies(avail_spec(c, ko[K]), r >= 1)),
                "result >= 1 exactly when one more connection for this key keeps both limits")
        u.check("C07.avail.exact",
                Implies(And(c._limit > 0, c._limit_per_host > 0),
                        r == Ite(c._limit - card(c._acquired) <= 0, c._limit - card(c._acquired),
                                 Ite(c._limit - card(c._acquired) > c._limit_per_host - aph_card(c, ko[K]),
                                     c._limit_per_host - aph_card(c, ko[K]), c._limit - card(c._acquired)))),
                "with both limits set the result is min(total remaining, per-host remaining)")
        u.check("C07.avail.pure", len(object.__getattribute__(c, "_o_stores")) == 0, "no state is written")


def bind_real(u, c, names, g=None):
    for n in names:
        f = u.load(MOD, f"{CLS}.{n}", globals=g)
        _methods(c)[n] = (lambda ff: lambda self, *a, **k: ff(self, *a, **k))(f)


@unit("C07", "release_acquired", functions=[f"{MOD}:{CLS}._release_acquired"])
def release_acquired_unit(u: U):
    """_release_acquired removes exactly this protocol from the accounting, keeps I7 and passes the freed slot on
    (calls _release_waiter) - unless the connector is closed."""
    c, ko = mk_connector(u)
    keys = list(ko.values())
    assume_all(u, I7(c, keys))
    bind_real(u, c, ["_available_connections"])
    _methods(c)["_release_waiter"] = lambda self: u.event("_release_waiter", card(self._acquired))
    p = mk_proto(u)
    member = c._acquired.contains(p)
    e = c._acquired_per_host.entries[ko[K]]
    # the protocol belongs to key K: if it is in a per-host set it is the one of K
    u.assume(Not(c._acquired_per_host.entries[ko[O]].val.contains(p)))
    u.assume(Implies(And(mk_bool(e.present), e.val.contains(p)), member))
    c._acquired.assume_member_counts(p)  # cardinality axiom instances
    e.val.assume_member_counts(p)
    card0, closed0 = card(c._acquired), c._closed
    f = u.load(MOD, f"{CLS}._release_acquired")
    out = u.call(f, c, ko[K], p)
    u.check("C07.release_acquired.total", out.ok, f"{out.exc!r}")
    if not out.ok:
        return
    check_all(u, "C07.inv.release_acquired", I7(c, keys))
    wakes = [ev for ev in u.events if ev[0] == "_release_waiter"]
    u.check("C07.release_acquired.effect",
            Implies(Not(closed0), And(card(c._acquired) == card0 - Ite(member, 1, 0), Not(c._acquired.contains(p)))),
            "the protocol is no longer counted; nothing else is removed")
    u.check("C07.wake.on_release", And(Implies(Not(closed0), len(wakes) == 1), Implies(closed0, len(wakes) == 0)),
            "every release of a slot is followed by _release_waiter() in the same atomic step")
    if wakes:
        u.check("C07.wake.after_accounting", wakes[0][1] == card(c._acquired),
                "waiters are woken after the slot has been freed (they see the updated count)")


class _Random:
    def __init__(self, u):
        self.u = u

    def shuffle(self, xs):
        stubs.used("random.shuffle: any permutation")
        if len(xs) == 2 and self.u.choose(2, "shuffle.swap"):
            xs[0], xs[1] = xs[1], xs[0]


@unit("C07", "release_waiter", functions=[f"{MOD}:{CLS}._release_waiter"])
def release_waiter_unit(u: U):
    """_release_waiter wakes exactly one live waiter of some key that has capacity, if there is one; it wakes
    nobody only if no key with capacity has a live waiter."""
    c, ko = mk_connector(u)
    keys = list(ko.values())
    assume_all(u, I7(c, keys))
    bind_real(u, c, ["_available_connections"])
    f = u.load(MOD, f"{CLS}._release_waiter", globals={"random": _Random(u)})
    live0 = {}
    for k in keys:
        e = c._waiters.entries[k]
        live0[k] = Ite(mk_bool(e.present), e.val.live_total(), 0)
    cap = {k: avail_spec(c, k) for k in keys}
    FN = fid("_release_waiter")
    state = {}

    def inv(L):
        q = L["waiters"]
        return [("queue_wf", And(q.count >= 0, q.live >= 0, q.live <= q.count)),
                ("nobody_woken_yet", len([e for e in u.events if e[0] == "set_result"]) == 0)]

    def havoc(L):
        q = L["waiters"]
        nm = u.c.fresh_name("q@loop")
        state["live_head_ghost"] = q.live  # live waiters can only decrease by being popped
        q.count, q.live = z3.Int(nm + ".count"), z3.Int(nm + ".live")
        q.added, q.front = [], []
        u.c.add(z3.And(q.count >= 0, q.live >= 0, q.live <= q.count))

    u.loop(FN, 0, unroll=True)  # for key in queues: a concrete list of the named keys
    u.loop(FN, 1, inv=inv, havoc=havoc, keep=("waiters",), variant=lambda L: L["waiters"].length())
    out = u.call(f, c)
    u.check("C07.release_waiter.total", out.ok, f"{out.exc!r}")
    if not out.ok:
        return
    woken = [e for e in u.events if e[0] == "set_result"]
    u.check("C07.wake.at_most_one", len(woken) <= 1, "one freed slot wakes at most one waiter")
    for e in woken:
        u.check("C07.wake.only_live", Not(e[1]._done0) if hasattr(e[1], "_done0") else True, "only a not-done waiter is woken")
    if not woken and "live_head_ghost" not in state:
        # no loop was entered / every visited queue was found empty without popping: nobody could have been woken
        pass
    L = u.last_locals.get(FN, {})
    if not woken:
        # returned without waking: every key with capacity must have no live waiter left
        for k in keys:
            e = c._waiters.entries[k]
            live_now = Ite(mk_bool(e.present), e.val.live_total(), 0)
            u.check(f"C07.wake.none_forgotten.{k}", Implies(cap[k], live_now == 0),
                    "if nobody was woken, no key with a free slot still has a live waiter queued")
    check_all(u, "C07.inv.release_waiter", I7(c, keys))


@unit("C07", "wait_for_slot", functions=[f"{MOD}:{CLS}._wait_for_available_connection"], also=("C18",))
def wait_for_slot_unit(u: U):
    """_wait_for_available_connection: the waiter is queued before suspending, removed on every exit, the function
    returns only when a slot is free (checked after the last suspension), and a consumed wake-up is never lost."""
    c, ko = mk_connector(u)
    keys = list(ko.values())
    assume_all(u, I7(c, keys))
    u.assume(Not(c._closed))
    bind_real(u, c, ["_available_connections"])
    rw = []
    _methods(c)["_release_waiter"] = lambda self: rw.append(len(u.events))
    traces = []
    if u.choose(2, "has_trace"):
        tr = type("Trace", (), {})()
        tr.send_connection_queued_start = lambda: stubs.SAwait(name="trace.queued_start", raises=(RuntimeError("trace"),),
                                                              on_resume=lambda: interfere())
        tr.send_connection_queued_end = lambda: stubs.SAwait(name="trace.queued_end", raises=(RuntimeError("trace"),),
                                                            on_resume=lambda: interfere())
        traces = [tr]
    futs = []
    state = {"token": False}

    def interfere():
        mine = futs[-1] if futs else None
        q = c._waiters.entries[ko[K]]
        queued = mine is not None and any(x is mine for x in q.val.added + q.val.front)
        havoc_connector(u, c, ko, my_waiter=(ko[K], mine) if queued and not state["token"] else None)

    def create_future():
        f = mk_future(u)("my_waiter")
        f._done = False
        futs.append(f)

        def on_suspend():
            q = c._waiters.entries[ko[K]]
            queued = And(mk_bool(q.present), any(x is f for x in q.val.added + q.val.front))
            u.check("C07.wake.queued_before_suspend", queued, "the caller's future is in _waiters[key] while it is suspended")

        def on_resume():
            # woken: _release_waiter popped the future and completed it (token consumed)
            state["token"] = True
            interfere()
            f._done = True
            state["token_at"] = len(u.events)

        def on_raise(exc):
            if u.choose(2, "cancelled_after_wakeup"):
                # the future had already been completed (and popped) by _release_waiter when the task was cancelled
                state["token"] = True
                interfere()
                f._done = True
                state["token_at"] = len(u.events)
            else:
                interfere()  # still queued (rely: only _release_waiter / the owner removes it)

        aw = stubs.SAwait(name="waiter", on_suspend=on_suspend, on_resume=on_resume, on_raise=on_raise)
        f.__dict__["_aw"] = aw
        return f

    fields(c)["_loop"] = type("Loop", (), {"create_future": staticmethod(create_future)})()
    FN = fid("_wait_for_available_connection")

    class _VCWrap:
        pass

    f = u.load(MOD, f"{CLS}._wait_for_available_connection")
    u.cancel_at_awaits = True
    # `await fut`: the future itself is awaited -> make Elem futures awaitable stubs
    orig_suspend = f.__globals__["__vc"].suspend

    def inv(L):
        return I7(c, keys) + [("attempts", L["attempts"] >= 0), ("open", True)]

    def havoc(L):
        havoc_connector(u, c, ko)
        state["token"] = False

    u.loop(FN, 0, inv=inv, havoc=havoc)
    u.await_map = {id_: None for id_ in ()}
    u.await_adapter = lambda x: x.__dict__.get("_aw") if isinstance(x, Elem) else None
    out = u.call(f, c, ko[K], traces)
    mine = futs[-1] if futs else None
    if mine is not None:
        q = c._waiters.entries[ko[K]]
        still = any(x is mine for x in q.val.added + q.val.front) if isinstance(q.val, SFutQueue) else False
        u.check("C07.leak.waiter_removed", Or(Not(mk_bool(q.present)), not still),
                "the caller's future is removed from the queue on every exit (normal, error, cancellation)")
        u.check("C18.residue.waiter_removed", Or(Not(mk_bool(q.present)), not still),
                "a request that times out or is cancelled while waiting for a pool slot leaves no waiter entry behind")
        u.check("C07.leak.no_empty_queue_kept", Or(Not(mk_bool(q.present)), q.val.length() > 0) if isinstance(q.val, SFutQueue) else True,
                "an emptied per-key waiter queue is deleted")
    if out.ok:
        u.cover("C07.wait.returns")
        u.check("C07.wait.returns_only_with_capacity", avail_spec(c, ko[K]),
                "returns only when a slot for the key is free, with no suspension after the test")
    else:
        u.cover("C07.wait.raises")
        if state["token"]:
            passed_on = any(i >= state["token_at"] for i in rw)
            u.check("C07.wake.token_not_lost", passed_on,
                    "a waiter that was woken (its wake-up consumed) but leaves without taking the slot passes the "
                    "wake-up on: _release_waiter() is called before it exits",
                    known=[("F7b", True)])


def _traces(u, names, interfere):
    if not u.choose(2, "has_trace"):
        return []
    tr = type("Trace", (), {})()
    for n in names:
        setattr(tr, n, (lambda nn: lambda: stubs.SAwait(name="trace." + nn, raises=(RuntimeError("trace failed"),),
                                                        on_resume=interfere))(n))
    return [tr]


@unit("C07", "get", functions=[f"{MOD}:{CLS}._get"])
def get_unit(u: U):
    """_get: hands out only connected, fresh-enough pooled connections, closes the others, accounts the one it returns,
    releases it again if a trace callback fails, never suspends on the None path, keeps I7 (limits!)."""
    c, ko = mk_connector(u)
    keys = list(ko.values())
    assume_all(u, I7(c, keys))
    u.assume(Not(c._closed))
    released = []
    _methods(c)["_release_acquired"] = lambda self, key, proto: released.append((key, proto))
    made = []

    def interfere():
        havoc_connector(u, c, ko)

    traces = _traces(u, ["send_connection_reuseconn"], interfere)
    now = u.real("now")
    f = u.load(MOD, f"{CLS}._get", globals={"monotonic": lambda: now,
                                           "Connection": lambda conn, key, proto, loop: (made.append(proto), ("Connection", proto))[1]})
    FN = fid("_get")
    card0 = card(c._acquired)
    had_capacity = avail_spec(c, ko[K])

    def inv(L):
        return I7(c, keys) + [("acquired_unchanged", card(c._acquired) == card0),
                              ("conns_alias", L["conns"] is c._conns.entries[ko[K]].val)]

    def havoc(L):
        q = L["conns"]
        q.count = u.int("conns.count@loop", 0)
        q.appended = []

    u.loop(FN, 0, inv=inv, havoc=havoc, keep=("conns",), variant=lambda L: L["conns"].sym_len())
    u.cancel_at_awaits = True
    out = u.call(f, c, ko[K], traces)
    susp = [e for e in u.events if e[0] == "suspend"]
    if out.ok and out.value is None:
        u.check("C07.get.none_is_atomic", len(susp) == 0, "_get returns None without ever suspending")
        u.check("C07.get.none_accounts_nothing", And(card(c._acquired) == card0, len(made) == 0), "nothing is accounted on the None path")
        u.check("C07.get.none_drops_key", Not(c._conns.present(ko[K])), "an exhausted pool entry is deleted")
        check_all(u, "C07.inv.get.none", I7(c, keys))
        return
    if out.ok:
        p = made[0] if made else None
        u.check("C07.get.reuse_only_live", And(p is not None, p._connected if p is not None else False),
                "only a connected pooled connection is handed out")
        if not susp:
            u.check("C07.get.accounted", And(c._acquired.contains(p), card(c._acquired) == card0 + 1),
                    "the connection handed out is counted as in use")
            for nm, cond in I7(c, keys):
                u.check(f"C07.inv.get.reuse.{nm}", cond,
                        known=[("F7a", Not(had_capacity))] if nm.startswith("limit") else ())
            u.check("C07.limit.reuse_respects_limit", had_capacity,
                    "a pooled connection is taken into use only when a slot is free under limit / limit_per_host",
                    known=[("F7a", True)])
        return
    # exceptional exit (trace callback failed or cancellation at the trace await)
    u.check("C07.leak.get_releases_on_error", len(released) == 1 and len(made) == 0,
            "a failure after the connection was accounted releases it again")
    if released:
        taken = released[0][1]
        closed = any(e[0] in ("proto.close", "proto.abort") and e[1] is taken for e in u.events)
        repooled = any(isinstance(x, tuple) and x and x[0] is taken
                       for q in [e.val for e in c._conns.entries.values()] for x in getattr(q, "appended", []))
        u.check("C07.leak.get_error_connection_not_orphaned", closed or repooled,
                "the open connection taken out of the pool is closed (or pooled again) when the reuse is abandoned: once "
                "it is in neither _conns nor _acquired, connector.close() can no longer close it",
                known=[("F7c", True)], witness={"released": True, "closed": closed, "repooled": repooled})


@unit("C07", "connect", functions=[f"{MOD}:{CLS}.connect"], also=("C18",))
def connect_unit(u: U):
    """connect(): a placeholder reserves the slot in the same atomic section as the capacity test, stays counted
    while the connection is being established, is released on every failure / cancellation, and is swapped for
    the real protocol without a suspension point."""
    c, ko = mk_connector(u)
    keys = list(ko.values())
    assume_all(u, I7(c, keys))
    u.assume(Not(c._closed))
    bind_real(u, c, ["_available_connections"])
    released = []
    ph = {}

    def interfere():
        havoc_connector(u, c, ko, mine=ph.get("p"), mine_key=ko[K])

    def get_stub(self, key, traces):
        # contract of _get: None without suspension, or a Connection after accounting (possibly suspending)
        if u.choose(2, "_get.reuses"):
            p = mk_proto(u, "reused")
            return stubs.SAwait(result=("Connection", p), name="_get.reuse", on_resume=interfere)
        return _Immediate(None)

    def wait_stub(self, key, traces):
        def on_resume():
            interfere()
            u.assume(avail_spec(self, key))  # proved post of _wait_for_available_connection

        return stubs.SAwait(name="_wait_for_available_connection", on_resume=on_resume,
                            raises=(asyncio.TimeoutError(),))

    def create_stub(self, req, traces, timeout):
        def res():
            interfere()
            created.append(mk_proto(u, "new_proto"))
            return created[-1]

        return stubs.SAwait(result=res, name="_create_connection", raises=(OSError("connect failed"),), on_raise=lambda e: interfere())

    created = []

    def release_stub(self, key, proto):
        released.append((key, proto, len(u.events)))
        # proved post of _release_acquired
        if not tbool(self._closed) is True:
            self._acquired.discard(proto)

    _methods(c).update({"_get": get_stub, "_wait_for_available_connection": wait_stub,
                        "_create_connection": create_stub, "_release_acquired": release_stub,
                        "_update_proxy_auth_header_and_build_proxy_req": lambda self, req: None})

    class _Ceil:
        async def __aenter__(self):
            return None

        async def __aexit__(self, *a):
            return False

    def mk_placeholder(fut):
        p = Elem("placeholder")
        p.close = lambda: None
        # a freshly created object is in no set
        u.c.add(z3.Not(z3.Select(c._acquired.mem, p.eid)))
        for e in c._acquired_per_host.entries.values():
            u.c.add(z3.Not(z3.Select(e.val.mem, p.eid)))
        ph["p"] = p
        ph["reserved_at"] = len(u.events)
        ph["card_before"] = card(c._acquired)
        ph["cap"] = avail_spec(c, ko[K])
        return p

    traces = _traces(u, ["send_connection_create_start", "send_connection_create_end"], interfere)
    req = type("Req", (), {"connection_key": ko[K], "proxy": None})()
    timeout = type("T", (), {"connect": None, "ceil_threshold": 5})()
    made = []
    f = u.load(MOD, f"{CLS}.connect", globals={
        "ceil_timeout": lambda *a, **k: _Ceil(), "_TransportPlaceholder": mk_placeholder, "cast": lambda t, x: x,
        "Connection": lambda conn, key, proto, loop: (made.append((proto, len(u.events))), ("Connection", proto))[1]})
    u.cancel_at_awaits = True
    u.await_adapter = lambda x: x.aw if isinstance(x, _Immediate) else None
    out = u.call(f, c, req, traces, timeout)
    p = ph.get("p")
    if p is not None:
        u.check("C07.limit.reserve_has_capacity", ph["cap"],
                "the placeholder is added only when _available_connections(key) > 0 held in the same atomic section "
                "(no suspension between the capacity test and the reservation)")
    susp_after = [e for i, e in enumerate(u.events) if e[0] == "suspend" and p is not None and i >= ph["reserved_at"]]
    if out.ok:
        if made and p is not None:
            proto, at = made[0]
            u.check("C07.swap.atomic", not any(e[0] == "suspend" for e in u.events[at:]),
                    "no suspension point after the real protocol has been put into _acquired")
            u.check("C07.swap.accounting", Implies(Not(c._closed), And(c._acquired.contains(proto), Not(c._acquired.contains(p)))),
                    "the placeholder is replaced by the protocol (count unchanged)")
            u.check("C07.leak.no_release_on_success", len(released) == 0, "a successful connect releases nothing")
        return
    for np_ in created:
        u.check("C07.leak.created_connection_not_orphaned",
                any(e[0] in ("proto.close", "proto.abort") and e[1] is np_ for e in u.events),
                "a connection that was established but is not handed to the caller (a create_end trace callback failed, "
                "cancellation, connector closed meanwhile) is closed: it is in neither _conns nor _acquired, so "
                "connector.close() would never close it",
                known=[("F7c", True)])
    if p is not None:
        closed_path = isinstance(out.exc, c_live().ClientConnectionError) and "closed" in str(out.exc)
        if not closed_path:
            u.check("C07.leak.placeholder_released", len(released) == 1 and released[0][1] is p and released[0][0] is ko[K],
                    "every failure or cancellation after the reservation releases the placeholder exactly once")
            u.check("C18.residue.slot_freed", len(released) == 1 and released[0][1] is p and released[0][0] is ko[K],
                    "a connect that times out, fails or is cancelled frees its pool slot exactly once")


def c_live():
    import importlib

    from pyvc import instrument

    instrument._ensure_repo_on_path()
    return importlib.import_module(MOD)


class _Immediate:
    """awaitable that completes without suspending (contract: '_get returns None without suspension')"""

    def __init__(self, value):
        self.value = value
        self.aw = None

    def __await__(self):
        return self.value
        yield


@unit("C07", "release", functions=[f"{MOD}:{CLS}._release"])
def release_unit(u: U):
    """_release: releases the slot first, then pools the connection only if it may be reused, else closes it
    (shared with C06); a closed connector ignores the call."""
    c, ko = mk_connector(u)
    keys = list(ko.values())
    assume_all(u, I7(c, keys))
    ra = []
    _methods(c)["_release_acquired"] = lambda self, key, proto: ra.append((key, proto))
    p = mk_proto(u)
    sc = u.bool("should_close_arg")
    closed0 = c._closed
    now = u.real("now")
    f = u.load(MOD, f"{CLS}._release", globals={"monotonic": lambda: now,
                                               "helpers": type("H", (), {"weakref_handle": staticmethod(lambda *a, **k: "HANDLE")})})
    out = u.call(f, c, ko[K], p, should_close=sc)
    u.check("C07.release.total", out.ok, f"{out.exc!r}")
    if not out.ok:
        return
    closes = [e for e in u.events if e[0] == "proto.close" and e[1] is p]
    q = c._conns.entries[ko[K]]
    pooled = [x for x in (q.val.appended if isinstance(q.val, PairDeque) else []) if x[0] is p]
    if tbool(closed0) is True or (is_sym(closed0) and u.branch(closed0, "was_closed")):
        u.check("C07.release.closed_noop", And(len(ra) == 0, len(pooled) == 0), "release on a closed connector does nothing")
        return
    u.check("C07.release.frees_slot", len(ra) == 1 and ra[0] == (ko[K], p), "the slot is released exactly once")
    must_close = Or(c._force_close, sc, p.should_close)
    u.check("C06.pool.only_reusable", Implies(len(pooled) > 0, Not(must_close)),
            "a connection is pooled only if neither force_close, should_close nor protocol.should_close holds")
    u.check("C06.pool.else_closed", And(Implies(must_close, And(len(closes) == 1, len(pooled) == 0)),
                                        Implies(Not(must_close), And(len(pooled) == 1, len(closes) == 0))),
            "not reusable => closed and not pooled; reusable => pooled exactly once and left open")


@unit("C07", "canary.avail_ignores_per_host", functions=[f"{MOD}:{CLS}._available_connections"], expect="canary")
def canary_avail(u: U):
    """deliberately false: _available_connections >= 1 whenever the total limit has room"""
    c, ko = mk_connector(u)
    assume_all(u, I7(c, list(ko.values())))
    f = u.load(MOD, f"{CLS}._available_connections")
    out = u.call(f, c, ko[K])
    if out.ok:
        u.check("C07.canary", Implies(Or(c._limit == 0, card(c._acquired) < c._limit), out.value >= 1), "false")


# ---------------------------------------------------------------------------------------------------------------
# closing the connector


@unit("C07", "close_immediately", functions=[f"{MOD}:{CLS}._close_immediately"], max_paths=120000)
def close_immediately_unit(u: U):
    """_close_immediately for every shape of the pool (0..n idle connections under two keys, 0..2 in use, 0..3 queued
    waiters per key, each waiter future pending / already cancelled / already resolved - a request cancelled a moment ago
    leaves its cancelled future in the queue until its task runs): every connection the connector holds is closed,
    every waiter is failed (none is left pending), the books are emptied, and nothing escapes - whatever the state of the
    individual futures"""
    import asyncio
    import collections

    from pyvc.registry import width

    log = []

    class _Fut:
        def __init__(self, tag, state):
            self.tag, self.state = tag, state  # pending | cancelled | done

        def done(self):
            return self.state != "pending"

        def cancelled(self):
            return self.state == "cancelled"

        def cancel(self, msg=None):
            if self.state != "pending":
                return False
            self.state = "cancelled"
            return True

        def set_exception(self, exc):
            if self.state != "pending":
                raise asyncio.InvalidStateError("invalid state")
            self.state = "failed"

        def set_result(self, v):
            if self.state != "pending":
                raise asyncio.InvalidStateError("invalid state")
            self.state = "done"

    class _T:
        def get_extra_info(self, name):
            return None

        def abort(self):
            log.append(("transport.abort", self))

    class _Proto:
        def __init__(self, tag):
            self.tag = tag
            self.transport = _T()
            self.closed = None
            self.closed_calls = 0

        def close(self):
            self.closed_calls += 1

        def abort(self):
            self.closed_calls += 1

    keys = ["K", "O"]
    nmax = width(2, 3)
    conns = {}
    pooled = []
    for k in keys:
        n = u.choose(nmax + 1, f"idle.{k}")
        if n:
            conns[k] = collections.deque()
            for i in range(n):
                p = _Proto(f"idle-{k}-{i}")
                pooled.append(p)
                conns[k].append((p, 0.0))
    acquired = set()
    in_use = [_Proto(f"used-{i}") for i in range(u.choose(3, "in_use"))]
    acquired.update(in_use)
    waiters = collections.defaultdict(collections.OrderedDict)
    futs = []
    for k in keys:
        for i in range(u.choose(width(3, 4) + 1 if k == "K" else 2, f"waiters.{k}")):
            f_ = _Fut(f"w-{k}-{i}", ("pending", "cancelled", "done")[u.choose(3, f"w-{k}-{i}.state")])
            futs.append((f_, f_.state))
            waiters[k][f_] = None

    class _Handle:
        def __init__(self):
            self.cancelled = False

        def cancel(self):
            self.cancelled = True

    h1 = _Handle() if u.choose(2, "cleanup_handle") else None
    c = u.obj(CLS, {"_closed": False, "_loop": type("L", (), {"is_closed": staticmethod(lambda: False)})(),
                    "_cleanup_handle": h1, "_cleanup_closed_handle": None, "_conns": conns, "_acquired": acquired,
                    "_cleanup_closed_transports": [], "_waiters": waiters}, {}, shared=False,
              init=(MOD, f"{CLS}.__init__", (), {}), real=(MOD, CLS))
    f = u.load(MOD, f"{CLS}._close_immediately")
    for k_ in range(8):
        u.loop(fid("_close_immediately"), k_, unroll=True, bound=16)
    out = u.call(f, c)
    u.check("C07.close.total", out.ok,
            f"closing never fails, whatever state the queued futures are in: {out.exc!r}" if not out.ok else "ok",
            witness={"waiter_states": [s0 for _, s0 in futs]})
    u.check("C07.close.every_waiter_failed", all(f_.state != "pending" for f_, _ in futs),
            "no queued request is left waiting on a closed connector: every waiter future is cancelled or failed - also "
            "the ones queued behind a future that was already cancelled",
            witness={"before": [s0 for _, s0 in futs], "after": [f_.state for f_, _ in futs]})
    u.check("C07.close.every_connection_closed", all(p.closed_calls >= 1 for p in pooled + in_use),
            "every idle and every in-use connection is closed")
    fs = fields(c)
    u.check("C07.close.books_emptied", fs["_closed"] is True and not fs["_conns"] and not fs["_acquired"] and not fs["_waiters"]
            and (h1 is None or h1.cancelled), "closed flag set, pool, in-use set and waiter queues emptied, cleanup timer cancelled")
