"""C06 - client connection reuse never mixes responses.

Functions under contract (real text from /repo):
  aiohttp/client_proto.py:   ResponseHandler.should_close, data_received, set_response_params, force_close
  aiohttp/connector.py:      BaseConnector._release, _get, Connection.close, Connection.release
  aiohttp/client_reqrep.py:  ClientRequest.connection_key, ClientRequestBase.connection_key, ClientResponse.close,
                             release, _response_eof, _release_connection
  aiohttp/client.py:         _connect_and_send_request

Decomposition.  "clean(p)" := no response in progress or unread, not upgraded, no error, no custom payload parser,
nothing queued and no leftover bytes.
  (P)  should_close == not clean                                   [the protocol's own summary is exact]
  (R)  _release pools a connection only if clean and not asked to close; otherwise it closes it
  (G)  _get hands out only pooled connections of the SAME key that are connected, young enough and STILL clean
  (D)  data_received: a parse error closes the transport and poisons the protocol; bytes that arrive when no
       request's parser is installed go to _tail (not clean); a complete message queued while idle makes it not clean
  (K)  the key has the host, port, TLS settings and proxy of the request
  (E)  error / cancellation / close() paths call Connection.close (-> _release(should_close=True)), never release
"""
import collections

import z3

from pyvc import And, Iff, Implies, Not, Or, SBytes, SInt, U, blen, fields, is_sym, mk_bool, mk_int, stubs, tbool
from pyvc.registry import unit
from pyvc.stubs import SAwait

PROTO = "aiohttp.client_proto"
CONN = "aiohttp.connector"
RR = "aiohttp.client_reqrep"
CL = "aiohttp.client"
FN_GET = "connector:BaseConnector._get"


class Boom(Exception):
    pass


# ---------------------------------------------------------------------------------------------------------------
# (P) should_close


class _Payload:
    def __init__(self, eof):
        self.eof = eof

    def is_eof(self):
        return self.eof


class _Deq:
    """DataQueue._buffer: only its emptiness matters"""

    _pyvc_sym = True

    def __init__(self, nonempty):
        self.nonempty = nonempty

    def __bool__(self):
        from pyvc import ctx

        t = tbool(self.nonempty)
        return t if isinstance(t, bool) else ctx().branch(t, "queue.nonempty")

    def sym_len(self):
        raise AssertionError("len of the queue is not modelled")


def mk_proto(u: U, **over):
    has_payload = u.choose(2, "has_payload") == 1
    f = {"_should_close": u.bool("force_flag"), "_payload": _Payload(u.bool("payload.eof")) if has_payload else None,
         "_upgraded": u.bool("upgraded"), "_exception": Boom("x") if u.choose(2, "has_exception") else None,
         "_payload_parser": "WSREADER" if u.choose(2, "has_payload_parser") else None,
         "_buffer": _Deq(u.bool("queue.nonempty")), "_tail": u.bytes("tail"),
         # the HTTP response parser of the exchange that just ended (None before the first request / after close):
         # it privately retains the bytes of an incomplete message head (_tail: partial line, _lines: complete lines)
         "_parser": _RespParser(u) if u.choose(2, "has_parser") else None}
    f.update(over)
    return u.obj("ResponseHandler", f, {}, shared=False), has_payload


class _RespParser:
    def __init__(self, u):
        self._tail = u.bytes("parser.tail")
        self._lines = _Deq(u.bool("parser.lines.nonempty"))

    def retains_input(self):
        return Or(blen(self._tail) > 0, self._lines.nonempty)


def parser_retains(fs):
    p = fs.get("_parser")
    return p.retains_input() if p is not None else False


def clean_spec(fs, has_payload):
    """taken from the property, not from the code: clean = complete response, nothing buffered anywhere, no surplus
    bytes received (in the protocol's own tail OR held back inside the response parser), not upgraded, not failed"""
    return And(Not(parser_retains(fs)), Not(fs["_should_close"]),
               Or(not has_payload, fs["_payload"].eof if has_payload else True),
               Not(fs["_upgraded"]), fs["_exception"] is None, fs["_payload_parser"] is None,
               Not(fs["_buffer"].nonempty), blen(fs["_tail"]) == 0)


@unit("C06", "proto.should_close", functions=[f"{PROTO}:ResponseHandler.should_close", f"{PROTO}:ResponseHandler.force_close"])
def proto_should_close(u: U):
    """ResponseHandler.should_close is exactly 'not clean', for every protocol state"""
    p, has_payload = mk_proto(u)
    spec = clean_spec(fields(p), has_payload)
    f = u.load(PROTO, "ResponseHandler.should_close")
    out = u.call(f, p)
    u.check("C06.proto.should_close.total", out.ok, repr(out))
    if out.ok:
        u.check("C06.proto.should_close.equals_not_clean", Iff(out.value, Not(spec)),
                "should_close <=> forced, or response unread, or upgraded, or failed, or custom parser, or queued message, "
                "or leftover bytes - including bytes of an incomplete further message held back inside the response parser",
                known=[("F6c", And(parser_retains(fields(p)), Not(out.value)))],
                witness={"parser_retains_input": parser_retains(fields(p)), "should_close": out.value,
                         "state": {"forced": fields(p)["_should_close"], "has_payload": has_payload,
                                   "payload_eof": fields(p)["_payload"].eof if has_payload else None,
                                   "upgraded": fields(p)["_upgraded"], "failed": fields(p)["_exception"] is not None,
                                   "custom_parser": fields(p)["_payload_parser"] is not None,
                                   "queued": fields(p)["_buffer"].nonempty, "tail": fields(p)["_tail"]}})
        u.check("C06.proto.should_close.is_bool", isinstance(out.value, bool) or is_sym(out.value), "a bool")
    g = u.load(PROTO, "ResponseHandler.force_close")
    u.call(g, p)
    u.check("C06.proto.force_close_sticks", fields(p)["_should_close"] is True, "force_close() makes it unusable for good")


# ---------------------------------------------------------------------------------------------------------------
# (R) _release, (G) _get


class _P:
    """a pooled protocol seen by the connector"""

    def __init__(self, u, tag, log):
        self.u, self.tag, self.log = u, tag, log
        self.connected = u.bool(f"{tag}.connected")
        self.dirty = u.bool(f"{tag}.should_close")
        self.transport = f"T-{tag}"

    def is_connected(self):
        return self.connected

    @property
    def should_close(self):
        self.log.append(("should_close?", self.tag))
        return self.dirty

    def close(self):
        self.log.append(("proto.close", self.tag))


class _Key:
    def __init__(self, ssl=False):
        self.is_ssl = ssl


@unit("C06", "connector.release", functions=[f"{CONN}:BaseConnector._release"])
def connector_release(u: U):
    """_release: pooled (under its own key, at the end) iff the connector is open, not force_close, the caller did not
    ask to close and the protocol is clean; otherwise the protocol is closed and never pooled"""
    log = []
    key = _Key(u.choose(2, "ssl") == 1)
    p = _P(u, "p", log)
    conns = collections.defaultdict(collections.deque)
    closed = u.choose(2, "connector.closed") == 1
    force = u.bool("force_close")
    arg = u.bool("should_close_arg")
    # requests may be queued for this endpoint (or another) while the connection is released: whether anyone waits
    # does not change what may be pooled
    waiters = collections.defaultdict(collections.OrderedDict)
    queued = u.choose(3, "waiters")
    if queued == 1:
        waiters[key]["FUT"] = None
    elif queued == 2:
        waiters[_Key()]["FUT2"] = None
    c = u.obj("BaseConnector", {"_closed": closed, "_force_close": force, "_conns": conns, "_cleanup_handle": "H",
                                "_cleanup_closed_disabled": True, "_cleanup_closed_transports": [],
                                "_waiters": waiters},
              {"_release_acquired": lambda self, k, pr: log.append(("release_acquired", k, pr))}, shared=False)
    f = u.load(CONN, "BaseConnector._release", globals={"monotonic": lambda: 1.0})
    out = u.call(f, c, key, p, should_close=arg)
    u.check("C06.release.total", out.ok, repr(out))
    pooled = [x for x in conns.get(key, ()) if x[0] is p]
    elsewhere = [k for k, dq in conns.items() if k is not key and any(x[0] is p for x in dq)]
    u.check("C06.release.own_key_only", not elsewhere, "a connection is pooled only under the key it was acquired for")
    if closed:
        u.check("C06.release.closed_connector", not pooled, "a closed connector pools nothing")
        return
    must_close = Or(force, arg, p.dirty)
    u.check("C06.release.pooled_iff_clean", Iff(bool(pooled), Not(must_close)),
            "pooled <=> not force_close, not asked to close, and protocol.should_close is False")
    u.check("C06.release.closed_when_not_pooled", Iff(("proto.close", "p") in log, must_close),
            "a connection that is not pooled is closed")
    u.check("C06.release.slot_freed", any(e[0] == "release_acquired" and e[2] is p for e in log),
            "the acquired slot is given back either way")


@unit("C06", "connector.get", functions=[f"{CONN}:BaseConnector._get"])
def connector_get(u: U):
    """_get: only connections pooled under the requested key are considered; one is handed out only if it is
    connected, within the keep-alive age and still clean; every rejected one is closed"""
    log = []
    key, other = _Key(), _Key()
    from pyvc.registry import width

    n = 1 + u.choose(width(2, 4), "pooled")
    t1 = u.real("now")
    protos = [_P(u, f"p{i}", log) for i in range(n)]
    t0s = [u.real(f"t0.{i}") for i in range(n)]
    conns = {key: collections.deque(zip(protos, t0s)), other: collections.deque([(_P(u, "foreign", log), t1)])}
    keepalive = u.real("keepalive_timeout")
    acquired = set()
    c = u.obj("BaseConnector", {"_conns": conns, "_keepalive_timeout": keepalive, "_acquired": acquired,
                                "_limit_per_host": 0, "_acquired_per_host": {}, "_cleanup_closed_disabled": True,
                                "_cleanup_closed_transports": [], "_loop": "LOOP"}, {}, shared=False)
    f = u.load(CONN, "BaseConnector._get", globals={"monotonic": lambda: t1,
                                                    "Connection": lambda conn, k, proto, loop: ("CONN", k, proto)})
    u.loop(FN_GET, 0, unroll=True, bound=6)
    u.loop(FN_GET, 1, unroll=True, bound=2)
    out = u.call(f, c, key, [])
    u.check("C06.get.total", out.ok, repr(out))
    if not out.ok:
        return
    r = out.value
    if r is None:
        u.check("C06.get.none_means_all_rejected", all(("proto.close", p.tag) in log for p in protos),
                "no reusable connection: every pooled one for the key was closed")
        u.check("C06.get.key_dropped", key not in conns, "the exhausted key is dropped")
        return
    _, k, proto = r
    u.check("C06.get.same_key", k is key and proto in protos and len(conns[other]) == 1,
            "the connection handed out was pooled under exactly the requested key (host, port, TLS, proxy)")
    i = protos.index(proto)
    u.check("C06.get.connected_and_young", And(proto.connected, t1 - t0s[i] <= keepalive),
            "it is connected and not older than the keep-alive timeout")
    u.check("C06.get.reuse_only_clean", Not(proto.dirty),
            "it is still clean: nothing arrived / failed on it while it sat in the pool (protocol.should_close is False)",
            known=[("F6a", proto.dirty)], witness={"note": "proto.should_close is never consulted by _get"})
    u.check("C06.get.acquired", proto in acquired, "it is marked acquired")
    u.check("C06.get.earlier_rejected_closed", all(("proto.close", p.tag) in log for p in protos[:i]),
            "connections skipped on the way were closed, not left in the pool")


# ---------------------------------------------------------------------------------------------------------------
# (K) connection key


@unit("C06", "key", functions=[f"{RR}:ClientRequest.connection_key", f"{RR}:ClientRequestBase.connection_key"])
def conn_key(u: U):
    """two requests get the same key only if host, port, TLS-ness, ssl settings, proxy, proxy headers and SNI name agree:
    the key is the tuple of exactly these, taken from the request"""
    from aiohttp import client_reqrep as R

    class _Url:
        raw_host = "HOST"
        port = 8443
        scheme = "https"

    class _PH(dict):
        pass

    ph = _PH({"Proxy-Authorization": "x"}) if u.choose(2, "proxy_headers") else None
    req = u.obj("ClientRequest", {"url": _Url(), "_ssl": "SSLCTX", "proxy": "PROXY", "proxy_headers": ph,
                                  "server_hostname": "SNI"}, {}, shared=False)
    f = u.load(RR, "ClientRequest.connection_key")
    out = u.call(f, req)
    u.check("C06.key.total", out.ok, repr(out))
    if out.ok:
        k = out.value
        u.check("C06.key.components", isinstance(k, R.ConnectionKey) and k.host == "HOST" and k.port == 8443
                and k.is_ssl is True and k.ssl == "SSLCTX" and k.proxy == "PROXY" and k.server_hostname == "SNI"
                and (k.proxy_headers_hash is None) == (ph is None),
                "key == (host, port, is_ssl, ssl, proxy, hash(proxy headers), server_hostname) of this request")
        if ph is not None:
            # the proxy-headers component must depend on the header VALUES (Proxy-Authorization carries the identity
            # a tunnel was opened for): same names, different value => different key
            from multidict import CIMultiDict

            keys = []
            for val in ("Basic YWxpY2U6cHc=", "Basic Ym9iOnB3"):
                fields(req)["proxy_headers"] = CIMultiDict({"Proxy-Authorization": val})
                o = u.call(f, req)
                keys.append(o.value if o.ok else None)
            u.check("C06.key.proxy_identity_distinguishes", None not in keys and keys[0] != keys[1],
                    "requests that present different proxy credentials never share a pooled connection / tunnel")
            fields(req)["proxy_headers"] = ph
    g = u.load(RR, "ClientRequestBase.connection_key")
    o2 = u.call(g, req)
    if o2.ok:
        k = o2.value
        u.check("C06.key.base_components", k.host == "HOST" and k.port == 8443 and k.is_ssl is True and k.ssl == "SSLCTX"
                and k.proxy is None and k.server_hostname == "SNI", "base request: same, without proxy")


# ---------------------------------------------------------------------------------------------------------------
# (D) data_received / set_response_params


@unit("C06", "proto.data_received", functions=[f"{PROTO}:ResponseHandler.data_received"], also=("C18",))
def proto_data_received(u: U):
    """data_received: bytes never reach an HTTP parser unless one is installed and the connection is not upgraded;
    a parse failure closes the transport and records an error (should_close from then on); a message that announces
    close marks the protocol; every complete message is queued (so an idle connection that receives one is not clean)"""
    log = []
    rearmed = []
    data = u.bytes("data")
    has_parser = u.choose(2, "has_parser") == 1
    upgraded = u.choose(2, "upgraded") == 1 if has_parser else False
    has_pp = u.choose(2, "payload_parser") == 1
    parse_fails = u.choose(2, "parse_fails") == 1 if has_parser else False
    msg_close = u.bool("message.should_close")
    n_msgs = u.choose(2, "n_messages") if has_parser and not parse_fails else 0

    class _Msg:
        should_close = msg_close
        code = (200, 204, 100, 102, 101)[u.choose(5, "message.code")] if has_parser and not parse_fails else 200

    class _Pl:
        def on_eof(self, cb):
            log.append(("on_eof",))

    dropped = []

    class _Parser:
        def feed_data(self, d):
            log.append(("http.feed", d))
            if parse_fails:
                raise Boom("bad")
            # the parser hands EMPTY_PAYLOAD out for a message that cannot have a body (1xx, 204, 304)
            return [(_Msg(), "EMPTY" if _Msg.code in (100, 101, 102, 204) else _Pl())] * n_msgs, False, b""

    if has_pp and has_parser and not upgraded:
        # state invariant of the protocol: a payload parser is installed by set_parser() only on a connection that was
        # upgraded (ws_connect after the 101) - the HTTP parser is then out of the picture for good
        return
    pp_eof = u.choose(2, "payload_parser.eof") == 1 if has_pp else False
    pp_tail = u.bytes("payload_parser.tail") if pp_eof else b""
    cb_set = u.choose(2, "data_received_cb") == 1 if has_pp else False

    class _PP:
        def feed_data(self, d):
            log.append(("ws.feed", d))
            return pp_eof, pp_tail

    class _T:
        def close(self):
            log.append(("transport.close",))

    tail0 = u.bytes("tail0")
    p = u.obj("ResponseHandler",
              {"_payload_parser": _PP() if has_pp else None,
               "_data_received_cb": (lambda: log.append(("activity",))) if cb_set else None, "_upgraded": upgraded,
               "_parser": _Parser() if has_parser else None, "_tail": tail0, "transport": _T(), "_should_close": False,
               "_payload": None, "_skip_payload": u.choose(2, "skip_payload") == 1 if has_parser and not parse_fails else False,
               "_read_timeout_handle": "ARMED-TIMER" if u.choose(2, "read_timer_armed") else None,
               "_read_timeout": u.real("read_timeout")},
              {"_reschedule_timeout": lambda self: rearmed.append(True), "_drop_timeout": lambda self: dropped.append(len(rearmed)),
               "feed_data": lambda self, item: log.append(("queue", item)),
               "set_exception": lambda self, exc, cause=None: log.append(("set_exception", type(exc).__name__))},
              shared=False, real=(PROTO, "ResponseHandler"), init=(PROTO, "ResponseHandler.__init__", ("LOOP",), {}))
    f = u.load(PROTO, "ResponseHandler.data_received",
               globals={"EMPTY_PAYLOAD": "EMPTY", "EMPTY_BODY_STATUS_CODES": frozenset({204, 304}) | frozenset(range(100, 200))})
    u.loop("client_proto:ResponseHandler.data_received", 0, unroll=True, bound=3)
    out = u.call(f, p, data)
    u.check("C06.data.total", out.ok, f"no exception escapes into the event loop: {out!r}")
    u.check("C18.sockread.every_chunk_restarts_the_timer", Implies(blen(data) > 0, len(rearmed) >= 1),
            "every chunk received restarts the sock_read timer from now (the bound is 'sock_read after the LAST byte'); "
            "the empty resume call does not")
    names = [e[0] for e in log]
    fs = fields(p)
    if has_pp:
        u.check("C06.data.custom_parser_gets_all", [n for n in names if n != "activity"] == ["ws.feed"]
                and log[names.index("ws.feed")][1] is data,
                "with a payload parser installed it gets exactly these bytes, once, and the HTTP parser sees nothing")
        if cb_set:
            u.check("C06.data.custom_parser.activity_reported", names.count("activity") == 1,
                    "the read-activity callback (heartbeat reset) runs once per read")
        if pp_eof:
            # the payload parser is done (the WebSocket stream ended): it is uninstalled, and whatever it did not consume
            # is kept - in order, behind what was already waiting - for whoever reads this connection next; it is never
            # handed to an HTTP parser as (part of) a response
            u.check("C06.data.custom_parser.eof_uninstalls", And(fs["_payload_parser"] is None, fs["_payload"] is None),
                    "a payload parser that reports end-of-stream is uninstalled")
            u.check("C06.data.custom_parser.unconsumed_tail_is_kept_not_parsed",
                    isinstance(fs["_tail"], (SBytes, bytes)) and SBytes.of(fs["_tail"]).prov_eq(SBytes.of(tail0) + SBytes.of(pp_tail)),
                    "bytes behind the end of the payload parser's stream are appended to _tail (connection not clean)")
        else:
            u.check("C06.data.custom_parser.stays", fs["_payload_parser"] is not None, "the payload parser stays installed")
        return
    if not has_parser or upgraded:
        u.check("C06.data.no_parser_buffers", "http.feed" not in names and isinstance(fs["_tail"], SBytes)
                and fs["_tail"].prov_eq(tail0 + data),
                "without an installed parser (or after an upgrade) the bytes are appended to _tail - the connection "
                "is then not clean - and nothing is parsed")
        return
    u.check("C06.data.parsed_once", names.count("http.feed") == 1 and log[names.index("http.feed")][1] is data,
            "the installed parser gets exactly these bytes")
    if parse_fails:
        u.check("C06.data.parse_error_poisons", "transport.close" in names and "set_exception" in names and "queue" not in names,
                "a parse error closes the transport and records the error: nothing of it is delivered")
        return
    u.check("C06.data.messages_queued", names.count("queue") == n_msgs, "every complete message is queued")
    # (an interim 1xx message drops the timer here like any message without a body; whoever goes on waiting for the
    # final response re-arms it: ClientResponse.start when nothing is being sent - contracts/c18.py, unit
    # sock_read.interim_response - or the request writer when it has sent the body - C06.write.complete_body)
    if n_msgs:
        u.check("C06.data.close_announced_sticks", Implies(msg_close, fs["_should_close"] is True),
                "Connection: close (or HTTP/1.0 without keep-alive) marks the protocol unusable")
        if _Msg.code == 101:
            # the parser did not report an upgrade (upgraded is False here): a 101 without 'Connection: upgrade', or with
            # an Upgrade token the client does not support.  The peer has nevertheless left HTTP on this connection.
            u.check("C06.data.switching_protocols_is_never_reused", Or(fs["_should_close"] is True, fs["_upgraded"] is True),
                    "a connection on which the peer answered 101 Switching Protocols is not clean - whatever the response's "
                    "other headers say - and so is never pooled for another HTTP request",
                    known=[("F6d", True)], witness={"status": 101, "connection_close_announced": msg_close})


@unit("C06", "const.bodiless_status_codes", kind="lemma", functions=["aiohttp.helpers:EMPTY_BODY_STATUS_CODES"], also=("C02",))
def const_bodiless_status_codes(u: U):
    """the LIVE set of status codes for which the response parser and ResponseHandler take a response to end at its header
    block, whatever framing headers it carries, is exactly RFC 9112 6.3 rule 1: 1xx, 204, 304 (HEAD is handled by method).
    Any other code in it (205, say, which merely SHOULD NOT carry content) would make the client release a connection on
    which the announced Content-Length bytes are still to come: they are then read as the head of the next response."""
    import importlib

    from pyvc import instrument

    instrument._ensure_repo_on_path()
    H = importlib.import_module("aiohttp.helpers")
    P = importlib.import_module("aiohttp.http_parser")
    CP = importlib.import_module(PROTO)
    want = frozenset({204, 304}) | frozenset(range(100, 200))
    for name, got in (("helpers", H.EMPTY_BODY_STATUS_CODES), ("http_parser", P.EMPTY_BODY_STATUS_CODES),
                      ("client_proto", CP.EMPTY_BODY_STATUS_CODES)):
        extra, missing = sorted(set(got) - want), sorted(want - set(got))
        u.check("C06.const.bodiless_status_codes_are_1xx_204_304", not extra and not missing,
                f"{name}.EMPTY_BODY_STATUS_CODES: not in RFC 9112 6.3(1): {extra}; missing: {missing}",
                witness={"module": name, "extra": extra, "missing": missing},
                also_as=("C02.const.bodiless_status_codes_are_1xx_204_304",))


@unit("C06", "proto.set_response_params", functions=[f"{PROTO}:ResponseHandler.set_response_params"])
def proto_set_response_params(u: U):
    """every request installs a FRESH parser; bytes that were waiting in _tail are replayed into it (only)"""
    log = []
    made = []

    def mk_parser(*a, **k):
        made.append(object())
        return made[-1]

    tail = u.bytes("tail")
    old = object()
    p = u.obj("ResponseHandler", {"_parser": old, "_tail": tail, "_loop": "L", "_skip_payload": False,
                                  "_read_timeout": None, "_timeout_ceil_threshold": 5},
              {"data_received": lambda self, d: log.append(("data_received", d, fields(self)["_parser"]))}, shared=False,
              init=(PROTO, "ResponseHandler.__init__", ("L",), {}), real=(PROTO, "ResponseHandler"))
    f = u.load(PROTO, "ResponseHandler.set_response_params", globals={"HttpResponseParser": mk_parser,
                                                                      "ClientPayloadError": Exception})
    out = u.call(f, p)
    u.check("C06.params.total", out.ok, repr(out))
    fs = fields(p)
    u.check("C06.params.fresh_parser", len(made) == 1 and fs["_parser"] is made[0] and fs["_parser"] is not old,
            "a new parser per request: no state of the previous response is carried over")
    if log:
        u.check("C06.params.tail_replayed_into_new_parser", len(log) == 1 and log[0][1] is tail and log[0][2] is made[0]
                and blen(fs["_tail"]) == 0, "leftover bytes go to the new parser, once, and _tail is emptied")
    # the next request on the same (pooled) connection, with the same settings: whatever set_response_params remembers
    # from the first call, the parser - which privately buffers partial lines of whatever arrived in between - is new
    first = fs["_parser"]
    out2 = u.call(f, p)
    u.check("C06.params.total_again", out2.ok, repr(out2))
    u.check("C06.params.fresh_parser_for_every_request", len(made) == 2 and fields(p)["_parser"] is made[1]
            and fields(p)["_parser"] is not first,
            "re-acquiring a pooled connection installs a new parser too: bytes the old one held back (an unterminated "
            "header block sent behind the previous response) must not be completed by the next response")


# ---------------------------------------------------------------------------------------------------------------
# (E) close instead of release


@unit("C06", "close_not_release", functions=[f"{CL}:_connect_and_send_request", f"{CONN}:Connection.close",
                                             f"{CONN}:Connection.release", f"{RR}:ClientResponse.close",
                                             f"{RR}:ClientResponse.release", f"{RR}:ClientResponse._response_eof"],
      also=("C18",))
def close_not_release(u: U):
    """a failed or cancelled exchange closes its connection; only a response that reached its end releases it; an
    upgraded response keeps it"""
    import asyncio

    log = []

    class _Connector:
        def _release(self, key, proto, *, should_close=False):
            log.append(("_release", proto, should_close))

        def connect(self, req, traces=None, timeout=None):
            return SAwait(result=lambda: conn, raises=(asyncio.TimeoutError, Boom), name="connect")

    creal = u.load(CONN, "Connection.close")
    rreal = u.load(CONN, "Connection.release")

    class _Proto:
        upgraded = False

        def set_response_params(self, **kw):
            pass

    proto = _Proto()
    conn = u.obj("Connection", {"_protocol": proto, "_connector": _Connector(), "_key": "KEY", "_callbacks": []},
                 {"close": lambda self: creal(self), "release": lambda self: rreal(self),
                  "_notify_release": lambda self: None, "prop.protocol": lambda self: fields(self)["_protocol"]},
                 shared=False)

    class _Resp:
        def __init__(self):
            self.closed = False

        def start(self, c):
            return SAwait(name="resp.start", raises=(Boom, asyncio.CancelledError))

        def close(self):
            self.closed = True

    resp = _Resp()

    class _Sess:
        _connector = fields(conn)["_connector"]

    class _Req:
        _session = _Sess()
        _traces = []
        _timeout = None
        _response_params = {}
        url = "URL"

        def _send(self, c):
            return SAwait(result=resp, raises=(Boom, asyncio.CancelledError), name="req._send")

    f = u.load(CL, "_connect_and_send_request")
    out = u.call(f, _Req())
    rel = [e for e in log if e[0] == "_release"]
    if out.ok:
        u.check("C06.send.success_keeps_connection", not rel, "a started response keeps its connection until it ends")
    else:
        connected = fields(conn)["_protocol"] is None or bool(rel)
        if not isinstance(out.exc, (asyncio.TimeoutError,)) and not (isinstance(out.exc, Boom) and not rel and fields(conn)["_protocol"] is proto and not log):
            pass
        started = any(e for e in u.events if e[0] == "suspend" and e[3] in ("req._send", "resp.start"))
        if started:
            u.check("C06.send.failure_closes", len(rel) == 1 and rel[0][1] is proto and rel[0][2] is True,
                    "a failure or cancellation after the connection was acquired closes it (should_close=True): it is "
                    "never pooled")
            u.check("C18.residue.connection_closed_not_reused", len(rel) == 1 and rel[0][1] is proto and rel[0][2] is True,
                    "after a timeout or cancellation during send / response start the connection is closed, not pooled")
    # ClientResponse.close / release / _response_eof
    log.clear()
    which = u.choose(3, "response.op")
    upgraded = u.choose(2, "upgraded") == 1
    proto2 = _Proto()
    proto2.upgraded = upgraded
    conn2 = u.obj("Connection", {"_protocol": proto2, "_connector": _Connector(), "_key": "KEY", "_callbacks": []},
                  {"close": lambda self: creal(self), "release": lambda self: rreal(self),
                   "_notify_release": lambda self: None, "prop.protocol": lambda self: fields(self)["_protocol"]},
                  shared=False)

    class _Loop:
        def is_closed(self):
            return False

    relc = u.load(RR, "ClientResponse._release_connection")
    r = u.obj("ClientResponse", {"_released": False, "_closed": False, "_loop": _Loop(), "_connection": conn2,
                                 "_ClientResponse__writer": None},
              {"_notify_content": lambda self: None, "_cleanup_writer": lambda self: None,
               "_release_connection": lambda self: relc(self)}, shared=False)
    name = ["close", "release", "_response_eof"][which]
    g = u.load(RR, f"ClientResponse.{name}")
    o = u.call(g, r)
    u.check(f"C06.response.{name}.total", o.ok, repr(o))
    rel = [e for e in log if e[0] == "_release"]
    if name == "close":
        u.check("C06.response.close_closes", len(rel) == 1 and rel[0][2] is True and fields(r)["_connection"] is None,
                "ClientResponse.close() (error, cancel, unread body) closes the connection: never pooled")
    elif name == "release":
        u.check("C06.response.release_defers_to_protocol", len(rel) == 1 and rel[0][2] is False,
                "release() hands the connection back; pooling is then decided by protocol.should_close (C06.release.*)")
    else:
        if upgraded:
            u.check("C06.response.eof_keeps_upgraded", not rel and fields(r)["_connection"] is conn2,
                    "an upgraded (websocket) connection is not handed back at end of the HTTP response")
        else:
            u.check("C06.response.eof_releases", len(rel) == 1 and rel[0][2] is False, "end of body releases the connection")


@unit("C06", "write_bytes", functions=[f"{RR}:ClientRequest._write_bytes"], also=("C18",))
def write_bytes(u: U):
    """ClientRequest._write_bytes: an interrupted body makes the connection unusable - cancellation closes it, every
    other failure poisons the protocol (should_close through _exception); only a complete body ends with write_eof"""
    import asyncio

    log = []

    class _Proto:
        def start_timeout(self):
            log.append(("start_timeout",))

    proto = _Proto()

    class _Conn:
        protocol = proto

        def close(self):
            log.append(("conn.close",))

        def __str__(self):
            return "<conn>"

    class _Writer:
        output_size = u.int("output_size", 0)

        def send_headers(self):
            log.append(("send_headers",))

        def drain(self):
            return SAwait(name="drain")

        def write_eof(self):
            log.append(("write_eof",))
            return SAwait(name="write_eof")

    class _Body:
        def write_with_length(self, w, n):
            return SAwait(name="body.write", raises=(OSError(5, "io"), asyncio.TimeoutError(), asyncio.CancelledError, Boom))

    cont = u.choose(2, "expect_continue") == 1
    def waiting_for_100():
        # the request head is out, the peer's answer (100 Continue or a final response) is being awaited
        u.check("C18.sockread.wait_for_100_continue_is_timed", ("start_timeout",) in log,
                "while the client waits for '100 Continue' it is awaiting a response: the sock_read timer is armed, so a "
                "peer that reads the request head and never answers is timed out", known=[("F18b", True)])

    req = u.obj("ClientRequest", {"_continue": SAwait(name="100-continue", on_suspend=waiting_for_100) if cont else None,
                                  "_body": _Body(), "url": "URL"},
                {}, shared=False)
    f = u.load(RR, "ClientRequest._write_bytes",
               globals={"set_exception": lambda p, exc, cause=None: log.append(("set_exception", p, type(exc).__name__))})
    cl = None if u.choose(2, "content_length") == 0 else u.int("content_length", 0)
    u.cancel_at_awaits = True
    out = u.call(f, req, _Writer(), _Conn(), cl)
    names = [e[0] for e in log]
    body_attempted = any(e[0] == "suspend" and e[3] == "body.write" for e in u.events)
    if not body_attempted:
        # cancelled while draining the headers or while waiting for '100 Continue' (e.g. because the final response
        # arrived first and the response clean-up cancels the writer task): the announced body was never sent
        u.check("C06.write.only_cancel_escapes_before_body", (not out.ok) and isinstance(out.exc, asyncio.CancelledError), repr(out))
        u.check("C06.write.cancel_before_body_closes", "conn.close" in names,
                "a writer cancelled before the announced body went out (waiting for 100-continue, draining the headers) "
                "closes the connection: the peer still expects Content-Length / chunked body bytes, so the next "
                "request on that connection would be read as this request's body (RFC 9110 10.1.1)",
                known=[("F6b", True)], witness={"expect_continue": cont})
        return
    body_ok = "write_eof" in names
    if out.ok and body_ok:
        u.check("C06.write.complete_body", "conn.close" not in names and "set_exception" not in names
                and names[-1] == "start_timeout", "a complete body: end of message written, read timeout armed")
    elif out.ok:
        u.check("C06.write.failure_poisons_protocol", names.count("set_exception") == 1 and log[names.index("set_exception")][1] is proto,
                "a body that failed to go out records the error on the protocol: the connection is then not clean "
                "(should_close), so it is closed at release and never reused")
    else:
        u.check("C06.write.only_cancel_escapes", isinstance(out.exc, asyncio.CancelledError), repr(out))
        if body_ok:
            # cancelled inside writer.write_eof(), after the whole body was handed over: not under contract here
            # (StreamWriter.write_eof puts the terminator on the transport before it waits for the drain, unless a
            # chunk-sent trace or executor compression suspends first - contracts/c04.py)
            return
        u.check("C06.write.cancel_closes", "conn.close" in names,
                "a cancelled body write closes the connection whatever was already written: it cannot be reused")
        u.check("C18.residue.cancelled_write_closes", "conn.close" in names,
                "cancelling a request while its body is being sent closes the connection")


@unit("C06", "canary.always_reuse", functions=[f"{CONN}:BaseConnector._release"], expect="canary")
def canary_release(u: U):
    """deliberately false: every released connection is pooled"""
    log = []
    key = _Key()
    p = _P(u, "p", log)
    conns = collections.defaultdict(collections.deque)
    c = u.obj("BaseConnector", {"_closed": False, "_force_close": u.bool("force_close"), "_conns": conns,
                                "_cleanup_handle": "H", "_cleanup_closed_disabled": True, "_cleanup_closed_transports": []},
              {"_release_acquired": lambda self, k, pr: None}, shared=False)
    f = u.load(CONN, "BaseConnector._release", globals={"monotonic": lambda: 1.0})
    u.call(f, c, key, p)
    u.check("C06.canary", len(conns.get(key, ())) == 1, "false")
