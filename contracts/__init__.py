"""Sidecar contracts.  Importing this package puts /repo first on sys.path, so that every `import aiohttp...` done by a
contract module resolves to the working tree under verification and never to the copy installed in /venv."""
from pyvc import instrument as _instrument

_instrument._ensure_repo_on_path()

from . import replayers as _replayers  # noqa: E402,F401  (registers the native replayers)
