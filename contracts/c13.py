"""C13 - WebSocket sessions close cleanly in every interleaving.

Functions under contract (real text from /repo):
  aiohttp/web_ws.py:    WebSocketResponse.close, receive, _handle_ping_pong_exception, _pong_not_received,
                        _set_closed, _set_closing, _set_code_close_transport, _close_transport
  aiohttp/client_ws.py: ClientWebSocketResponse.close, receive, _handle_ping_pong_exception, _pong_not_received,
                        _set_closed, _set_closing
  (no data frame after the close frame: WebSocketWriter.send_frame, contracts/c11.py, shared into C13)

Method.  The interleaving property is decomposed rely/guarantee style: code between two awaits is atomic (one event
loop); at every await the other actors may run, which is modelled by havocking the session flags under the rely
conditions R13 (each is a guarantee checked on the other functions):
   R1  _closed and _closing only ever go from False to True
   R2  _waiting is set only by receive() around its read and is False again whenever receive() is not suspended there
   R3  whoever sets _closed does so in the same atomic section in which it decides to send the close frame
Guarantees checked per function: the close frame is sent at most once and only by the actor that latched _closed; a
receive() blocked in its read is always woken by whoever ends the session (close(), pong timeout); every wait of close()
after the close frame is inside the close timeout; the transport is closed on every way out of close(); the close code
is the peer's code after a CLOSE message and 1006 on every abnormal way out.
"""
import asyncio

import z3

from pyvc import And, Iff, Implies, Not, Or, SInt, U, fields, is_sym, mk_bool, mk_int, stubs, tbool, tint
from pyvc.registry import unit
from pyvc.stubs import SAwait

SRV = "aiohttp.web_ws"
CLI = "aiohttp.client_ws"
ABNORMAL = 1006


def live(mod):
    import importlib

    from pyvc import instrument

    instrument._ensure_repo_on_path()
    return importlib.import_module(mod)


class Boom(Exception):
    pass


class _Msg:
    def __init__(self, type_, data=None):
        self.type, self.data = type_, data


class _Fut(SAwait):
    """a future created by loop.create_future(): truthy, awaited later"""

    def __bool__(self):
        return True


class World:
    """everything the session object touches, with an event log"""

    def __init__(self, u: U, mod, client: bool):
        self.u, self.client = u, client
        self.M = live(mod)
        self.log = []
        self.depth = 0  # nesting of async_timeout.timeout blocks
        self.outside = []  # names of awaits performed outside any timeout block
        self.timeout_args = []
        from aiohttp.http_websocket import WSMsgType

        self.T = WSMsgType
        w = self

        class _Writer:
            def close(s, code=1000, message=b""):
                w.log.append(("close_frame", code))
                # R3 / latch: the actor that sends the close frame has latched _closed in this atomic section
                u.check("C13.close.frame_only_after_latch", fields(w.ws)["_closed"] is True,
                        "the close frame is sent only after _closed was set, without an await in between")
                return SAwait(name="writer.close", raises=(Boom, asyncio.CancelledError))

            def send_frame(s, *a, **k):
                w.log.append(("send_frame",))
                return SAwait(name="writer.send_frame", raises=(Boom,))

        class _PayloadWriter:
            def drain(s):
                return SAwait(name="drain", raises=(Boom, asyncio.CancelledError))

        class _Reader:
            def feed_data(s, msg, *a):
                w.log.append(("feed", msg))

            def read(s):
                return SAwait(result=w.next_message, raises=(Boom, asyncio.CancelledError, asyncio.TimeoutError),
                              name="reader.read")

        class _Loop:
            def create_future(s):
                w.log.append(("close_wait.created",))
                return _Fut(name="close_wait")

        class _Transport:
            def close(s):
                w.log.append(("transport.close",))

        class _Req:
            transport = _Transport()

        class _Response:
            def close(s):
                w.log.append(("transport.close",))

        class _Timeout:
            def __init__(s, t):
                w.timeout_args.append(t)

            async def __aenter__(s):
                w.depth += 1

            async def __aexit__(s, *a):
                w.depth -= 1
                return False

        class _async_timeout:
            timeout = _Timeout

        self.Writer, self.PayloadWriter, self.Reader, self.Loop = _Writer, _PayloadWriter, _Reader, _Loop
        self.Req, self.Response, self.async_timeout = _Req, _Response, _async_timeout
        # the code of the peer's CLOSE frame as the reader reports it: 0 for an empty payload, else a wire-valid code
        self.peer_code = u.int("peer_close_code", 0, 4999)
        u.assume(Or(self.peer_code == 0, self.peer_code >= 1000))
        self.msgs = 0

    def next_message(self):
        """what the reader delivers: an arbitrary message"""
        T = self.T
        k = self.u.choose(4, "message.type")
        self.msgs += 1
        if k == 0:
            return _Msg(T.CLOSE, self.peer_code)
        return _Msg([T.TEXT, T.PING, T.CLOSING][k - 1], b"x")

    def hook(self, y):
        """at every suspension: note whether it is time-bounded, then let the other actors run (R13)"""
        aw = y.awaited
        if self.depth == 0:
            self.outside.append(aw.name)
        fs = fields(self.ws)
        u = self.u
        # R1: monotone flags; _close_code may be set by whoever sets _closing (the peer's code) or ends the session
        if fs["_closing"] is not True:
            if u.choose(2, "interference.closing"):
                fs["_closing"] = True
                fs["_close_code"] = self.peer_code
                self.log.append(("other.set_closing",))
        # R2: while this task is suspended another task may run close() to completion - its guarantee: the session is
        # latched closed and ITS one close frame is on the wire (e.g. the receive() this close() has just woken up
        # re-enters close() through autoclose before this task runs again)
        if fs["_closed"] is not True and getattr(self, "others_may_close", False):
            if u.choose(2, "interference.closed_by_other_task"):
                fs["_closed"] = True
                fs["_closing"] = True
                self.log.append(("close_frame",))
                self.log.append(("other.closed",))


def mk_server(u: U, w: World, **over):
    M = w.M
    real = {n: u.load(SRV, f"WebSocketResponse.{n}") for n in
            ("_set_closed", "_set_closing", "_set_code_close_transport", "_close_transport")}
    f = {"_writer": w.Writer(), "_payload_writer": w.PayloadWriter(), "_reader": w.Reader(), "_loop": w.Loop(),
         "_req": w.Req(), "_closed": False, "_closing": False, "_close_code": None, "_waiting": False,
         "_close_wait": None, "_timeout": u.real("close_timeout"), "_receive_timeout": None, "_autoclose": True,
         "_autoping": True, "_exception": None, "_conn_lost": 0}
    f.update(over)
    m = {n: (lambda self, *a, _f=fn: _f(self, *a)) for n, fn in real.items()}
    m["_cancel_heartbeat"] = lambda self: w.log.append(("cancel_heartbeat",))
    ws = u.obj("WebSocketResponse", f, m, shared=False)
    w.ws = ws
    return ws


def mk_client(u: U, w: World, **over):
    real = {n: u.load(CLI, f"ClientWebSocketResponse.{n}") for n in ("_set_closed", "_set_closing")}

    class _TO:
        ws_close = u.real("close_timeout")
        ws_receive = None

    f = {"_writer": w.Writer(), "_reader": w.Reader(), "_loop": w.Loop(), "_response": w.Response(),
         "_closed": False, "_closing": False, "_close_code": None, "_waiting": False, "_close_wait": None,
         "_timeout": _TO(), "_autoclose": True, "_autoping": True, "_exception": None}
    f.update(over)
    m = {n: (lambda self, *a, _f=fn: _f(self, *a)) for n, fn in real.items()}
    m["_cancel_heartbeat"] = lambda self: w.log.append(("cancel_heartbeat",))
    ws = u.obj("ClientWebSocketResponse", f, m, shared=False)
    w.ws = ws
    return ws


def _names(w):
    return [e[0] for e in w.log]


# ---------------------------------------------------------------------------------------------------------------
# close()


def _close_common(u: U, w: World, ws, out, entry_closed, waiting_at_entry, which):
    names = _names(w)
    frames = names.count("close_frame")
    fs = fields(ws)
    u.check(f"C13.{which}.close.at_most_one_frame", frames <= 1, "close() sends at most one close frame")
    if entry_closed:
        u.check(f"C13.{which}.close.noop_when_closed", out.ok and out.value is False and frames == 0
                and "transport.close" not in names,
                "a second close() (any task) returns False and touches nothing")
        return
    if frames == 0 and not out.ok:
        return
    if ("other.closed",) in w.log:
        # another task closed the session while this close() was suspended: this call must then do nothing more
        u.check(f"C13.{which}.close.yields_to_the_closer", out.ok and out.value is False and "transport.close" not in names,
                "a close() that finds the session closed by another task when it resumes returns False and sends nothing")
        return
    u.check(f"C13.{which}.close.latched", fs["_closed"] is True, "_closed stays set")
    # the transport is closed on every way out once the session is latched closed
    u.check(f"C13.{which}.close.transport_closed", "transport.close" in names,
            f"the transport is closed on every way out of close() ({'return' if out.ok else type(out.exc).__name__})")
    # bounded waits: everything awaited after the close frame is under the close timeout, except the hand-shake with
    # a blocked receive() (released by that receive()'s finally block - guarantee C13.*.receive.releases_closer)
    late = [n for n in w.outside if n not in ("close_wait",)]
    u.check(f"C13.{which}.close.waits_bounded_by_close_timeout", not late,
            f"every wait of close() is inside async_timeout.timeout(close timeout); outside: {late}",
            known=[("F13b", bool(late) and all(n in ("writer.close", "drain") for n in late))], witness={"outside": late})
    u.check(f"C13.{which}.close.timeout_is_close_timeout",
            all(t is (fs["_timeout"].ws_close if w.client else fs["_timeout"]) for t in w.timeout_args),
            "the timeout used is the configured close timeout")


@unit("C13", "server.close", functions=[f"{SRV}:WebSocketResponse.close", f"{SRV}:WebSocketResponse._set_closed",
                                        f"{SRV}:WebSocketResponse._set_code_close_transport",
                                        f"{SRV}:WebSocketResponse._close_transport"], timeout_ms=20000, also=("C18",))
def server_close(u: U):
    """WebSocketResponse.close() from any state, with the other actors running at every await"""
    w = World(u, SRV, client=False)
    entry_closed = u.choose(2, "closed_at_entry") == 1
    waiting = u.choose(2, "receive_blocked") == 1
    closing = u.choose(2, "closing_at_entry") == 1
    ws = mk_server(u, w, _closed=entry_closed, _waiting=waiting, _closing=closing,
                   _close_code=(w.peer_code if closing else None))
    u.suspend_hook = w.hook
    w.others_may_close = True
    f = u.load(SRV, "WebSocketResponse.close", globals={"async_timeout": w.async_timeout})
    fn_id = "web_ws:WebSocketResponse.close"
    # the read loop of close(): cut - it only ends by CLOSE, timeout or an error
    def entering_the_wait(L):
        u.check("C13.server.close.one_deadline_for_the_whole_wait", w.depth == 1,
                "the wait for the peer's CLOSE frame runs under ONE close-timeout deadline that spans all reads",
                also_as=("C18.wsclose.server.one_deadline_for_the_whole_wait",))

    u.loop(fn_id, 0, inv=lambda L: [("wait_loop", True)], variant=None, at_head=entering_the_wait,
           at_back=lambda L: u.check("C13.server.close.deadline_still_spans_the_wait", w.depth == 1,
                                     "going round the wait loop does not leave (and re-arm) the close timeout",
                                     also_as=("C18.wsclose.server.deadline_not_rearmed",)))
    drain = u.choose(2, "drain") == 1
    out = u.call(f, ws, drain=drain)
    _close_common(u, w, ws, out, entry_closed, waiting, "server")
    if entry_closed:
        return
    fs = fields(ws)
    names = _names(w)
    if "close_frame" in names and waiting and ("close_wait.created",) in w.log:
        i_feed = [i for i, e in enumerate(w.log) if e[0] == "feed"]
        u.check("C13.server.close.wakes_blocked_receive",
                bool(i_feed) and w.log[i_feed[0]][1] is w.M.WS_CLOSING_MESSAGE,
                "a receive() blocked in its read is woken with the CLOSING message before close() waits for it")
    if out.ok and out.value is True:
        last_close = [e for e in w.log if e[0] == "other.set_closing"]
        code = fs["_close_code"]
        got_peer_close = w.msgs > 0 and out.value is True and fs["_exception"] is None and "close_frame" in names
        u.check("C13.server.close.code_defined", code is not None, "a finished close() leaves a close code")
        if code is not None and fs["_exception"] is not None:
            u.check("C13.server.close.abnormal_is_1006", code == ABNORMAL, "an error while closing reports 1006")
    if not out.ok:
        u.check("C13.server.close.cancel_is_1006",
                Implies(isinstance(out.exc, (asyncio.CancelledError, asyncio.TimeoutError)), fields(ws)["_close_code"] == ABNORMAL),
                "cancellation of close() reports 1006")


@unit("C13", "server.close.peer_code", functions=[f"{SRV}:WebSocketResponse.close"])
def server_close_peer_code(u: U):
    """clean handshake: close() that reads the peer's CLOSE reports the peer's code"""
    w = World(u, SRV, client=False)
    ws = mk_server(u, w)
    f = u.load(SRV, "WebSocketResponse.close", globals={"async_timeout": w.async_timeout})
    u.loop("web_ws:WebSocketResponse.close", 0, inv=lambda L: [("in_timeout", w.depth == 1)])
    out = u.call(f, ws)
    fs = fields(ws)
    if out.ok and out.value is True and fs["_exception"] is None and w.msgs > 0:
        u.check("C13.server.close.peer_code_reported", fs["_close_code"] == w.peer_code,
                "after reading the peer's CLOSE frame the close code is the peer's")
        u.cover("C13.server.close.clean")


@unit("C13", "client.close", functions=[f"{CLI}:ClientWebSocketResponse.close", f"{CLI}:ClientWebSocketResponse._set_closed",
                                        f"{CLI}:ClientWebSocketResponse._set_closing"], timeout_ms=20000, also=("C18",))
def client_close(u: U):
    """ClientWebSocketResponse.close() from any state, with the other actors running at every await"""
    w = World(u, CLI, client=True)
    entry_closed = u.choose(2, "closed_at_entry") == 1
    waiting = u.choose(2, "receive_blocked") == 1
    closing = u.choose(2, "closing_at_entry") == 1
    ws = mk_client(u, w, _closed=entry_closed, _waiting=waiting, _closing=closing,
                   _close_code=(w.peer_code if closing else None))
    u.suspend_hook = w.hook
    w.others_may_close = True
    f = u.load(CLI, "ClientWebSocketResponse.close", globals={"async_timeout": w.async_timeout})
    fn_id = "client_ws:ClientWebSocketResponse.close"
    def entering_the_wait(L):
        # the loop that waits for the peer's CLOSE frame is about to run
        u.check("C13.client.close.one_deadline_for_the_whole_wait", w.depth == 1,
                "the wait for the peer's CLOSE frame runs under ONE close-timeout deadline that spans all reads: a peer "
                "that keeps sending other frames cannot keep close() (and its connection) alive beyond ws_close",
                also_as=("C18.wsclose.one_deadline_for_the_whole_wait",))
        if closing and ("other.closed",) not in w.log:
            u.check("C13.client.close.no_second_wait_after_peer_close", False,
                    "when the peer's CLOSE frame was already received (receive() has latched _closing and the peer's code - 0 "
                    "for a CLOSE without payload), close() answers it and returns: it does not wait the whole close timeout "
                    "for a second CLOSE that will never come (and then report 1006)",
                    known=[("F13d", w.peer_code == 0)], witness={"peer_close_code": w.peer_code})

    # (the invariant 'the close timeout spans the whole wait' is stated as the named obligation at the loop head - checked,
    # then assumed - so that it is counted under both properties that rely on it)
    u.loop(fn_id, 0, inv=lambda L: [("wait_loop", True)], at_head=entering_the_wait,
           at_back=lambda L: u.check("C13.client.close.deadline_still_spans_the_wait", w.depth == 1,
                                     "going round the wait loop does not leave (and re-arm) the close timeout",
                                     also_as=("C18.wsclose.deadline_not_rearmed",)))
    out = u.call(f, ws)
    _close_common(u, w, ws, out, entry_closed, waiting, "client")
    if entry_closed:
        return
    fs = fields(ws)
    if waiting and not closing:
        feeds = [e for e in w.log if e[0] == "feed"]
        u.check("C13.client.close.wakes_blocked_receive", bool(feeds) and feeds[0][1] is w.M.WS_CLOSING_MESSAGE
                and w.log.index(feeds[0]) < _names(w).index("close_frame") if "close_frame" in _names(w) else bool(feeds),
                "a receive() blocked in its read is woken with the CLOSING message")
    if closing and not entry_closed and ("other.closed",) not in w.log:
        reads = [e for e in u.events if e[0] == "suspend" and e[3] == "reader.read"]
        u.check("C13.client.close.no_second_wait_after_peer_close", not reads,
                "when the peer's CLOSE frame was already received (receive() has latched _closing and the peer's code - 0 "
                "for a CLOSE without payload), close() answers it and returns: it does not wait the whole close timeout "
                "for a second CLOSE that will never come (and then report 1006)",
                known=[("F13d", w.peer_code == 0)], witness={"peer_close_code": w.peer_code})
    if out.ok and out.value is True and fs["_exception"] is not None:
        u.check("C13.client.close.abnormal_is_1006", fs["_close_code"] == ABNORMAL, "an error while closing reports 1006")
    if not out.ok and isinstance(out.exc, asyncio.CancelledError) and "close_frame" in _names(w):
        u.check("C13.client.close.cancel_is_1006", fs["_close_code"] == ABNORMAL, "cancellation of close() reports 1006")
    if out.ok and out.value is True and fs["_exception"] is None and w.msgs > 0:
        u.check("C13.client.close.peer_code_reported", fs["_close_code"] == w.peer_code,
                "after reading the peer's CLOSE frame the close code is the peer's")


# ---------------------------------------------------------------------------------------------------------------
# receive()


def _receive(u: U, mod, client):
    w = World(u, mod, client=client)
    closed = u.choose(2, "closed_at_entry") == 1
    closing = (u.choose(2, "closing_at_entry") == 1) if not closed else False
    has_closer = u.choose(2, "closer_waiting") == 1  # a close() in another task is waiting on _close_wait
    calls = []

    def close_stub(self, **kw):
        calls.append(kw)
        fields(self)["_closed"] = True
        return SAwait(name="self.close", result=True)

    def pong_stub(self, data=b""):
        return SAwait(name="self.pong", raises=(Boom,))

    mk = mk_client if client else mk_server
    rt = (None, 5.0)[u.choose(2, "receive_timeout_configured")]
    ws = mk(u, w, _closed=closed, _closing=closing, _close_code=(w.peer_code if closing else None),
            **({} if client else {"_receive_timeout": rt}))
    if client:
        fields(ws)["_timeout"].ws_receive = rt
    object.__getattribute__(ws, "_o_methods")["close"] = close_stub
    object.__getattribute__(ws, "_o_methods")["pong"] = pong_stub
    cls = "ClientWebSocketResponse" if client else "WebSocketResponse"
    fn_id = f"{mod.split('.')[-1]}:{cls}.receive"
    released = []

    def set_result(fut, v):
        released.append(fut)

    waiting_seen = {"during_read": None}

    def hook(y):
        if y.awaited.name == "reader.read":
            waiting_seen["during_read"] = fields(ws)["_waiting"]
            waiting_seen["depth_at_read"] = w.depth
            # a close() from another task arrives while we are blocked: it creates _close_wait (and feeds CLOSING)
            if has_closer:
                fields(ws)["_close_wait"] = _Fut(name="close_wait")
                # ... and that close() has latched _closed already (R1: monotone flag, set by the other actor)
                if u.choose(2, "interference.closed_by_other_task"):
                    fields(ws)["_closed"] = True
                    waiting_seen["closed_by_other"] = True
        else:
            u.check(f"C13.{'client' if client else 'server'}.receive.waiting_only_around_read",
                    fields(ws)["_waiting"] is False, "R2: _waiting is False whenever receive() is suspended elsewhere")

    u.suspend_hook = hook
    f = u.load(mod, f"{cls}.receive", globals={"async_timeout": w.async_timeout, "set_result": set_result})
    u.loop(fn_id, 0, inv=lambda L: [("not_waiting", fields(ws)["_waiting"] is False)],
           havoc=lambda L: None)
    out = u.call(f, ws)
    which = "client" if client else "server"
    fs = fields(ws)
    u.check(f"C13.{which}.receive.waiting_reset", fs["_waiting"] is False,
            "R2: _waiting is False on every way out of receive() (return, error, cancellation)")
    if closed:
        u.check(f"C13.{which}.receive.closed_returns_at_once",
                out.ok and out.value is w.M.WS_CLOSED_MESSAGE and waiting_seen["during_read"] is None,
                "on a closed session receive() yields the CLOSED message without waiting")
        return
    if waiting_seen["during_read"] is not None:
        u.check(f"C13.{which}.receive.read_is_time_bounded_when_configured",
                (waiting_seen["depth_at_read"] == 1 and w.timeout_args == [rt]) if rt is not None
                else waiting_seen["depth_at_read"] == 0,
                "with a receive timeout configured the wait for the next message runs under exactly that deadline "
                "(receive() never blocks longer than asked); without one no timer is created")
        u.check(f"C13.{which}.receive.waiting_during_read", waiting_seen["during_read"] is True,
                "R2: _waiting is True while blocked in the read, so whoever ends the session knows to wake it")
        if has_closer:
            u.check(f"C13.{which}.receive.releases_closer", len(released) == 1,
                    "a close() waiting for this receive() is released on every way out of the read")
    if out.ok and getattr(out.value, "type", None) is w.T.CLOSE:
        u.check(f"C13.{which}.receive.close_sets_peer_code", And(fs["_closing"] is True, fs["_close_code"] == w.peer_code),
                "a CLOSE message sets closing and records the peer's code")
        u.check(f"C13.{which}.receive.autoclose", len(calls) == (0 if waiting_seen.get("closed_by_other") else 1),
                "autoclose answers with our close() - unless another task is already closing the session")
    if not out.ok and isinstance(out.exc, (asyncio.CancelledError, asyncio.TimeoutError)):
        # From the property: a close code is reported for an END of the session (the peer's code after a handshake,
        # 1006 for an abnormal end).  Giving up on one read - receive(timeout=...) expiring, the reading task being
        # cancelled - ends nothing: the session stays open and usable, so no code may be recorded; close() relies on
        # "a recorded code means the peer's CLOSE has arrived or the session is over" to skip its wait.
        # (An earlier version of this contract demanded 1006 here - it had been written from the code.)
        u.check(f"C13.{which}.receive.giving_up_a_read_is_not_an_end",
                Implies(Not(tbool(fs["_closed"])), fs["_close_code"] is None if not closing else True),
                "receive() left by TimeoutError / CancelledError on an open session records no close code",
                known=[("F13e", True)], witness={"exit": type(out.exc).__name__, "client": client})
    if out.ok and isinstance(out.value, w.M.WSMessageError if hasattr(w.M, "WSMessageError") else ()):
        u.check(f"C13.{which}.receive.error_closes", len(calls) == 1, "an error from the reader closes the session")


@unit("C13", "server.receive", functions=[f"{SRV}:WebSocketResponse.receive"], timeout_ms=20000)
def server_receive(u: U):
    """WebSocketResponse.receive(): one turn of its loop from any state"""
    _receive(u, SRV, client=False)


@unit("C13", "client.receive", functions=[f"{CLI}:ClientWebSocketResponse.receive"], timeout_ms=20000)
def client_receive(u: U):
    """ClientWebSocketResponse.receive(): one turn of its loop from any state"""
    _receive(u, CLI, client=True)


# ---------------------------------------------------------------------------------------------------------------
# pong timeout


def _pingpong(u: U, mod, client):
    w = World(u, mod, client=client)
    closed = u.choose(2, "closed") == 1
    waiting = u.choose(2, "receive_blocked") == 1
    closing = u.choose(2, "closing") == 1
    mk = mk_client if client else mk_server
    ws = mk(u, w, _closed=closed, _waiting=waiting, _closing=closing, _pong_heartbeat=5.0)
    cls = "ClientWebSocketResponse" if client else "WebSocketResponse"
    h = u.load(mod, f"{cls}._handle_ping_pong_exception")
    object.__getattribute__(ws, "_o_methods")["_handle_ping_pong_exception"] = lambda self, e: h(self, e)
    # two ways in: the pong timer fires, or the task that sends the heartbeat PING failed (_ping_task_done hands its
    # exception straight to _handle_ping_pong_exception - e.g. the PING of a heartbeat re-armed by the peer's last
    # frames, written on the transport the finished close() has just closed)
    entry = ("pong_timer", "ping_failed")[u.choose(2, "entry")]
    code0 = w.peer_code if closed else None
    fields(ws)["_close_code"] = code0
    if entry == "pong_timer":
        f = u.load(mod, f"{cls}._pong_not_received")
        out = u.call(f, ws)
    else:
        out = u.call(h, ws, Boom("ping could not be written"))
    which = "client" if client else "server"
    fs = fields(ws)
    names = _names(w)
    u.check(f"C13.{which}.pong_timeout.total", out.ok, repr(out))
    if closed:
        u.check(f"C13.{which}.pong_timeout.noop_when_closed", "transport.close" not in names and "feed" not in names,
                "an already closed session is left alone")
        u.check(f"C13.{which}.pingpong.closed_session_is_frozen",
                And(fs["_close_code"] == code0 if code0 is not None else fs["_close_code"] is None,
                    fs["_exception"] is None),
                "whichever way a heartbeat failure arrives, it does not rewrite the outcome of a session that is already "
                "closed: the close code stays the one of the handshake, no exception appears")
        return
    u.check(f"C13.{which}.pong_timeout.abnormal_closure",
            And(fs["_closed"] is True, fs["_close_code"] == ABNORMAL, "transport.close" in names, fs["_exception"] is not None),
            "a missing PONG closes the session: closed, code 1006, transport closed, exception recorded")
    u.check(f"C13.{which}.pong_timeout.no_close_frame", "close_frame" not in names, "no close frame on a dead connection")
    if waiting and not closing:
        u.check(f"C13.{which}.pong_timeout.wakes_blocked_receive", "feed" in names,
                "a receive() blocked in its read is woken with the error message")


@unit("C13", "server.pong_timeout", functions=[f"{SRV}:WebSocketResponse._pong_not_received",
                                               f"{SRV}:WebSocketResponse._handle_ping_pong_exception"])
def server_pong(u: U):
    """server: pong timer fires in any state"""
    _pingpong(u, SRV, False)


@unit("C13", "client.pong_timeout", functions=[f"{CLI}:ClientWebSocketResponse._pong_not_received",
                                               f"{CLI}:ClientWebSocketResponse._handle_ping_pong_exception"])
def client_pong(u: U):
    """client: pong timer fires in any state"""
    _pingpong(u, CLI, True)


# ---------------------------------------------------------------------------------------------------------------
# heartbeat: a dead peer is noticed - some live timer is always pending while the session is open


class _Handle:
    def __init__(self, what, fired=False):
        self.what, self.fired, self.cancelled = what, fired, False

    def cancel(self):
        self.cancelled = True

    def live(self):
        return not self.fired and not self.cancelled


def _heartbeat(u: U, mod, client):
    """H13: with a heartbeat configured and the session open, after every heartbeat callback returns one of these is
    pending: a live heartbeat timer, a live pong-timeout timer, or a scheduled heartbeat reset.  `_heartbeat_cb`, when
    not None, is a LIVE timer (a fired handle must not be left there: _reset_heartbeat would then not re-arm)."""
    cls = "ClientWebSocketResponse" if client else "WebSocketResponse"
    which = "client" if client else "server"
    log = []

    class _Loop:
        def __init__(self):
            self.now = u.real("now")

        def time(self):
            return self.now

        def call_at(self, when, cb):
            h = _Handle(getattr(cb, "__name__", str(cb)))
            log.append(("call_at", h.what))
            return h

        def call_soon(self, cb):
            h = _Handle("flush")
            log.append(("call_soon",))
            return h

        def create_task(self, coro):
            return _Task()

    class _Task:
        def __init__(self, *a, **k):
            pass

        def done(self):
            return u.choose(2, "ping.done_immediately") == 1

        def cancelled(self):
            return False

        def exception(self):
            return None

        def add_done_callback(self, cb):
            pass

    class _asyncio:
        Task = _Task

    class _Writer:
        def send_frame(self, *a, **k):
            log.append(("ping",))
            return "coro"

    need_reset = u.choose(2, "need_heartbeat_reset") == 1
    f = {"_heartbeat": u.real("heartbeat"), "_pong_heartbeat": u.real("pong_heartbeat"), "_loop": _Loop(),
         "_heartbeat_cb": None, "_heartbeat_when": u.real("heartbeat_when"), "_need_heartbeat_reset": need_reset,
         "_heartbeat_reset_handle": _Handle("flush") if need_reset else None, "_pong_response_cb": None,
         "_ping_task": None, "_writer": _Writer(), "_conn": None, "_req": None, "_closed": False}
    real = {}
    for n in ("_send_heartbeat", "_reset_heartbeat", "_flush_heartbeat_reset", "_cancel_pong_response_cb",
              "_on_data_received"):
        real[n] = u.load(mod, f"{cls}.{n}", globals={"asyncio": _asyncio, "calculate_timeout_when": lambda now, t, c: now + t})
    m = {n: (lambda self, *a, _f=fn: _f(self, *a)) for n, fn in real.items()}
    m["_pong_not_received"] = lambda self: None
    m["_ping_task_done"] = lambda self, t: None
    ws = u.obj(cls, f, m, shared=False)
    fs = fields(ws)

    def token():
        cb, pong, rh = fs["_heartbeat_cb"], fs["_pong_response_cb"], fs["_heartbeat_reset_handle"]
        return (cb is not None and cb.live()) or (pong is not None and pong.live()) or \
               (fs["_need_heartbeat_reset"] is True and rh is not None and rh.live())

    def cb_wellformed():
        cb = fs["_heartbeat_cb"]
        return cb is None or cb.live()

    scenario = u.choose(3, "callback")
    if scenario == 0:
        # the heartbeat timer fires: its handle is now a FIRED handle still stored in _heartbeat_cb
        fs["_heartbeat_cb"] = _Handle("_send_heartbeat", fired=True)
        out = u.call(real["_send_heartbeat"], ws)
        name = "send_heartbeat"
    elif scenario == 1:
        # the coalesced reset runs (its call_soon handle has fired)
        fs["_heartbeat_reset_handle"] = _Handle("flush", fired=True) if need_reset else None
        if u.choose(2, "timer_pending") == 1:
            fs["_heartbeat_cb"] = _Handle("_send_heartbeat")
        out = u.call(real["_flush_heartbeat_reset"], ws)
        name = "flush_reset"
        if not need_reset:
            return
    else:
        # data arrives
        if u.choose(2, "timer_pending") == 1:
            fs["_heartbeat_cb"] = _Handle("_send_heartbeat")
        else:
            fs["_pong_response_cb"] = _Handle("_pong_not_received")
        out = u.call(real["_on_data_received"], ws)
        name = "on_data"
    u.check(f"C13.{which}.heartbeat.{name}.total", out.ok, repr(out))
    u.check(f"C13.{which}.heartbeat.{name}.cb_is_live_or_none", cb_wellformed(),
            "_heartbeat_cb is None or a live timer - never a handle that has already fired")
    u.check(f"C13.{which}.heartbeat.{name}.something_pending", token(),
            "a heartbeat timer, a pong-timeout timer or a scheduled reset is pending: a silent peer will be noticed")


@unit("C13", "server.heartbeat", functions=[f"{SRV}:WebSocketResponse._send_heartbeat", f"{SRV}:WebSocketResponse._reset_heartbeat",
                                            f"{SRV}:WebSocketResponse._flush_heartbeat_reset",
                                            f"{SRV}:WebSocketResponse._on_data_received"])
def server_heartbeat(u: U):
    """server heartbeat callbacks keep H13"""
    _heartbeat(u, SRV, False)


@unit("C13", "client.heartbeat", functions=[f"{CLI}:ClientWebSocketResponse._send_heartbeat",
                                            f"{CLI}:ClientWebSocketResponse._reset_heartbeat",
                                            f"{CLI}:ClientWebSocketResponse._flush_heartbeat_reset",
                                            f"{CLI}:ClientWebSocketResponse._on_data_received"])
def client_heartbeat(u: U):
    """client heartbeat callbacks keep H13"""
    _heartbeat(u, CLI, True)


@unit("C13", "writer.close", functions=["aiohttp._websocket.writer:WebSocketWriter.close"])
def writer_close(u: U):
    """WebSocketWriter.close(): exactly one CLOSE frame is attempted and the writer is marked closing on every way out
    (so that C13.writer.no_data_frame_after_close applies from then on)"""
    sent = []

    def send_frame(self, msg, opcode, compress=None):
        sent.append(opcode)
        return SAwait(name="send_frame", raises=(Boom, asyncio.CancelledError))

    from aiohttp.http_websocket import WSMsgType

    wr = u.obj("WebSocketWriter", {"_closing": False}, {"send_frame": send_frame}, shared=False)
    f = u.load("aiohttp._websocket.writer", "WebSocketWriter.close")

    def hook(y):
        # the close frame is on the wire once send_frame suspends (in its drain): from here on other tasks run
        u.check("C13.writer.closing_before_first_suspension", fields(wr)["_closing"] is True,
                "_closing is already set when close() first suspends: a send_frame(data) from another task during the "
                "drain of the close frame is refused, so no data frame follows the close frame on the wire",
                known=[("F13c", True)], witness={"schedule": "close() suspended in drain; other task send_frame(TEXT)"})

    u.suspend_hook = hook
    out = u.call(f, wr, 1000, b"bye")
    u.check("C13.writer.close_marks_closing", fields(wr)["_closing"] is True,
            f"_closing is set on every way out of close() ({'ok' if out.ok else type(out.exc).__name__})")
    u.check("C13.writer.close_one_close_frame", sent == [WSMsgType.CLOSE], "one frame, opcode CLOSE")


@unit("C13", "canary.close_twice", functions=[f"{SRV}:WebSocketResponse.close"], expect="canary")
def canary_close(u: U):
    """deliberately false: close() never sends a frame"""
    w = World(u, SRV, client=False)
    ws = mk_server(u, w)
    f = u.load(SRV, "WebSocketResponse.close", globals={"async_timeout": w.async_timeout})
    u.loop("web_ws:WebSocketResponse.close", 0, inv=lambda L: [])
    u.call(f, ws)
    u.check("C13.canary", "close_frame" not in _names(w), "false")
