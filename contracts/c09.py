"""C09 - body decoding is transparent, memory-bounded and always makes progress.

Functions under contract (real text from /repo):
  aiohttp/http_parser.py:        DeflateBuffer.feed_data, feed_eof           (+ HttpPayloadParser.feed_data pause/resume
                                 obligations C09.pause.* in contracts/c03.py, shared into this property)
  aiohttp/compression_utils.py:  ZLibDecompressor.decompress_sync, data_available,
                                 ConcatDecompressionHandler._decompress_members
  aiohttp/web_request.py:        BaseRequest.read

The codecs themselves (zlib / brotli / zstd objects) are external C code: they are ASSUMED to behave like the abstract
member decoder `ZObj` below (documented zlib.decompressobj semantics: output capped by max_length, the unprocessed input
kept in unconsumed_tail, input after the end of a member kept in unused_data, eof flag; input fed to a spent object is
appended to unused_data).  What is proved is aiohttp's own bookkeeping around them:
  (M) memory: one decompress_sync(data, max_length) call returns at most max_length bytes (when limited), across any
      number of concatenated members - so DeflateBuffer hands the reader at most max(max_decompress_size, low_water) per step
  (I) no input byte is lost or decoded twice: every byte handed in is consumed by exactly one decoder call or is held
      (unconsumed_tail / _pending_unused_data) for the next call, and at rest no spent decoder still lists input
  (P) progress: whenever input is held back, data_available is True, so the parser comes back with b""
  (E) a decoder error surfaces as ContentEncodingError; a truncated deflate stream is reported at end of body
  (S) the raw-deflate sniff happens once, on the first non-empty chunk
  (R) BaseRequest.read never returns more than client_max_size and stops accumulating once it is exceeded
"""
import z3

from pyvc import And, Iff, Implies, Not, Or, SBytes, SInt, U, blen, fields, is_sym, mk_bool, mk_int, stubs, tbool, tint
from pyvc.registry import unit
from pyvc.stubs import SAwait

CU = "aiohttp.compression_utils"
HP = "aiohttp.http_parser"
WR = "aiohttp.web_request"
FN_MEM = "compression_utils:ConcatDecompressionHandler._decompress_members"


class ZErr(Exception):
    pass


class Ghost:
    """accounting of input bytes: consumed = bytes some decoder call has taken in and will never see again"""

    def __init__(self, u):
        self.u = u
        self.consumed = mk_int(z3.IntVal(0))
        self.calls = 0


class ZObj:
    """abstract zlib.decompressobj (ASSUMED contract, see module docstring)"""

    def __init__(self, u: U, G: Ghost, name="z", eof=False, ut=None, ud=None):
        self.u, self.G, self.name = u, G, name
        self.eof = eof
        self.unconsumed_tail = ut if ut is not None else b""
        self.unused_data = ud if ud is not None else b""

    def decompress(self, data, max_length=0):
        u, G = self.u, self.G
        G.calls += 1
        stubs.used("zlib.decompressobj.decompress(data, max_length): len(out) <= max_length when max_length > 0; the "
                   "input not processed because of the cap is unconsumed_tail (and then len(out) == max_length); at the "
                   "end of a member eof is set and the rest of the input is unused_data; a spent object appends input "
                   "to unused_data; corrupt input raises")
        d = SBytes.of(data)
        n = d.length()
        ml = max_length
        if self.eof is True or (is_sym(self.eof) and u.branch(self.eof, f"{self.name}.already_spent")):
            self.eof = True
            self.unused_data = SBytes.of(self.unused_data) + d
            return b""
        k = u.choose(4, f"{self.name}.decompress.outcome")
        if k == 3:
            raise ZErr("invalid stream")
        out = u.bytes(f"{self.name}.out")
        limited = ml > 0 if not is_sym(ml) else ml > 0
        u.assume(Implies(limited, blen(out) <= ml))
        if k == 0:
            # everything taken in, member goes on
            self.unconsumed_tail, self.unused_data = b"", b""
            G.consumed = G.consumed + n
        elif k == 1:
            # output cap reached: a suffix of the input is left over
            u.assume(limited)
            u.assume(blen(out) == ml)
            cut = u.int(f"{self.name}.cut", 0)
            u.assume(cut <= n)
            self.unconsumed_tail = d[cut:]
            self.unused_data = b""
            G.consumed = G.consumed + cut
        else:
            # member ended inside this input
            # (the call that sees the end of a member has consumed at least its last byte)
            cut = u.int(f"{self.name}.end", 1)
            u.assume(cut <= n)
            self.eof = True
            self.unconsumed_tail = b""
            self.unused_data = d[cut:]
            G.consumed = G.consumed + cut
        return out

    def flush(self, *a):
        return b""


def held_len(x):
    return blen(SBytes.of(x)) if x is not None else 0


class Parts:
    """the local list `parts` after the loop cut: only the total length of its elements matters"""

    _pyvc_sym = True

    def __init__(self, u, total):
        self.u, self.total = u, total

    def append(self, x):
        self.total = self.total + blen(SBytes.of(x))

    def __iter__(self):
        b = self.u.bytes("joined")
        self.u.assume(blen(b) == self.total)
        return iter([b])


def _total(parts):
    if isinstance(parts, Parts):
        return parts.total
    t = 0
    for p in parts:
        t = t + blen(SBytes.of(p))
    return t


@unit("C09", "members", functions=[f"{CU}:ConcatDecompressionHandler._decompress_members"], timeout_ms=20000)
def members(u: U):
    """_decompress_members for any number of concatenated members and any output budget: loop invariant
    (produced == len(parts) <= max_length when limited; every byte of `remaining` before pos has been consumed or sits in
    the current decoder's unconsumed_tail; a spent decoder is replaced before anything else happens)"""
    G = Ghost(u)
    rem = u.bytes("unused_data_of_first_member")
    u.assume(blen(rem) >= 1)
    first = u.bytes("first")
    unlimited = u.choose(2, "unlimited") == 1
    max_length = 0 if unlimited else u.int("max_length", 1)
    if not unlimited:
        u.assume(blen(first) <= max_length)
    z0 = ZObj(u, G, "z0", eof=True, ud=rem)
    made = []

    def new_dec(self):
        z = ZObj(u, G, f"z{len(made) + 1}")
        made.append(z)
        return z

    h = u.obj("ZLibDecompressor", {"_decompressor": z0, "_pending_unused_data": None, "_unlimited": 0},
              {"_new_decompressor": new_dec}, shared=False)
    fs = fields(h)
    f = u.load(CU, "ConcatDecompressionHandler._decompress_members",
               globals={"memoryview": lambda x: SBytes.of(x), "TooManyMembersError": ZErr})
    N = blen(rem)

    def cur():
        return fs["_decompressor"]

    def inv(L):
        pos, produced = L["pos"], L["produced"]
        z = cur()
        return [("pos", And(pos >= 0, pos <= N)),
                ("produced", And(produced == _total(L["parts"]), Implies(not unlimited, produced <= max_length) if not unlimited else True)),
                ("accounted", G.consumed + held_len(z.unconsumed_tail) == pos),
                ("window", And(L["window"] >= 64, L["window"] <= 65536)),
                ("budget_unlimited", (L["budget"] == 0) if unlimited else True),
                ("tail_means_budget_spent", Implies(held_len(z.unconsumed_tail) > 0, produced == max_length) if not unlimited
                 else held_len(z.unconsumed_tail) == 0),
                ("spent_lists_at_most_the_rest", Implies(z.eof, held_len(z.unused_data) <= N - pos) if is_sym(z.eof) or z.eof else True),
                ("nothing_pending", fs["_pending_unused_data"] is None)]

    def havoc(L):
        z = ZObj(u, G, "zc", eof=u.bool("cur.eof"), ut=u.bytes("cur.unconsumed_tail"), ud=u.bytes("cur.unused_data"))
        u.assume(Implies(z.eof, blen(z.unconsumed_tail) == 0))
        u.assume(Implies(Not(z.eof), blen(z.unused_data) == 0))
        fs["_decompressor"] = z
        G.consumed = u.int("consumed@loop", 0)

    u.loop(FN_MEM, 0, inv=inv, havoc=havoc, variant=lambda L: N - L["pos"],
           types={"parts": lambda nm: Parts(u, u.int("parts.total@loop", 0)),
                  "members": lambda nm: u.int("members@loop", 1)})
    out = u.call(f, h, first, max_length)
    if not out.ok:
        u.check("C09.members.only_decoder_errors", isinstance(out.exc, ZErr), f"only codec errors escape: {out!r}")
        return
    res = out.value
    z = cur()
    pend = fs["_pending_unused_data"]
    if not unlimited:
        u.check("C09.members.output_within_budget", blen(SBytes.of(res)) <= max_length,
                "(M) the joined output of all members decoded in this call stays within max_length")
    u.check("C09.members.no_input_lost_or_duplicated",
            G.consumed + held_len(z.unconsumed_tail) + held_len(pend) == N,
            "(I) every byte after the first member was consumed by a decoder call or is held (unconsumed_tail / "
            "_pending_unused_data) for the next call")
    u.check("C09.members.no_spent_decoder_with_input",
            Not(And(z.eof, held_len(z.unused_data) > 0)) if is_sym(z.eof) else (not z.eof or held_len(z.unused_data) == 0),
            "(I) at rest the current decoder is not a spent one that still lists input: those bytes would be decoded again "
            "when the next chunk is appended to its unused_data")
    u.cover("C09.members.returned")


@unit("C09", "decompress_sync", functions=[f"{CU}:ZLibDecompressor.decompress_sync", f"{CU}:ZLibDecompressor.data_available"])
def decompress_sync(u: U):
    """ZLibDecompressor.decompress_sync: held-back input is fed first and in order, the output cap carries over to the
    member walk, and data_available is True whenever input is still held"""
    G = Ghost(u)
    data = u.bytes("data")
    pend0 = u.bytes("pending") if u.choose(2, "has_pending") else None
    ut0 = u.bytes("unconsumed_tail")
    z = ZObj(u, G, "z", eof=False, ut=ut0)
    if pend0 is not None:
        # representation invariant (established by C09.members.*): pending input comes with a fresh decoder
        u.assume(blen(ut0) == 0)
    fed = []
    real_dec = z.decompress

    def spy(d, ml=0):
        fed.append((SBytes.of(d), ml))
        return real_dec(d, ml)

    z.decompress = spy
    max_length = u.int("max_length", 0)
    walked = []

    def members_stub(self, first, ml):
        walked.append((first, ml))
        # contract of _decompress_members (unit C09.members): output within budget, nothing lost, decoder not spent
        fields(self)["_decompressor"] = ZObj(u, G, "zm", eof=False)
        out = u.bytes("members.out")
        u.assume(Implies(ml > 0, blen(out) <= ml))
        return out

    class _Backend:
        MAX_WBITS = 15

    gz = u.choose(2, "gzip_mode") == 1
    h = u.obj("ZLibDecompressor", {"_decompressor": z, "_pending_unused_data": pend0, "_last_empty": False,
                                   "_mode": 31 if gz else 15, "_zlib_backend": _Backend()},
              {"_decompress_members": members_stub, "_new_decompressor": lambda self: ZObj(u, G, "zn")}, shared=False)
    f = u.load(CU, "ZLibDecompressor.decompress_sync", globals={"bytes": lambda x: x})
    out = u.call(f, h, data, max_length)
    if not out.ok:
        u.check("C09.sync.only_decoder_errors", isinstance(out.exc, ZErr), repr(out))
        return
    fs = fields(h)
    u.check("C09.sync.held_input_first_in_order",
            len(fed) >= 1 and fed[0][0].prov_eq(SBytes.of(ut0) + (SBytes.of(pend0) + data if pend0 is not None else data)),
            "(I) the decoder is fed  unconsumed_tail ++ pending ++ new data: held-back input first, nothing dropped, in order")
    u.check("C09.sync.cap_passed_on", fed[0][1] is max_length and all(w[1] is max_length for w in walked),
            "(M) the caller's max_length caps the first member and the member walk alike")
    res = SBytes.of(out.value)
    u.check("C09.sync.output_within_cap", Implies(max_length > 0, blen(res) <= max_length), "(M) at most max_length bytes per call")
    u.check("C09.sync.pending_consumed", fs["_pending_unused_data"] is None or bool(walked),
            "the pending input was handed to the decoder (only a new member walk may hold input back again)")
    g = u.load(CU, "ZLibDecompressor.data_available")
    o2 = u.call(g, h)
    zc = fs["_decompressor"]
    held = Or(held_len(zc.unconsumed_tail) > 0, fs["_pending_unused_data"] is not None)
    u.check("C09.sync.held_input_means_data_available", o2.ok and tbool_imp(held, o2.value),
            "(P) whenever input is held back, data_available is True: the parser calls again with b'' and decoding goes on")
    u.check("C09.sync.output_means_data_available", o2.ok and tbool_imp(blen(res) > 0, o2.value),
            "(P) a call that produced output is followed by another look (the only way to learn that a codec is drained)")


def tbool_imp(a, b):
    return Implies(a, b)


@unit("C09", "deflate_buffer", functions=[f"{HP}:DeflateBuffer.feed_data", f"{HP}:DeflateBuffer.feed_eof"])
def deflate_buffer(u: U):
    """DeflateBuffer.feed_data / feed_eof: per-step output bound, error mapping, one-time sniff on the first real byte"""
    import sys as _sys

    log = []
    chunk = u.bytes("chunk")
    started0 = u.choose(2, "started_decoding") == 1
    enc = ["deflate", "gzip"][u.choose(2, "encoding")]
    low = u.int("low_water", 0)
    maxd = u.int("max_decompress_size", 1)

    class _Out:
        _low_water = low
        total_compressed_bytes = 0

        def feed_data(self, b):
            log.append(("feed", b))

        def feed_eof(self):
            log.append(("eof",))

    fails = u.choose(2, "decoder_fails") == 1
    avail = u.bool("data_available")

    class _Dec:
        def __init__(self, tag):
            self.tag = tag
            self.data_available = avail
            self.eof = u.bool("dec.eof")
            # ghost (not an attribute the code can read): the decoder has consumed input of a member that has not ended.
            # For deflate that is `not eof` once input was fed; for gzip `eof` says nothing - the decoder is replaced by
            # a fresh one (eof False) whenever a member ends exactly at the end of a chunk
            self.ghost_mid_member = u.bool("dec.mid_member")

        def decompress_sync(self, c, max_length=0):
            log.append(("decompress", self.tag, c, max_length))
            if fails:
                raise ZErr("bad")
            out = u.bytes("decoded")
            u.assume(Implies(max_length > 0, blen(out) <= max_length))  # C09.sync.output_within_cap
            return out

        def flush(self):
            return b""

    made = []

    def mk_dec(encoding=None, suppress_deflate_header=False):
        made.append((encoding, suppress_deflate_header))
        return _Dec("raw")

    d = u.obj("DeflateBuffer", {"out": _Out(), "size": u.int("size", 0), "encoding": enc, "_started_decoding": started0,
                                "decompressor": _Dec("initial"), "_max_decompress_size": maxd}, {}, shared=False)
    from aiohttp.http_exceptions import ContentEncodingError

    f = u.load(HP, "DeflateBuffer.feed_data", globals={"ZLibDecompressor": mk_dec})
    out = u.call(f, d, chunk)
    fs = fields(d)
    nonempty = blen(chunk) > 0
    if u.branch(nonempty, "chunk.nonempty"):
        u.check("C09.sniff.marks_started", fs["_started_decoding"] is True, "the first real byte decides, once")
        if not started0 and enc == "deflate":
            raw = (chunk[0] & 0xF) != 8 if False else None
            u.check("C09.sniff.raw_deflate_iff_no_zlib_header",
                    Iff(bool(made), Not(tbool_eq8(chunk))),
                    "(S) a deflate body whose first byte is not a zlib header (CM != 8) is decoded as raw deflate")
        if started0:
            u.check("C09.sniff.only_once", not made, "(S) the decoder is not swapped after decoding has started")
    else:
        u.check("C09.sniff.empty_chunk_does_not_decide", fs["_started_decoding"] is started0 and not made,
                "(S) an empty feed (e.g. resuming with b'') neither sniffs nor marks decoding as started")
    if fails:
        u.check("C09.deflate.decoder_error_mapped", (not out.ok) and isinstance(out.exc, ContentEncodingError),
                "(E) any codec failure surfaces as ContentEncodingError - corrupt data is not delivered")
        return
    u.check("C09.deflate.total", out.ok, repr(out))
    decs = [e for e in log if e[0] == "decompress"]
    ml = decs[0][3]
    unlimited_reader = low >= _sys.maxsize
    u.check("C09.deflate.step_cap", And(Implies(unlimited_reader, ml == 0),
                                        Implies(Not(unlimited_reader), And(ml >= maxd, ml >= low, Or(ml == maxd, ml == low)))),
            "(M) each step may produce at most max(max_decompress_size, reader low-water) bytes (no cap only for an "
            "unbounded reader)")
    feeds = [e for e in log if e[0] == "feed"]
    u.check("C09.deflate.fed_once_within_cap", len(feeds) <= 1 and all(tbool_true(Implies(ml > 0, blen(SBytes.of(e[1])) <= ml)) is not False for e in feeds),
            "(M) what reaches the reader in one step is that capped output, once")
    for e in feeds:
        u.check("C09.deflate.fed_within_cap", Implies(ml > 0, blen(SBytes.of(e[1])) <= ml), "(M) within the cap")
    u.check("C09.deflate.returns_data_available", out.value is avail,
            "(P) the caller is told exactly whether the decoder holds more output")
    u.check("C09.deflate.size_accounted", fs["size"] == fields(d)["size"], "compressed size accounted")
    # feed_eof
    log.clear()
    g = u.load(HP, "DeflateBuffer.feed_eof")
    o2 = u.call(g, d)
    dec = fs["decompressor"]
    trunc = And(fs["size"] > 0, enc == "deflate", Not(dec.eof))
    if enc == "deflate":
        u.assume(Implies(fs["size"] > 0, Iff(dec.ghost_mid_member, Not(dec.eof))))
    truncated = And(fs["size"] > 0, dec.ghost_mid_member)
    if o2.ok:
        u.check("C09.deflate.eof_only_if_complete", Not(truncated),
                "(E) a compressed body that stops in the middle of a member is not passed off as complete, whatever the "
                "coding: the application would read a prefix of the content as if it were all of it",
                known=[("F9b", enc != "deflate")], witness={"encoding": enc, "decoder.eof": dec.eof})
        u.check("C09.deflate.eof_forwarded", ("eof",) in log, "end of body reaches the reader")
    else:
        u.check("C09.deflate.truncated_reported", And(isinstance(o2.exc, ContentEncodingError), trunc),
                "(E) ... it is reported as ContentEncodingError")


def tbool_eq8(chunk):
    b0 = chunk[0]
    from pyvc.values import bitop

    return bitop("and", b0, 0xF) == 8


def tbool_true(x):
    return x


@unit("C09", "request.read", functions=[f"{WR}:BaseRequest.read"], timeout_ms=20000)
def request_read(u: U):
    """BaseRequest.read(): returns at most client_max_size bytes; the body it accumulates exceeds the limit by at most
    the one chunk that crossed it, and then it stops (413)"""
    maxsz = u.int("client_max_size", 0)
    chunks = []

    class _Payload:
        def set_read_chunk_size(self, n):
            pass

        def readany(self):
            def r():
                c = u.bytes("chunk")
                chunks.append(c)
                return c

            return SAwait(result=r, name="readany", raises=(ZErr,))

    class _413(Exception):
        def __init__(self, max_size=None, actual_size=None):
            pass

    req = u.obj("BaseRequest", {"_read_bytes": None, "_client_max_size": maxsz, "_payload": _Payload()}, {}, shared=False)
    f = u.load(WR, "BaseRequest.read", globals={"HTTPRequestEntityTooLarge": _413})
    fn = "web_request:BaseRequest.read"

    def inv(L):
        body = L["body"]
        return [("within_limit", Or(maxsz == 0, blen(body) <= maxsz))]

    u.loop(fn, 0, inv=inv, types={"body": lambda nm: SBytes.fresh(nm, bytearray, register=False)})
    out = u.call(f, req)
    if out.ok:
        u.check("C09.read.result_within_limit", Or(maxsz == 0, blen(SBytes.of(out.value)) <= maxsz),
                "(R) read() never returns more than client_max_size")
    else:
        u.check("C09.read.only_413_or_payload_error", isinstance(out.exc, (_413, ZErr)), repr(out))
        if isinstance(out.exc, _413):
            L = u.last_locals.get(fn) or {}
            u.cover("C09.read.413")


@unit("C09", "canary.unbounded_step", functions=[f"{HP}:DeflateBuffer.feed_data"], expect="canary")
def canary_step(u: U):
    """deliberately false: a step never produces more than 10 bytes"""
    log = []

    class _Out:
        _low_water = u.int("low_water", 0)
        total_compressed_bytes = 0

        def feed_data(self, b):
            log.append(b)

    class _Dec:
        data_available = False

        def decompress_sync(self, c, max_length=0):
            out = u.bytes("decoded")
            u.assume(Implies(max_length > 0, blen(out) <= max_length))
            return out

    d = u.obj("DeflateBuffer", {"out": _Out(), "size": 0, "encoding": "gzip", "_started_decoding": True,
                                "decompressor": _Dec(), "_max_decompress_size": u.int("max_decompress_size", 1)}, {}, shared=False)
    f = u.load(HP, "DeflateBuffer.feed_data")
    u.call(f, d, u.bytes("chunk"))
    for b in log:
        u.check("C09.canary", blen(SBytes.of(b)) <= 10, "false")


@unit("C09", "payload_parser.init", functions=[f"{HP}:HttpPayloadParser.__init__"])
def payload_parser_init(u: U):
    """HttpPayloadParser.__init__: a compressed body is always read through a DeflateBuffer whose per-step output cap
    is the connection's read-buffer limit (so the bound of C09.deflate.step_cap is 'max(limit, low water)', a constant
    factor of the configured limit - not some unrelated default)"""
    made = []

    class _DB:
        def __init__(self, out, encoding, max_decompress_size=None):
            made.append((out, encoding, max_decompress_size))

        def feed_eof(self):
            pass

    class _Payload:
        def feed_eof(self):
            pass

    limit = u.int("limit", 1)
    comp = (None, "gzip")[u.choose(2, "compression")]
    auto = u.choose(2, "auto_decompress") == 1
    body = u.choose(2, "response_with_body") == 1
    p = u.obj("HttpPayloadParser", {}, {}, shared=False)
    f = u.load(HP, "HttpPayloadParser.__init__", globals={"DeflateBuffer": _DB})
    pl = _Payload()
    out = u.call(f, p, pl, length=(None, 5)[u.choose(2, "length")], chunked=u.choose(2, "chunked") == 1, compression=comp,
                 response_with_body=body, auto_decompress=auto, headers_parser="HP", limit=limit)
    u.check("C09.init.total", out.ok, repr(out))
    if not out.ok:
        return
    wrapped = bool(comp and auto and body)
    u.check("C09.init.decompress_iff_wanted", (len(made) == 1) == wrapped,
            "a DeflateBuffer is put in front of the payload exactly for a compressed body that is to be decoded")
    if made:
        u.check("C09.init.step_cap_is_read_limit", made[0][0] is pl and made[0][1] == comp and made[0][2] is limit,
                "its per-step output cap is the read-buffer limit of this connection")
        u.check("C09.init.payload_is_buffer", isinstance(fields(p)["payload"], _DB), "the parser feeds the decoder, not the raw reader")


# ---------------------------------------------------------------------------------------------------------------
# multipart part bodies on the server: read(decode=True) / text() / json() / form()

MPM = "aiohttp.multipart"
FN_PART_READ = "multipart:BodyPartReader.read"


@unit("C09", "part.read_bounded", functions=[f"{MPM}:BodyPartReader.read"])
def part_read_bounded(u: U):
    """BodyPartReader.read(decode=...): neither the raw part nor its decoded (inflated) form is ever accumulated beyond
    client_max_size plus the piece in hand - the limit is tested as each piece arrives, not after everything was joined.
    Raw loop: cut at an invariant; decoding: any number 0..n of decoded pieces of arbitrary lengths."""
    from pyvc.registry import width

    maxs = u.int("client_max_size", 0)
    decode = u.choose(2, "decode") == 1
    n_pieces = u.choose(width(3, 5) + 1, "decoded_pieces") if decode else 0
    pieces = [u.bytes(f"decoded[{i}]") for i in range(n_pieces)]
    at_eof0 = u.bool("at_eof")

    class TooBig(Exception):
        def __init__(self, limit):
            self.limit = limit

    def read_chunk(self, size):
        def res():
            fields(self)["_at_eof"] = u.bool("at_eof@chunk")
            return u.bytes("raw_chunk")

        return SAwait(result=res, name="read_chunk")

    handed_out = []

    async def decode_iter(self, data):
        for i, p in enumerate(pieces):
            handed_out.append(i)
            yield p
            # resumed: the consumer has taken piece i in and went on without refusing
            held = sum((blen(q) for q in pieces[: i + 1]), 0)
            u.check("C09.part.decoded_accumulation_bounded", held <= maxs,
                    "decoded (inflated) part data is tested against client_max_size piece by piece: the reader asks for the "
                    "next piece only while what it holds is within the limit - a small compressed part cannot be "
                    "inflated completely in memory before the 413",
                    witness={"pieces_taken": i + 1, "held": held, "client_max_size": maxs})

    r = u.obj("BodyPartReader", {"_at_eof": at_eof0, "_client_max_size": maxs, "_max_size_error_cls": TooBig,
                                 "chunk_size": 8192},
              {"read_chunk": read_chunk, "decode_iter": lambda self, data: decode_iter(self, data)}, shared=False,
              real=(MPM, "BodyPartReader"))
    f = u.load(MPM, "BodyPartReader.read")

    def inv(L):
        return [("raw_within_limit", blen(L["data"]) <= maxs)]

    def havoc(L):
        # read_chunk (a stand-in here) is what ends the part: its effect on _at_eof is part of the loop state
        fields(r)["_at_eof"] = u.bool("at_eof@loop")

    u.loop(FN_PART_READ, 0, inv=inv, havoc=havoc, types={"data": lambda nm: SBytes.fresh(nm, bytearray, register=False)})
    out = u.call(f, r, decode=decode)
    if not out.ok:
        u.check("C09.part.read.only_too_big", isinstance(out.exc, TooBig) and out.exc.limit is maxs, repr(out))
        return
    res = out.value
    if tbool(at_eof0) is True:
        return
    u.check("C09.part.read.result_within_limit", Or(at_eof0, blen(res) <= maxs),
            "what read() returns (raw or decoded) is within client_max_size")


@unit("C09", "part.read_stops_at_the_limit", functions=[f"{MPM}:BodyPartReader.read"], kind="bounded", also=("C19",))
def part_read_stops_at_the_limit(u: U):
    """BOUND: the first 4 chunks of a part (read loop unrolled 4 times), any chunk lengths, any limit.
    The same clause as part.read_bounded, stated on a ghost count instead of on the function's accumulator, so that it
    survives a refactoring of how read() collects its chunks: read() asks its stream for a further chunk only while what
    it has taken so far is within client_max_size - the limit is enforced while reading, not after buffering."""
    maxs = u.int("client_max_size", 0)
    taken = []

    class TooBig(Exception):
        def __init__(self, limit):
            self.limit = limit

    def read_chunk(self, size):
        held = sum((blen(c) for c in taken), 0)
        u.check("C09.part.read.asks_for_more_only_within_limit", held <= maxs,
                "a further chunk is requested only while the bytes already taken are within client_max_size (else a part "
                "without Content-Length is buffered whole - or for ever - before it is refused)",
                witness={"chunks_taken": len(taken), "client_max_size": maxs},
                also_as=("C19.limit.part_read_enforced_while_reading",))

        def res():
            c = u.bytes(f"raw_chunk[{len(taken)}]")
            u.assume(blen(c) > 0)
            taken.append(c)
            # (the part ends with its 4th chunk at the latest: the bound of this stand-in)
            fields(self)["_at_eof"] = True if len(taken) >= 4 else u.bool(f"at_eof@chunk{len(taken)}")
            return c

        return SAwait(result=res, name="read_chunk")

    r = u.obj("BodyPartReader", {"_at_eof": False, "_client_max_size": maxs, "_max_size_error_cls": TooBig,
                                 "chunk_size": 8192},
              {"read_chunk": read_chunk}, shared=False, real=(MPM, "BodyPartReader"))
    f = u.load(MPM, "BodyPartReader.read")
    from pyvc.runtime import LoopSpec

    u.default_loop_spec = LoopSpec(unroll=True, bound=6)
    out = u.call(f, r, decode=False)
    if out.ok and taken:
        u.check("C09.part.read.stops_result_within_limit", sum((blen(c) for c in taken), 0) <= maxs,
                "what a completed read() took from the stream is within client_max_size",
                also_as=("C19.limit.part_read_result_within_limit",))
