"""C17 - redirects confine credentials and terminate.

Function under contract: aiohttp/client.py:ClientSession._request (real text; the redirect loop is cut at an invariant,
so the argument holds for chains of any length).

Abstraction.  A URL is known by its origin identity (an integer), its scheme and whether it embeds credentials.  The
request headers are seen through the three credential fields: for each, "present with the caller-supplied value";
Authorization may instead carry a value derived from the current URL (userinfo / netrc), tagged with that URL's
origin.  Every construction of a request object (`self._request_class(...)`) is an observation point.

Loop invariant I17 (at `while True`):
   cred   caller-supplied Authorization / Cookie / Proxy-Authorization present, or per-request cookies kept
                                                            => origin(url) == origin(first url)
   derived Authorization derived from a URL / netrc present => it was derived for origin(url)
   count  redirects == len(history), and redirects < max_redirects (when max_redirects != 0)
   http   scheme(url) in {http, https}
   hist   every response in history has been released
"""
import asyncio

import z3

from pyvc import And, Iff, Implies, Not, Or, SInt, U, fields, is_sym, mk_bool, mk_int, stubs, tbool, tint
from pyvc.registry import unit
from pyvc.stubs import SAwait

MOD = "aiohttp.client"
FN = "client:ClientSession._request"
AUTH, COOKIE, PAUTH, CLEN = "authorization", "cookie", "proxy-authorization", "content-length"
CRED = (AUTH, COOKIE, PAUTH)


def live():
    import importlib

    from pyvc import instrument

    instrument._ensure_repo_on_path()
    return importlib.import_module(MOD)


class SymEnum:
    """a string known only as one of `names` or 'some other string' (index len(names)); comparisons are symbolic"""

    _pyvc_sym = True

    def __init__(self, u, label, names, allowed=None):
        self.u, self.names = u, tuple(names)
        self.k = u.int(label, 0, len(self.names))
        if allowed is not None:
            u.assume(Or(*[self.k == self.names.index(a) for a in allowed]))

    def __eq__(self, o):
        if isinstance(o, SymEnum):
            return self.k == o.k if o.names == self.names else False
        s = str(o)
        return (self.k == self.names.index(s)) if s in self.names else False

    def __ne__(self, o):
        r = self.__eq__(o)
        return (not r) if isinstance(r, bool) else Not(r)

    def __bool__(self):
        if "" in self.names:
            return self.u.branch(self.k != self.names.index(""), "enum.nonempty")
        return True

    def __hash__(self):
        return id(self)

    def upper(self):
        return self

    def is_one_of(self, *names):
        return Or(*[self == n for n in names])

    def __str__(self):
        return "<sym>"


SCHEMES = ("", "http", "https", "ws", "wss")
METHODS = ("GET", "POST", "HEAD")


def eq_(a, b):
    """a == b for two strings of which either may be symbolic"""
    if isinstance(a, SymEnum):
        return a == b
    if isinstance(b, SymEnum):
        return b == a
    return str(a) == str(b)


class Origin:
    _pyvc_sym = True

    def __init__(self, oid):
        self.oid = oid

    def __eq__(self, o):
        return self.oid == o.oid

    def __ne__(self, o):
        return Not(self.oid == o.oid)

    __hash__ = object.__hash__


class SUrl:
    """yarl.URL seen through: origin identity, scheme, presence of a host, embedded credentials"""

    def __init__(self, u, oid, scheme, has_host=True, userinfo=False, bad_origin=False, tag="url"):
        self.u, self.oid, self.scheme, self.userinfo, self.bad_origin, self.tag = u, oid, scheme, userinfo, bad_origin, tag
        self.raw_host = "host" if has_host is True else (None if has_host is False else _LazyHost(u))
        self.host = self.raw_host

    def origin(self):
        if self.bad_origin:
            raise ValueError("URL should be absolute")
        return Origin(self.oid)

    def _has_userinfo(self):
        if self.userinfo is None:
            self.userinfo = self.u.choose(2, "url.userinfo") == 1
        return self.userinfo

    @property
    def raw_user(self):
        return "user" if self._has_userinfo() else None

    @property
    def raw_password(self):
        return "secret" if self._has_userinfo() else None

    def join(self, other):
        stubs.used("yarl URL.join(relative): keeps the base scheme; the origin is the base's unless the reference is a "
                   "network-path reference (//host/...), so it is left arbitrary")
        return SUrl(self.u, self.u.int("joined.origin"), self.scheme, tag="joined")

    def update_query(self, p):
        return self

    def __str__(self):
        return f"<{self.tag}>"


class AuthVal:
    def __init__(self, oid, kind):
        self.oid, self.kind = oid, kind


class Hdrs:
    """the request's CIMultiDict seen through the credential fields"""

    def __init__(self, u, caller=None, derived=False, derived_oid=None, clen=None):
        self.u = u
        self.caller = dict(caller or {k: False for k in CRED})
        self.derived = derived  # Authorization derived from a URL / netrc
        self.derived_oid = derived_oid if derived_oid is not None else mk_int(z3.IntVal(-1))
        self.clen = u.bool("has_content_length") if clen is None else clen

    @staticmethod
    def key(k):
        return str(k).lower()

    def sym_contains(self, k):
        k = self.key(k)
        if k == AUTH:
            return Or(self.caller[AUTH], self.derived)
        if k in self.caller:
            return self.caller[k]
        raise AssertionError(f"unmodelled header {k}")

    def __setitem__(self, k, v):
        k = self.key(k)
        if k == AUTH and isinstance(v, stubs.Opaque):
            # an Authorization value left over from an earlier iteration of the redirect loop: credentials derived for
            # SOME earlier URL, i.e. for an origin about which nothing is known
            self.caller[AUTH] = False
            self.derived, self.derived_oid = True, self.u.int("stale_authorization.origin")
            return
        assert k == AUTH and isinstance(v, AuthVal), (k, v)
        self.caller[AUTH] = False
        self.derived, self.derived_oid = True, v.oid

    def popall(self, k, default=None):
        k = self.key(k)
        self.caller[k] = False
        if k == AUTH:
            self.derived = False

    def get(self, k, default=None):
        assert self.key(k) == CLEN
        return "10" if self.u.branch(self.clen, "headers.has_content_length") else default

    def pop(self, k, *a):
        assert self.key(k) == CLEN
        self.clen = False

    def any_caller(self):
        return Or(*[self.caller[k] for k in CRED])


class Body:
    def __init__(self, u, log):
        self.consumed = u.bool("body.consumed")
        self.log = log

    def close(self):
        self.log.append(("body.close",))
        return SAwait(name="body.close")


class Resp:
    def __init__(self, u, url, method, n):
        self.u, self.url, self.method, self.n = u, url, method, n
        self.status = u.int("status", 100, 599)
        self._raw_cookie_headers = None
        self.log = []
        self.connection = None
        self.request_info = "RI"
        loc = u.choose(2, "has_location")

        class _H:
            def get(s, k, d=None):
                return "LOCATION" if loc and str(k).lower() == "location" else d

        self.headers = _H()

    def release(self):
        self.log.append("release")

    def close(self):
        self.log.append("close")

    def raise_for_status(self):
        pass


class _ReleasedResp:
    """what the local `resp` may hold at the head of the redirect loop: the previous hop's response, released"""

    log = ("release",)

    def close(self):
        pass

    def release(self):
        pass


class Hist:
    """the local `history`: count + the responses appended since the cut"""

    _pyvc_sym = True

    def __init__(self, count, first_url=None):
        self.count = count
        self.new = []
        self.first_url = first_url

    def append(self, r):
        self.new.append(r)
        self.count = self.count + 1

    def sym_getitem(self, i):
        f = _First()
        f.url = self.first_url  # history[0] is the response to the caller's own URL
        return f

    def __bool__(self):
        from pyvc import ctx

        return ctx().branch(tint(self.count) != 0, "history.nonempty")

    def __iter__(self):
        return iter([("HISTORY", self)])


class _First:
    request_info = "RI0"


@unit("C17", "redirect.entry", functions=[f"{MOD}:ClientSession._request"], timeout_ms=20000, max_paths=60000, also=("C18",))
def redirect_entry(u: U):
    """ClientSession._request from its entry to the head of the redirect loop, for every combination of arguments:
    the invariant I17 holds initially (the path is ended once it has been checked)"""
    _run(u, entry_only=True)


@unit("C17", "redirect.step", functions=[f"{MOD}:ClientSession._request"], timeout_ms=20000, max_paths=60000, also=("C18",))
def redirect_step(u: U):
    """ClientSession._request from an arbitrary state satisfying I17 at the head of the redirect loop: one hop - every
    request object built obeys the credential, scheme, count clauses; a redirect re-establishes I17 with the
    method/body table and the history clause; every exit releases or records what it must"""
    _run(u, entry_only=False)


@unit("C17", "redirect.final", functions=[f"{MOD}:ClientSession._request"], timeout_ms=20000, max_paths=60000, also=("C18",))
def redirect_final(u: U):
    """ClientSession._request from the head of the loop to its end when the response is final (redirects not followed),
    with the caller's hooks that run AFTER the response was obtained - a tracing callback, a raise_for_status coroutine,
    closing the request body - each of which may be cancelled or fail: the response is then dropped, not leaked"""
    _run(u, entry_only=False, final=True)


@unit("C17", "canary.no_credentials_ever", functions=[f"{MOD}:ClientSession._request"], expect="canary")
def canary_cred(u: U):
    """deliberately false: caller-supplied credentials are never sent at all"""
    _run(u, entry_only=False, canary=True)


def _run(u: U, entry_only: bool, canary: bool = False, final: bool = False):
    from pyvc import PathEnd

    C = live()
    log = []
    oid0 = u.int("origin0")
    max_redirects = u.int("max_redirects", 0)
    G = {"requests": [], "filtered_for": None}

    # ---- session
    class _Jar:
        unsafe = False
        quote_cookie = True

        def filter_cookies(self, url):
            G["filtered_for"] = url
            return _All(url)

        def update_cookies_from_headers(self, *a):
            pass

    class _All:
        def __init__(self, url):
            self.for_url = url
            self.has_request_cookies = False

        def load(self, c):
            self.has_request_cookies = True

    class _TmpJar:
        def __init__(self, **kw):
            pass

        def update_cookies(self, c):
            pass

        def filter_cookies(self, url):
            return "REQ-COOKIES"

    class _Connector:
        # the live set of the default connector: http, https, ws, wss and '' (the session also drives ws_connect)
        allowed_protocol_schema_set = __import__("aiohttp.connector").connector.BaseConnector.allowed_protocol_schema_set
        _timeout_ceil_threshold = 5

    class _Loop:
        def run_in_executor(self, ex, fn, host):
            return SAwait(result=lambda: (AuthVal(cur["url"].oid, "netrc") if u.choose(2, "netrc.found") else None),
                          name="netrc")

    class _TimeoutCfg:
        total = None
        sock_read = None
        ceil_threshold = 5

    trust_env = u.bool("trust_env")
    first_url = SUrl(u, oid0, SymEnum(u, "scheme0", SCHEMES), userinfo=None, tag="first")
    # ghost: the caller's own URL was a ws(s) URL (ws_connect); fixed for the whole chain
    ws_session = first_url.scheme.is_one_of("ws", "wss") if entry_only else u.bool("ws_session")
    if not entry_only:
        u.assume(Iff(ws_session, first_url.scheme.is_one_of("ws", "wss")))
    h0 = Hdrs(u, {k: u.bool(f"caller.{k}") for k in CRED})
    cur = {"url": first_url}

    def request_class(method, url, *, headers, cookies, data, **kw):
        if canary:
            u.check("C17.canary", Not(headers.any_caller()), "false: same-origin hops do carry them")
            _end()
        n = len(G["requests"])
        G["requests"].append((method, url, data))
        u.check("C17.cred.caller_headers_only_to_their_origin", Implies(headers.any_caller(), url.oid == oid0),
                "caller-supplied Authorization / Cookie / Proxy-Authorization are on the request only when it goes to the "
                "origin of the first URL")
        u.check("C17.cred.derived_auth_only_to_its_origin", Implies(headers.derived, headers.derived_oid == url.oid),
                "Authorization derived from URL userinfo / netrc goes only to the origin it was derived for")
        if isinstance(cookies, stubs.Opaque):
            u.check("C17.jar.reselected_per_hop", False,
                    "jar cookies are selected afresh for the URL of this very hop: the cookies put on this request are a "
                    "value left over from an earlier iteration of the redirect loop (a cached selection)")
            _end()
        u.check("C17.cred.request_cookies_only_to_their_origin", Implies(bool(cookies.has_request_cookies), url.oid == oid0),
                "per-request cookies are merged in only for the origin of the first URL")
        u.check("C17.jar.reselected_per_hop", cookies.for_url is url and G["filtered_for"] is url,
                "jar cookies are selected afresh for the URL of this very hop")
        u.check("C17.scheme.known_only", url.scheme.is_one_of("", "http", "https", "ws", "wss"),
                "only http(s) / ws(s) targets are ever requested (redirect targets: http(s) only, see invariant `http`)")
        u.check("C17.url.no_embedded_credentials", url.userinfo is False, "userinfo is stripped from the URL sent")
        req = type("Req", (), {})()
        req._body = Body(u, log) if data is not None else Body(u, log)
        req._close = lambda: SAwait(name="req._close")
        req.method, req.url = method, url
        log.append(("request", n))
        return req

    def strip_auth(url):
        cur["url"] = url
        if url.userinfo is None:
            url.userinfo = u.choose(2, "url.userinfo") == 1
        if url.userinfo:
            clean = SUrl(u, url.oid, url.scheme, userinfo=False, tag=url.tag)
            clean.raw_host = clean.host = url.raw_host
            cur["url"] = clean
            return clean, AuthVal(url.oid, "userinfo")
        url.userinfo = False
        return url, None

    def sender(req):
        def result():
            r = Resp(u, req.url, req.method, len(G["requests"]))
            G["last_resp"] = r
            return r

        return SAwait(result=result, raises=(C.ClientOSError, C.ServerDisconnectedError, C.ServerTimeoutError), name="send",
                      on_raise=lambda e: G.__setitem__("send_error", e))

    def URLctor(x, encoded=False):
        k = u.choose(3, "location.parse")
        if k == 0:
            raise ValueError("bad url")
        scheme = SymEnum(u, "location.scheme", SCHEMES)
        return SUrl(u, u.int("redirect.origin"), scheme, has_host=None, userinfo=None, bad_origin=(k == 1),
                    tag="redirect")

    class _TH:
        def __init__(self, *a, **k):
            pass

        def start(self):
            G["total_timer_started"] = True
            return None

        def timer(self):
            G["total_timer_has_a_listener"] = True

            class _T:
                def __enter__(s):
                    return s

                def __exit__(s, *a):
                    return False

            return _T()

        def close(self):
            log.append(("tm.close",))

    class _asyncio:
        TimeoutError = asyncio.TimeoutError

        @staticmethod
        def to_thread(fn, url):
            # (LookupError is suppressed by the code; both outcomes leave proxy_ unset - one is explored)
            return SAwait(result=lambda: (None, None), name="env_proxy")

    class _TraceCfg:
        def trace_config_ctx(self, trace_request_ctx=None):
            return "CTX"

    class _Trace:
        """a tracing hook of the caller: user code that may take any time"""

        def __init__(self, session, cfg, ctx):
            pass

        def send_request_start(self, *a):
            def suspended():
                u.check("C18.total.timer_listens_from_the_start", Implies(bool(G.get("total_timer_started")),
                                                                       bool(G.get("total_timer_has_a_listener"))),
                        "once the total-timeout clock is running somebody listens to it: while _request awaits user code "
                        "(an on_request_start trace callback) the timer context is already registered, so a deadline "
                        "that passes meanwhile is not lost", known=[("F18c", True)])

            return SAwait(name="trace.request_start", on_suspend=suspended)

        def __getattr__(self, name):
            if name == "send_request_end" and final:
                # user code awaited after the response exists: it may be cancelled (or time out) right here
                return lambda *a, **k: SAwait(name="trace." + name, raises=(asyncio.CancelledError,))
            if name.startswith("send_"):
                return lambda *a, **k: SAwait(name="trace." + name)
            raise AttributeError(name)

    s = u.obj("ClientSession",
              {"closed": False, "_default_ssl": True, "_json_serialize_bytes": None, "_version": "1.1",
               "_connector": _Connector(), "_skip_auto_headers": None, "_default_proxy": None,
               "_timeout": _TimeoutCfg(), "_loop": _Loop(), "_read_bufsize": 1, "_auto_decompress": True,
               "_max_line_size": 1, "_max_field_size": 1, "_max_headers": 1,
               "_trace_configs": [_TraceCfg()] if (final or (entry_only and u.choose(2, "tracing_configured"))) else [],
               "_retry_connection": u.bool("retry_connection"), "_trust_env": trust_env, "trust_env": trust_env,
               "_cookie_jar": _Jar(), "_request_class": request_class, "_response_class": None, "_middlewares": (),
               "_requote_redirect_url": True, "_raise_for_status": False},
              {"_prepare_headers": lambda self, h: h0, "_build_url": lambda self, x: first_url,
               "_get_netrc_auth": lambda self, host: None}, shared=False)
    f = u.load(MOD, "ClientSession._request",
               globals={"strip_auth_from_url": strip_auth, "_connect_and_send_request": sender, "URL": URLctor,
                        "TimeoutHandle": _TH, "CookieJar": _TmpJar, "asyncio": _asyncio, "Trace": _Trace,
                        "get_env_proxy_for_url": None, "CIMultiDict": dict})
    info = u.fn_infos[FN]
    wl = [l["index"] for l in info.loops if l["kind"] == "while"]
    assert len(wl) == 1, info.loops
    for l in info.loops:
        if l["index"] != wl[0]:
            u.loop(FN, l["index"], unroll=True, bound=2)

    # ---- the cut
    def fresh_url(nm):
        x = SUrl(u, u.int("url.origin@loop"), SymEnum(u, "url.scheme@loop", SCHEMES), has_host=None, userinfo=None,
                 tag="hop")
        return x

    def fresh_headers(nm):
        return Hdrs(u, {k: u.bool(f"caller.{k}@loop") for k in CRED}, u.bool("derived@loop"), u.int("derived.oid@loop"))

    def inv(L):
        url, h, cookies, hist = L["url"], L["headers"], L["cookies"], L["history"]
        red = L["redirects"]
        hc = hist.count if isinstance(hist, Hist) else len(hist)
        released = all("release" in r.log for r in (hist.new if isinstance(hist, Hist) else hist))
        return [("cred", Implies(Or(h.any_caller(), cookies is not None), url.oid == oid0)),
                ("derived", Implies(h.derived, h.derived_oid == url.oid)),
                ("count", And(red == hc, red >= 0, Or(max_redirects == 0, red < max_redirects))),
                # the first URL may be ws(s) (ws_connect); every redirect TARGET must be http(s): non-HTTP refused
                # ('' = scheme-less URL, treated as http by the connector; it is in HTTP_AND_EMPTY_SCHEMA_SET)
                ("http", Or(url.scheme.is_one_of("", "http", "https"), And(ws_session, url.scheme.is_one_of("ws", "wss")))),
                ("hist_released", released),
                # a response left in the local `resp` by an earlier hop has been released (its connection is not ours any
                # more): the exception arm may close it again, which is then a no-op
                ("resp_none_or_released", (L.get("resp") is None) or isinstance(L.get("resp"), _ReleasedResp)
                 or "release" in getattr(L.get("resp"), "log", ("release",)))]

    def fresh_data(nm):
        return None if u.choose(2, "data@loop") == 0 else Body(u, log)

    # stale_locals: a local that the redirect loop assigns but that is unbound on entry may, in a later iteration, still
    # hold what the previous hop left in it (a cache across hops): it is an unknown value, not an unbound name
    u.loop(FN, wl[0], inv=inv, stale_locals=True,
           types={"url": fresh_url, "headers": fresh_headers, "history": lambda nm: Hist(u.int("history.len@loop", 0), first_url),
                  "cookies": lambda nm: (None if u.choose(2, "cookies@loop") == 0 else "REQ-COOKIES-ARG"),
                  "data": fresh_data, "method": lambda nm: SymEnum(u, "method@loop", METHODS),
                  "params": lambda nm: {}, "retry_persistent_connection": lambda nm: u.bool("retry@loop"),
                  "resp": lambda nm: (None if u.choose(2, "resp@loop") == 0 else _ReleasedResp()),
                  "req": lambda nm: None, "redirects": lambda nm: u.int("redirects@loop", 0)},
           at_back=lambda L: _table(u, G, L), at_head=(lambda L: _end()) if entry_only else None)
    m0 = SymEnum(u, "method", METHODS)
    if entry_only:
        cookies_arg = None if u.choose(2, "cookies") == 0 else "REQ-COOKIES-ARG"
        data_arg = None if u.choose(2, "data") == 0 else "DATA"
    else:
        # the state at the loop head is havocked anyway: one representative way in
        cookies_arg, data_arg = None, None
    out = u.call(f, s, m0, "URL", params=None, data=data_arg, headers="H", cookies=cookies_arg,
                 allow_redirects=False if final else u.bool("allow_redirects"), max_redirects=max_redirects, ssl=True)
    if entry_only:
        # paths that reach the loop are ended at its head; what arrives here was refused before the first request
        u.check("C17.entry.refused_before_any_request", (not out.ok) and not G["requests"],
                f"no request is made when the arguments are refused: {out!r}")
        return
    r = G.get("last_resp")
    if out.ok:
        u.check("C17.history.recorded_in_order", getattr(out.value, "_history", None) is not None,
                "the final response carries the history tuple")
        u.cover("C17.final")
    else:
        e = out.exc
        if isinstance(e, C.TooManyRedirects):
            u.cover("C17.too_many")
        if r is not None and isinstance(e, (C.TooManyRedirects, C.NonHttpUrlRedirectClientError,
                                            C.InvalidUrlRedirectClientError, C.ClientPayloadError)):
            u.check("C17.history.failed_hop_released", "close" in r.log or "release" in r.log,
                    f"a refused redirect leaves its response closed or released ({type(e).__name__})")
        if r is not None:
            # From C18: "after a timeout or cancellation the connection is closed rather than reused, its pool slot is
            # freed".  A response that _request obtained but does not hand to its caller is reachable by nobody else: on
            # EVERY exceptional way out (cancellation or a timeout in a trace callback, in a raise_for_status coroutine,
            # while closing the request body; any error while the redirect is worked out) it has been closed or released.
            u.check("C18.cancel.response_not_handed_out_is_dropped", "close" in r.log or "release" in r.log,
                    f"_request left by {type(e).__name__} with a response it had obtained: that response is closed or "
                    "released (else its connection stays acquired for ever: with limit=1 the session is dead)",
                    known=[("F18d", True)], witness={"exception": type(e).__name__},
                    also_as=("C17.history.response_not_handed_out_is_dropped",))


def _end():
    from pyvc import PathEnd

    raise PathEnd()


class _LazyHost:
    """url.raw_host / url.host: present or None, decided only when the code looks"""

    _pyvc_sym = True

    def __init__(self, u):
        self.u = u
        self.present = u.bool("url.has_host")

    def __bool__(self):
        return self.u.branch(self.present, "url.has_host")

    def sym_is(self, other):
        assert other is None
        return Not(self.present)


def _table(u, G, L):
    """at the back edge after a redirect: the method/body table and the history clause"""
    err = G.get("send_error")
    if err is not None:
        # the loop goes round again although sending / reading the response head failed: a retry
        u.check("C18.total.timeout_error_is_final", not isinstance(err, asyncio.TimeoutError),
                "a request that failed with a timeout (sock_read / ServerTimeoutError) is not silently sent again: the "
                "time bound the caller configured would double and the peer would see the request twice",
                witness={"error": type(err).__name__})
        u.check("C17.retry.only_lost_connections", type(err).__name__ in ("ClientOSError", "ServerDisconnectedError"),
                "only a lost (stale keep-alive) connection is retried, once, for idempotent methods",
                witness={"error": type(err).__name__})
    r = G.get("last_resp")
    if r is None or not G["requests"]:
        return
    prev_method = r.method
    if "release" not in r.log:
        # a retry `continue` (connection error): no response was recorded, nothing changes
        return
    st = r.status
    to_get = Or(And(st == 303, Not(eq_(prev_method, "HEAD"))), And(Or(st == 301, st == 302), eq_(prev_method, "POST")))
    method, data = L["method"], L["data"]
    hist = L["history"]
    u.check("C17.table.method", Implies(to_get, eq_(method, "GET")),
            "303 (non-HEAD) and 301/302 of a POST continue as GET")
    u.check("C17.table.method_kept", Implies(Not(to_get), eq_(method, prev_method)), "every other redirect keeps the method")
    u.check("C17.table.body", And(Implies(to_get, data is None), Implies(Not(to_get), data is not None)),
            "the body is dropped exactly when the method becomes GET, else the same payload is re-sent")
    new = hist.new if isinstance(hist, Hist) else hist
    u.check("C17.history.appended_once_released", len(new) >= 1 and new[-1] is r and new.count(r) == 1 and "release" in r.log,
            "the redirect response is appended to history exactly once and released before the next hop")


# ---------------------------------------------------------------------------------------------------------------
# aiohttp.request(): the one-shot API


@unit("C17", "oneshot.request_cookies_stay_per_request", functions=[f"{MOD}:request"])
def oneshot_request(u: U):
    """aiohttp.request(method, url, cookies=...): its `cookies` are cookies 'to send with the request' - per-request
    cookies.  They must reach ClientSession._request as its `cookies` argument (which the redirect loop confines to the
    origin of the first URL: C17.cred.request_cookies_only_to_their_origin) and must not be put into the temporary session's
    jar, where they have no domain and are attached to every hop of a redirect chain, whatever its origin"""
    made = []
    calls = []
    has_cookies = u.choose(2, "cookies_given") == 1
    ck = {"secret": "s3"}

    class _Session:
        def __init__(self, **kw):
            made.append(kw)

        def _request(self, method, url, **kw):
            calls.append((method, url, kw))
            return "CORO"

    f = u.load(MOD, "request", globals={"ClientSession": _Session, "TCPConnector": lambda **kw: "CONNECTOR",
                                        "_SessionRequestContextManager": lambda coro, session: ("CM", coro, session)})
    kw = {"cookies": ck} if has_cookies else {}
    out = u.call(f, "GET", "http://a/", **kw)
    u.check("C17.oneshot.total", out.ok and len(made) == 1 and len(calls) == 1, repr(out))
    if not (out.ok and made and calls):
        return
    u.check("C17.oneshot.cookies_not_in_the_session_jar", made[0].get("cookies") is None,
            "aiohttp.request(..., cookies=...) does not turn the caller's cookies into session (jar) cookies: without a "
            "domain they would follow a redirect to any other origin",
            known=[("F17a", has_cookies)], witness={"session_kwargs": sorted(made[0])})
    if has_cookies:
        u.check("C17.oneshot.cookies_are_per_request", calls[0][2].get("cookies") is ck,
                "they are handed to _request as per-request cookies", known=[("F17a", True)])


@unit("C17", "headers.working_copy", functions=[f"{MOD}:ClientSession._prepare_headers"])
def headers_working_copy(u: U):
    """_prepare_headers hands _request a WORKING COPY: _request rewrites it between hops (Authorization taken from URL
    credentials or netrc, the strip on a change of origin, Host / Proxy-Authorization added by the request object), so it
    must never be the session's default-header mapping itself, nor the caller's mapping - else the credentials of one
    redirect chain stay in session.headers and go out with every later request of the session, to any origin"""
    from multidict import CIMultiDict, CIMultiDictProxy

    from pyvc.runtime import LoopSpec

    defaults = CIMultiDict({"User-Agent": "ua"} if u.choose(2, "session_has_default_headers") else {})
    snapshot = list(defaults.items())
    how = ("none", "empty_dict", "dict", "cimultidict", "proxy")[u.choose(5, "per_request_headers")]
    own = CIMultiDict({"X-Req": "1", "user-agent": "mine"})
    arg = {"none": None, "empty_dict": {}, "dict": {"X-Req": "1", "user-agent": "mine"}, "cimultidict": own,
           "proxy": CIMultiDictProxy(own)}[how]
    s = u.obj("ClientSession", {"_default_headers": defaults}, {}, shared=False)
    f = u.load(MOD, "ClientSession._prepare_headers")
    u.default_loop_spec = LoopSpec(unroll=True, bound=4)
    out = u.call(f, s, arg)
    u.check("C17.headers.prepare.total", out.ok, repr(out))
    if not out.ok:
        return
    res = out.value
    u.check("C17.headers.working_copy_is_not_the_session_defaults", res is not defaults and res is not own,
            "the mapping _request goes on to mutate is neither session.headers nor the caller's own mapping",
            witness={"per_request_headers": how})
    want = dict(snapshot)
    if how in ("dict", "cimultidict", "proxy"):
        want = {**{k.lower(): v for k, v in snapshot}, "x-req": "1", "user-agent": "mine"}
    u.check("C17.headers.defaults_then_overrides", {k.lower(): v for k, v in res.items()} == {k.lower(): v for k, v in want.items()},
            "session defaults, overridden by the per-request headers")
    # what _request does next, in miniature: the defaults must not see it
    res["Authorization"] = "Basic c2VjcmV0"
    res.popall("User-Agent", None)
    u.check("C17.headers.session_defaults_untouched_by_a_request", list(defaults.items()) == snapshot
            and "Authorization" not in own,
            "credentials a redirect chain picks up never end in the session's default headers (or the caller's mapping)")
