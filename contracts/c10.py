"""C10 - parsers are total and enforce their configured limits.

The obligations named C10.* live in the units of contracts/c01.py (header level) and contracts/c03.py (stream level);
they are shared into this property (see `also=` on those units).  This module adds the C10-specific canary and the
server / client mapping of a protocol error.
"""
from pyvc import And, Implies, Not, Or, SBytes, U, blen, fields
from pyvc.registry import unit

from . import c03

MOD = "aiohttp.http_parser"


@unit("C10", "canary.no_limit", functions=[f"{MOD}:HttpParser.feed_data"], expect="canary", timeout_ms=20000)
def canary_no_limit(u: U):
    """deliberately false: a partial line of any length may be kept between reads"""
    from pyvc.values import SList

    p, msgs, pp_feeds, _PP, has_pp = c03.mk_http_parser(u)
    for _, c in c03.Ihp(p):
        u.assume(c)
    f = u.load(MOD, "HttpParser.feed_data",
               globals={"StreamReader": lambda *a, **k: "SR", "HttpPayloadParser": lambda payload, **kw: _PP(**kw),
                        "_is_supported_upgrade": lambda h: u.bool("supported_upgrade"), "EMPTY_PAYLOAD": "EMPTY_PAYLOAD",
                        "set_exception": lambda *a: None})

    def havoc(L):
        fs = fields(p)
        fs["_lines"] = SList("lines@loop")
        fs["_tail"] = b""
        fs["_payload_parser"] = None
        fs["_upgraded"] = False
        fs["_payload_has_more_data"] = False
        fs["_msg_in_flight"] = u.int("in_flight@loop", 0)

    u.loop(c03.FN_HP, 0, inv=lambda L: [("pos", And(L["start_pos"] >= 0, L["start_pos"] <= L["data_len"])),
                                        ("data_len", L["data_len"] == blen(L["data"]))],
           havoc=havoc, types={"data": lambda nm: SBytes.fresh(nm, register=False), "messages": lambda nm: SList(nm)})
    out = u.call(f, p, u.bytes("data"))
    if out.ok and isinstance(p._tail, SBytes):
        u.check("C10.canary", blen(p._tail) <= 10, "false: partial lines up to the configured limit are kept")
