"""C10 - parsers are total and enforce their configured limits.

The obligations named C10.* live in the units of contracts/c01.py (header level) and contracts/c03.py (stream level);
they are shared into this property (see `also=` on those units).  This module adds the C10-specific canary and the
server / client mapping of a protocol error.
"""
from pyvc import And, Implies, Not, Or, SBytes, U, blen, fields
from pyvc.registry import unit

from . import c03

MOD = "aiohttp.http_parser"


@unit("C10", "canary.no_limit", functions=[f"{MOD}:HttpParser.feed_data"], expect="canary", timeout_ms=20000)
def canary_no_limit(u: U):
    """deliberately false: a partial line of any length may be kept between reads"""
    from pyvc.values import SList

    p, msgs, pp_feeds, _PP, has_pp = c03.mk_http_parser(u)
    for _, c in c03.Ihp(p):
        u.assume(c)
    f = u.load(MOD, "HttpParser.feed_data",
               globals={"StreamReader": lambda *a, **k: "SR", "HttpPayloadParser": lambda payload, **kw: _PP(**kw),
                        "_is_supported_upgrade": lambda h: u.bool("supported_upgrade"), "EMPTY_PAYLOAD": "EMPTY_PAYLOAD",
                        "set_exception": lambda *a: None})

    def havoc(L):
        fs = fields(p)
        fs["_lines"] = SList("lines@loop")
        fs["_tail"] = b""
        fs["_payload_parser"] = None
        fs["_upgraded"] = False
        fs["_payload_has_more_data"] = False
        fs["_msg_in_flight"] = u.int("in_flight@loop", 0)

    u.loop(c03.FN_HP, 0, inv=lambda L: [("pos", And(L["start_pos"] >= 0, L["start_pos"] <= L["data_len"])),
                                        ("data_len", L["data_len"] == blen(L["data"]))],
           havoc=havoc, types={"data": lambda nm: SBytes.fresh(nm, register=False), "messages": lambda nm: SList(nm)})
    out = u.call(f, p, u.bytes("data"))
    if out.ok and isinstance(p._tail, SBytes):
        u.check("C10.canary", blen(p._tail) <= 10, "false: partial lines up to the configured limit are kept")


# ---------------------------------------------------------------------------------------------------------------
# lax (response / trailer) header parsing: obsolete line folding


@unit("C10", "hdr.folded_field_limit", functions=[f"{MOD}:HeadersParser.parse_headers"])
def folded_field_limit(u: U):
    """lenient HeadersParser.parse_headers (responses, non-debug): a field value continued over any number of folded lines
    is held to max_field_size as a whole.  The first field of a block is generic (the outer loop carries nothing but the
    header map from one field to the next), the folding loop is cut at an invariant over the collected pieces."""
    from pyvc import Ite, is_sym, mk_int
    from pyvc.values import SSeq

    from aiohttp import http_exceptions as E

    maxf = u.int("max_field_size", 0)
    hp = u.obj("HeadersParser", {"max_field_size": maxf, "_lax": True}, {}, shared=False)
    first_value = u.bytes("first_line_value")
    n_lines = u.int("line_count", 2)
    later = {}

    class _Name:
        """the field name of the first line: a plain token (its syntax is C01.hdr.*), only its shape matters here"""

        def __len__(self):
            return 6

        def __getitem__(self, i):
            return 88

        def decode(self, *a):
            return "X-Name"

        def __add__(self, o):
            return b"X-Name" + o if isinstance(o, bytes) else SBytes.of(b"X-Name") + o

    class _First:
        _pyvc_sym = True

        def __bool__(self):
            return True

        def split(self, sep, maxsplit=-1):
            assert sep == b":" and maxsplit == 1
            return [_Name(), first_value]

    class _Lines:
        _pyvc_sym = True

        def __getitem__(self, i):
            if not is_sym(i) and i == 0:
                return _First()
            key = str(i.t) if is_sym(i) else i
            if key not in later:
                later[key] = u.bytes(f"line[{len(later) + 1}]")
            return later[key]

        def sym_len(self):
            return n_lines

        def __len__(self):
            raise AssertionError("len() goes through sym_len")

    FN = "http_parser:HeadersParser.parse_headers"
    class _Map:
        def __init__(self):
            self.items = []

        def add(self, k, v):
            self.items.append((k, v))

        def __contains__(self, k):
            return False

    f = u.load(MOD, "HeadersParser.parse_headers", globals={"CIMultiDict": _Map, "HeadersDictProxy": lambda h: h})

    def total(x):
        return x.total_len() if isinstance(x, SSeq) else sum((blen(e) for e in x), 0)

    def count(x):
        return x.length() if isinstance(x, SSeq) else len(x)

    def inv(L):
        pieces = L["bvalue_lst"]
        items = [("folded_so_far_within_limit", Or(count(pieces) == 1, total(pieces) <= maxf)),
                 ("at_least_one_piece", count(pieces) >= 1)]
        if "header_length" in L:  # the running counter of the current text: it must describe the pieces collected so far
            items.append(("counter_tracks_pieces", L["header_length"] == total(pieces)))
        return items

    def typed_pieces(nm):
        s = SSeq.fresh(nm)
        return s

    u.loop(FN, 0, first_iteration=True)
    u.loop(FN, 1, inv=inv, types={"bvalue_lst": typed_pieces, "line": lambda nm: SBytes.fresh(nm, register=False)})
    out = u.call(f, hp, _Lines())
    if not out.ok:
        u.check("C10.escape.parse_headers_lax", isinstance(out.exc, E.HttpProcessingError),
                f"only HTTP protocol errors escape the lenient header parser: {out.exc!r}")
        return
    L = u.last_locals.get(FN, {})
    if "bvalue_lst" in L:
        u.cover("C10.hdr.folded")
        pieces = L["bvalue_lst"]
        u.check("C10.limit.folded_field", Or(count(pieces) == 1, total(pieces) <= maxf),
                "a field value folded over several lines is accepted only if all its pieces together are within "
                "max_field_size (not each continuation line on its own)", witness={"pieces": count(pieces), "total": total(pieces)})
