"""pyvc - a small deductive verifier for real Python functions (see DESIGN.md section 2)."""
from .core import Ctx, EngineError, Infeasible, PathEnd, Unsupported, ctx, explore  # noqa: F401
from .runtime import LoopSpec  # noqa: F401
from .unit import U, Outcome  # noqa: F401
from .values import (And, Iff, Implies, Ite, Not, Or, SBool, SBytes, SInt, SObj, SReal, SSeq, Src, Seg, blen,  # noqa: F401
                     fields, fresh_bool, fresh_int, fresh_like, fresh_real, is_sym, methods, mk_bool, mk_int, tbool, tint, SOpt, is_none, SIncSeq)
from . import stubs  # noqa: F401
