"""Abstract containers for heap-shaped state (sets / dicts of sets / queues of futures).

Elements are stub objects carrying an integer identity (``eid``, a z3 Int term or a python int).  A set is
(card, mem) with mem : Array Int -> Bool and card = |{x | mem[x]}| maintained by the operations
(add x: card += ite(mem[x], 0, 1) ...).  No aliasing surprises: two elements are the same iff their ids are equal.
"""
from __future__ import annotations

import z3

from .core import Unsupported, ctx
from .values import And, Ite, Not, Or, SBool, SInt, fresh_bool, fresh_int, mk_bool, mk_int, tbool, tint

I = z3.IntSort()
B = z3.BoolSort()


class Elem:
    """an object with identity (protocol, placeholder, future ...); attributes/methods supplied by the unit"""

    _n = 0

    def __init__(self, name, eid=None, **attrs):
        c = ctx()
        self.name = c.fresh_name(name)
        self.eid = z3.Int(f"{self.name}.id") if eid is None else eid
        # distinct python objects have distinct identities
        known = getattr(c, "_elems", None)
        if known is None:
            known = c._elems = []
        for o in known:
            c.add(self.eid != o.eid)
        known.append(self)
        self.__dict__.update(attrs)

    def __repr__(self):
        return f"<Elem {self.name}>"

    def __hash__(self):
        return id(self)

    def __eq__(self, o):
        if isinstance(o, Elem):
            return mk_bool(self.eid == o.eid)
        return False

    def __bool__(self):
        return True

    def concretize(self, m):
        from .core import concretize

        return {"elem": self.name, "id": concretize(self.eid, m)}


def eid_of(x):
    if isinstance(x, Elem):
        return x.eid
    raise Unsupported(f"set element without identity: {x!r}")


class SSet:
    def __init__(self, name, card, mem):
        self.name = name
        self.card = card
        self.mem = mem

    @staticmethod
    def fresh(name):
        c = ctx()
        name = c.fresh_name(name)
        s = SSet(name, z3.Int(f"{name}.card"), z3.Array(f"{name}.mem", I, B))
        c.add(s.card >= 0)
        c.inputs[name] = s
        return s

    @staticmethod
    def empty(name="set"):
        return SSet(name, z3.IntVal(0), z3.K(I, z3.BoolVal(False)))

    # facts the representation guarantees (card really is the cardinality): used as axioms on demand
    def assume_member_counts(self, *elems):
        """card >= number of distinct listed members (instances of the cardinality axiom)"""
        c = ctx()
        ids = [eid_of(e) for e in elems]
        tot = z3.IntVal(0)
        for i, e in enumerate(ids):
            dup = z3.Or(*[e == ids[j] for j in range(i)]) if i else z3.BoolVal(False)
            tot = tot + z3.If(z3.And(z3.Select(self.mem, e), z3.Not(dup)), 1, 0)
        c.add(self.card >= tot)
        c.add(z3.Implies(self.card == 0, z3.And(*[z3.Not(z3.Select(self.mem, e)) for e in ids])) if ids else z3.BoolVal(True))

    def contains(self, x):
        return mk_bool(z3.Select(self.mem, eid_of(x)))

    sym_contains = contains

    def length(self):
        return mk_int(self.card)

    sym_len = length

    def __bool__(self):
        return ctx().branch(self.card != 0, f"{self.name}.nonempty")

    def add(self, x):
        e = eid_of(x)
        m = z3.Select(self.mem, e)
        self.card = z3.simplify(self.card + z3.If(m, 0, 1))
        self.mem = z3.Store(self.mem, e, True)

    def discard(self, x):
        e = eid_of(x)
        m = z3.Select(self.mem, e)
        self.card = z3.simplify(self.card - z3.If(m, 1, 0))
        self.mem = z3.Store(self.mem, e, False)

    def remove(self, x):
        e = eid_of(x)
        if not ctx().branch(z3.Select(self.mem, e), f"{self.name}.remove.present"):
            raise KeyError(x)
        self.card = z3.simplify(self.card - 1)
        self.mem = z3.Store(self.mem, e, False)

    def clear(self):
        self.card = z3.IntVal(0)
        self.mem = z3.K(I, z3.BoolVal(False))

    def subset_of(self, other):
        x = z3.Int("x!subset")
        return mk_bool(z3.ForAll([x], z3.Implies(z3.Select(self.mem, x), z3.Select(other.mem, x))))

    def concretize(self, m):
        return {"card": m.eval(self.card, model_completion=True).as_long()}


class Entry:
    def __init__(self, present, val):
        self.present = tbool(present)
        self.val = val


class SMap:
    """dict / defaultdict restricted to the keys a unit names explicitly; other keys are framed out.
    entries: key token -> Entry(present, value).  `default` builds the value for a missing key (defaultdict)."""

    def __init__(self, name, entries=None, default=None, others_nonempty=None):
        self.name = name
        self.entries = dict(entries or {})
        self.default = default
        # whether keys other than the named ones exist (symbolic bool) - only matters for truthiness / iteration
        self.others = tbool(others_nonempty) if others_nonempty is not None else False

    def _entry(self, k):
        if k not in self.entries:
            raise Unsupported(f"{self.name}[{k!r}]: key not named by the unit")
        return self.entries[k]

    def get(self, k, default=None):
        e = self._entry(k)
        if ctx().branch(e.present, f"{self.name}.has({k})"):
            return e.val
        return default

    def sym_getitem(self, k):
        e = self._entry(k)
        if ctx().branch(e.present, f"{self.name}.has({k})"):
            return e.val
        if self.default is None:
            raise KeyError(k)
        e.val = self.default(k)
        e.present = True
        return e.val

    __getitem__ = sym_getitem

    def __setitem__(self, k, v):
        e = self._entry(k)
        e.present, e.val = True, v

    def __delitem__(self, k):
        e = self._entry(k)
        if not ctx().branch(e.present, f"{self.name}.del.has({k})"):
            raise KeyError(k)
        e.present = False

    def pop(self, k, *d):
        e = self._entry(k)
        if ctx().branch(e.present, f"{self.name}.pop.has({k})"):
            e.present = False
            return e.val
        if d:
            return d[0]
        raise KeyError(k)

    def sym_contains(self, k):
        return mk_bool(self._entry(k).present)

    def __bool__(self):
        t = z3.Or(*[_b(e.present) for e in self.entries.values()], _b(self.others))
        return ctx().branch(t, f"{self.name}.nonempty")

    def present(self, k):
        return mk_bool(self._entry(k).present)

    def value(self, k):
        return self._entry(k).val

    def clear(self):
        for e in self.entries.values():
            e.present = False
        self.others = False

    def live_keys(self):
        """fork on presence of each named key; returns the list of present keys (for `list(d)` / iteration)"""
        out = []
        for k, e in self.entries.items():
            if ctx().branch(e.present, f"{self.name}.has({k})"):
                out.append(k)
        return out

    def __iter__(self):
        return iter(self.live_keys())

    def values(self):
        return [self.entries[k].val for k in self.live_keys()]

    def concretize(self, m):
        from .core import concretize

        return {str(k): {"present": concretize(_b(e.present), m), "value": concretize(e.val, m)} for k, e in self.entries.items()}


def _b(x):
    return z3.BoolVal(x) if isinstance(x, bool) else x


class SFutQueue:
    """OrderedDict[Future, None] of waiters: `count` entries of which `live` are not done"""

    def __init__(self, name, count, live, mk_future):
        self.name = name
        self.count = count
        self.live = live
        self.mk_future = mk_future
        self.added: list = []  # futures appended by the code under verification (in order)
        self.front: list = []  # moved to the front

    @staticmethod
    def fresh(name, mk_future):
        c = ctx()
        name = c.fresh_name(name)
        q = SFutQueue(name, z3.Int(f"{name}.count"), z3.Int(f"{name}.live"), mk_future)
        c.add(z3.And(q.count >= 0, q.live >= 0, q.live <= q.count))
        c.inputs[name] = q
        return q

    def length(self):
        return mk_int(self.count + len(self.added) + len(self.front))

    sym_len = length

    def __bool__(self):
        n = self.length()
        return n != 0 if isinstance(n, int) else ctx().branch(n.t != 0, f"{self.name}.nonempty")

    def __setitem__(self, fut, v):
        if not any(f is fut for f in self.added + self.front):
            self.added.append(fut)

    def move_to_end(self, fut, last=True):
        for lst in (self.added, self.front):
            for i, f in enumerate(lst):
                if f is fut:
                    del lst[i]
        (self.added if last else self.front).insert(len(self.added) if last else 0, fut)

    def pop(self, fut, *d):
        for lst in (self.added, self.front):
            for i, f in enumerate(lst):
                if f is fut:
                    del lst[i]
                    return None
        if d:
            return d[0]
        raise KeyError(fut)

    def popitem(self, last=True):
        if last:
            raise Unsupported("popitem(last=True)")
        if self.front:
            return self.front.pop(0), None
        c = ctx()
        if c.branch(self.count > 0, f"{self.name}.has_summarised"):
            fut = self.mk_future(f"{self.name}.fut")
            d = tbool(fut.done())
            nc, nl = z3.FreshInt(f"{self.name}.count"), z3.FreshInt(f"{self.name}.live")
            c.add(nc == self.count - 1)
            c.add(nl == self.live - z3.If(_b(d), 0, 1))
            c.add(z3.And(nl >= 0, nl <= nc))
            self.count, self.live = nc, nl
            return fut, None
        if self.added:
            return self.added.pop(0), None
        raise KeyError("dictionary is empty")

    def live_total(self):
        t = self.live
        for f in self.front + self.added:
            t = t + z3.If(_b(tbool(f.done())), 0, 1)
        return mk_int(t)

    def __iter__(self):
        raise Unsupported("iteration over an abstract waiter queue")

    def concretize(self, m):
        return {"count": m.eval(self.count, model_completion=True).as_long(),
                "live": m.eval(self.live, model_completion=True).as_long(), "added": len(self.added)}
