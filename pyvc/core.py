"""pyvc core: path exploration by decision replay, path condition, obligations.

A *unit* is a Python callable ``unit(u)`` (a proof harness): it creates
symbolic inputs, assumes the pre-state (requires / class invariant), runs the
mechanically instrumented REAL function and states obligations
(``u.check(name, cond)``).  ``explore`` runs it once per control-flow path;
every symbolic branch is decided by the SMT solver and both feasible sides are
explored.  Loops are cut at invariants (see instrument.py), so the number of
paths is finite and there is no unrolling bound.
"""
from __future__ import annotations

import hashlib
import time
import traceback
from typing import Any, Callable

import z3

import sys as _sys

_sys.set_int_max_str_digits(0)  # z3 numerals are built from decimal strings; contracts mention 10**4300


class PathEnd(BaseException):
    """The current path ends here (loop back-edge cut, assume(False), ...)."""


class Infeasible(PathEnd):
    """Path condition became unsatisfiable."""


class EngineError(BaseException):
    """The engine met something it cannot model soundly -> checker fault / out of subset."""


class Unsupported(EngineError):
    pass


# ---------------------------------------------------------------------------
# global current context (one per process, one path at a time)

_CTX: "Ctx | None" = None
_DEBUG = bool(__import__("os").environ.get("PYVC_DEBUG"))


def ctx() -> "Ctx":
    if _CTX is None:
        raise EngineError("no active verification context")
    return _CTX


def has_ctx() -> bool:
    return _CTX is not None


class Obl:
    __slots__ = ("name", "verdict", "model", "secs", "path", "detail", "solver", "kind")

    def __init__(self, name, verdict, model=None, secs=0.0, path=None, detail="", solver="z3", kind="obligation"):
        self.name = name
        self.verdict = verdict  # 'discharged' | 'refuted' | 'undecided'
        self.model = model
        self.secs = secs
        self.path = path
        self.detail = detail
        self.solver = solver
        self.kind = kind

    def to_json(self):
        return {
            "name": self.name,
            "verdict": self.verdict,
            "model": self.model,
            "secs": round(self.secs, 4),
            "path": self.path,
            "detail": self.detail,
            "solver": self.solver,
            "kind": self.kind,
        }


class Ctx:
    def __init__(self, replay: list[int], timeout_ms: int = 10000):
        self.solver = z3.Solver()
        self.solver.set("timeout", timeout_ms)
        self.timeout_ms = timeout_ms
        self.replay = list(replay)
        self.trace: list[int] = []
        self.alternatives: list[list[int]] = []
        self.obls: list[Obl] = []
        self.counters: dict[str, int] = {}
        self.inputs: dict[str, Any] = {}  # name -> symbolic value (for model extraction)
        self.dead = False
        self.solver_secs = 0.0
        self.n_queries = 0
        self.events: list[Any] = []  # ghost event log (calls to stubs, writes ...)
        self.notes: list[str] = []
        self.pc_size = 0
        self.labels: list[str] = []  # human-readable decision labels
        self.covers: set[str] = set()
        self.marks: set[str] = set()   # arms of the real text entered on this path (validated at the end of the path)
        self.assumed_false = False

    # -- naming -----------------------------------------------------------
    def fresh_name(self, base: str) -> str:
        n = self.counters.get(base, 0)
        self.counters[base] = n + 1
        return base if n == 0 else f"{base}#{n}"

    # -- solver -----------------------------------------------------------
    def _check(self, *extra) -> z3.CheckSatResult:
        t0 = time.time()
        self.solver.push()
        try:
            for e in extra:
                self.solver.add(e)
            r = self.solver.check()
        finally:
            self.solver.pop()
        dt = time.time() - t0
        self.solver_secs += dt
        self.n_queries += 1
        if dt > 1.0 and _DEBUG:
            import sys

            fr = [f"{f.name}:{f.lineno}" for f in traceback.extract_stack(limit=9)[:-1]]
            print(f"[pyvc] slow query {dt:.1f}s -> {r} at {' < '.join(reversed(fr))}", file=sys.stderr)
        return r

    def add(self, cond) -> None:
        """Add a fact to the path condition (assumption)."""
        if isinstance(cond, bool):
            if not cond:
                self.assumed_false = True
                raise Infeasible()
            return
        cond = z3.simplify(cond)
        if z3.is_true(cond):
            return
        if z3.is_false(cond):
            raise Infeasible()
        self.solver.add(cond)
        self.pc_size += 1

    def assume(self, cond) -> None:
        """assume + prune when infeasible (checked lazily at next branch/check)."""
        self.add(_term_bool(cond))

    def feasible(self) -> bool:
        return self._check() != z3.unsat

    # -- decisions --------------------------------------------------------
    def choose(self, n: int, label: str = "") -> int:
        """Non-solver n-way choice (e.g. resume / cancel at an await)."""
        if len(self.trace) < len(self.replay):
            d = self.replay[len(self.trace)]
        else:
            d = 0
            for k in range(n - 1, 0, -1):
                self.alternatives.append(self.trace + [k])
        self.trace.append(d)
        self.labels.append(f"{label}={d}")
        return d

    def branch(self, cond, label: str = "") -> bool:
        """Fork on a symbolic boolean; returns the side taken on this path."""
        if isinstance(cond, bool):
            return cond
        cond = z3.simplify(cond)
        if z3.is_true(cond):
            return True
        if z3.is_false(cond):
            return False
        if len(self.trace) < len(self.replay):
            d = self.replay[len(self.trace)]
        else:
            can_t = self._check(cond) != z3.unsat
            can_f = self._check(z3.Not(cond)) != z3.unsat
            if can_t and can_f:
                self.alternatives.append(self.trace + [0])
                d = 1
            elif can_t:
                d = 1
            elif can_f:
                d = 0
            else:
                raise Infeasible()
        self.trace.append(d)
        self.labels.append(f"{label}={d}" if label else str(d))
        self.solver.add(cond if d else z3.Not(cond))
        self.pc_size += 1
        return bool(d)

    # -- obligations ------------------------------------------------------
    def check(self, name: str, cond, detail: str = "", kind: str = "obligation", known=(), witness=None, also_as=()) -> bool:
        """Proof obligation: pc |= cond.  Afterwards cond is assumed.

        also_as: further names under which the SAME obligation instance is recorded (one logical obligation that two
        properties rely on: a unit shared with `also=` counts only the names of the property being run).

        known: [(finding_id, class_cond)] - counterexample classes recorded in known_findings.json.  A
        refutation is reported as 'known' only if the finding id is listed there with status "known" AND
        every counterexample lies in the union of the listed classes (pc & ~cond & ~classes is unsat);
        otherwise the counterexample outside the classes is reported as a violation.
        witness: dict of extra terms whose model values are recorded with a counterexample."""
        if self.dead:
            return True
        n_before = len(self.obls)
        try:
            return self._check_obligation(name, cond, detail, kind, known, witness)
        finally:
            if also_as:
                import copy

                for o in list(self.obls[n_before:]):
                    if o.name == name:
                        for alias in also_as:
                            o2 = copy.copy(o)
                            o2.name = alias
                            self.obls.append(o2)

    def _check_obligation(self, name, cond, detail, kind, known, witness) -> bool:
        t0 = time.time()
        c = _term_bool(cond)
        if isinstance(c, bool):
            c = z3.BoolVal(c)
        c = z3.simplify(c)
        pid = self.path_id()
        if z3.is_true(c):
            self.obls.append(Obl(name, "discharged", None, 0.0, pid, detail, "simplify", kind))
            return True
        r = self._check(z3.Not(c))
        secs = time.time() - t0
        if r == z3.unsat:
            self.obls.append(Obl(name, "discharged", None, secs, pid, detail, "z3", kind))
            self.solver.add(c)
            return True
        if r == z3.sat:
            active = [(fid, _term_bool(cc)) for fid, cc in known if fid in KNOWN_IDS]
            verdict = "refuted"
            extra = [z3.Not(c)]
            fids = []
            if active:
                cls = [z3.BoolVal(t) if isinstance(t, bool) else t for _, t in active]
                r2 = self._check(z3.Not(c), z3.Not(z3.Or(*cls)))
                if r2 == z3.unsat:
                    verdict = "known"
                    fids = [fid for fid, _ in active]
                elif r2 == z3.sat:
                    extra.append(z3.Not(z3.Or(*cls)))
            self.solver.push()
            for e in extra:
                self.solver.add(e)
            self.solver.check()
            m = self.solver.model()
            model = self.extract_model(m)
            if witness:
                model["__witness__"] = {k: concretize(_unwrap(v), m) for k, v in witness.items()}
            if fids:
                model["__findings__"] = fids
            self.solver.pop()
            self.obls.append(Obl(name, verdict, model, time.time() - t0, pid, detail, "z3", kind))
        else:
            # keep the query so that a second back end can be tried
            smt = None
            try:
                self.solver.push()
                self.solver.add(z3.Not(c))
                smt = self.solver.to_smt2()
                self.solver.pop()
            except Exception:  # pragma: no cover
                pass
            o = Obl(name, "undecided", None, secs, pid, detail or self.solver.reason_unknown(), "z3", kind)
            o.model = {"smt2": smt} if smt else None
            self.obls.append(o)
        # continue the path under the assumption (standard assert-then-assume) - except where that would hide
        # something: an obligation that is violated on this WHOLE path (its condition is plainly false here) leaves no
        # state in which the assumption holds, so assuming it kills the path and every later obligation on it becomes
        # vacuously true.  When the violation is a listed known finding (reported as KNOWN-FINDING, exit 0) a different
        # defect further down the same path would then go unreported.  Such a path continues without the assumption.
        if z3.is_false(c) or (r == z3.sat and not self._assumption_leaves_states(c)):
            return False
        self.solver.add(c)
        return False

    def _assumption_leaves_states(self, c) -> bool:
        return self._check(c) != z3.unsat

    def cover(self, name: str) -> None:
        """Reachability marker (vacuity guard): the point is reached on a feasible path."""
        if name in self.covers:
            return
        if self._check() != z3.unsat:
            self.covers.add(name)

    def extract_model(self, m: z3.ModelRef) -> dict:
        out = {}
        for name, v in self.inputs.items():
            try:
                out[name] = concretize(v, m)
            except Exception as e:  # pragma: no cover
                out[name] = f"<unconcretizable: {e!r}>"
        out["__path__"] = list(self.trace)
        return out

    def path_id(self) -> str:
        return hashlib.sha1(",".join(map(str, self.trace)).encode()).hexdigest()[:10]

    def event(self, *ev) -> None:
        self.events.append(ev)


KNOWN_IDS: set = set()


def load_known_ids(path=None):
    import json
    import os

    path = path or os.path.join(os.path.dirname(os.path.dirname(os.path.abspath(__file__))), "known_findings.json")
    KNOWN_IDS.clear()
    try:
        for e in json.load(open(path)).get("findings", []):
            if e.get("status") == "known":
                KNOWN_IDS.add(e["id"])
    except FileNotFoundError:
        pass
    return KNOWN_IDS


def _unwrap(v):
    return getattr(v, "t", v)


def concretize(v, m: z3.ModelRef):
    if hasattr(v, "concretize"):
        return v.concretize(m)
    if isinstance(v, z3.ExprRef):
        r = m.eval(v, model_completion=True)
        if z3.is_int_value(r):
            return r.as_long()
        if z3.is_true(r):
            return True
        if z3.is_false(r):
            return False
        if z3.is_string_value(r):
            return r.as_string()
        return str(r)
    if isinstance(v, (list, tuple)):
        return [concretize(x, m) for x in v]
    if isinstance(v, dict):
        return {k: concretize(x, m) for k, x in v.items()}
    return v


def _term_bool(c):
    from . import values

    return values.tbool(c)


# ---------------------------------------------------------------------------


class PathResult:
    def __init__(self):
        self.trace: list[int] = []
        self.obls: list[Obl] = []
        self.outcome = ""  # 'end' | 'infeasible' | 'error'
        self.error = ""
        self.solver_secs = 0.0
        self.n_queries = 0
        self.covers: set[str] = set()
        self.arms: set[str] = set()


class UnitResult:
    def __init__(self, name):
        self.name = name
        self.paths: list[PathResult] = []
        self.errors: list[str] = []
        self.wall = 0.0
        self.capped = False

    @property
    def obls(self):
        for p in self.paths:
            yield from p.obls


def explore(unit: Callable[[Ctx], None], *, name: str = "", timeout_ms: int = 10000, max_paths: int = 20000,
            max_secs: float = 1e9) -> UnitResult:
    """Run ``unit`` on every feasible path."""
    global _CTX
    res = UnitResult(name or getattr(unit, "__name__", "unit"))
    work: list[list[int]] = [[]]
    t0 = time.time()
    while work:
        if len(res.paths) >= max_paths or time.time() - t0 > max_secs:
            res.capped = True
            res.errors.append(f"path/time cap hit after {len(res.paths)} paths ({len(work)} pending)")
            break
        prefix = work.pop()
        c = Ctx(prefix, timeout_ms)
        _CTX = c
        pr = PathResult()
        try:
            unit(c)
            pr.outcome = "end"
        except Infeasible:
            pr.outcome = "infeasible"
        except PathEnd:
            pr.outcome = "end"
        except EngineError as e:
            pr.outcome = "error"
            pr.error = f"{type(e).__name__}: {e}\n" + "".join(traceback.format_exc(limit=12))
            res.errors.append(pr.error)
        except BaseException as e:  # noqa: BLE001 - harness bug: surface it
            pr.outcome = "error"
            pr.error = f"{type(e).__name__}: {e}\n" + "".join(traceback.format_exc(limit=12))
            res.errors.append(pr.error)
        finally:
            _CTX = None
        pr.trace = c.trace
        pr.obls = c.obls
        pr.solver_secs = c.solver_secs
        pr.n_queries = c.n_queries
        pr.covers = c.covers
        if c.marks and pr.outcome == "end":
            # the arms entered count only if the path is still satisfiable at its end (an assumption or a ghost axiom
            # added on the way may have emptied it)
            try:
                if c._check() != z3.unsat:
                    pr.arms = c.marks
            except Exception:  # noqa: BLE001 - bookkeeping only
                pr.arms = c.marks
        res.paths.append(pr)
        work.extend(c.alternatives)
    res.wall = time.time() - t0
    return res
