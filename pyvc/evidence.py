"""evidence/<id>.json writer (schema: /root/.vp/EVIDENCE.schema.json)"""
from __future__ import annotations

import json
import os

ROOT = os.path.dirname(os.path.dirname(os.path.abspath(__file__)))

TRUSTED_BASE = [
    "pyvc (this repository: AST instrumenter, proxy algebra, loop/await cuts, VC construction)",
    "z3 5.1.0 (python API) as first back end; /usr/bin/cvc5 1.0.3 --strings-exp and /usr/bin/z3 4.8.12 for queries z3 leaves unknown",
    "CPython 3.12 executes the statements of the instrumented real function text (control flow is not modelled but run)",
    "python ints as mathematical integers (exact); bytes as provenance ropes over symbolic sources (content preserved by slicing/concatenation by construction)",
    "fields of symbolic objects have the types given in the sidecar (taken from __init__/annotations); distinct symbolic objects do not alias",
    "code between two awaits runs atomically (single-threaded event loop)",
]


def write_evidence(prop, tier, seed, *, agg, summ, n_obl, n_dis, solver_secs, per_backend, samples, fn_rows, assumed,
                   canaries, known, violations, undecided, faults, wall, rc, extra=None):
    units = []
    for uname, a in agg.items():
        d = a["decl"]
        by = summ[uname]
        units.append({
            "unit": uname, "expect": d.expect, "doc": d.doc, "paths": len(a["paths"]),
            "obligation_names": len(by),
            "instances": sum(e["discharged"] + e["refuted"] + e["undecided"] + e.get("known", 0) for e in by.values()),
            "cpu_s": round(a["secs"], 2),
            "covers": sorted({c for p in a["paths"] for c in p["covers"]}),
        })
    level = "proof" if (n_obl > 0 and n_dis == n_obl and rc == 0) else "other"
    cov = {
        "obligations": n_obl,
        "discharged": n_dis,
        "checker_cmd": f"./vcheck {prop} --tier {tier}",
        "trusted_base": TRUSTED_BASE,
        "explanation": (
            "Obligations are verification conditions generated from the real function text of the current /repo tree "
            "(one instance per obligation name and control-flow path; loops cut at invariants, no unrolling) and "
            "discharged by SMT. 'obligations' counts instances outside canary units; known findings and refuted/undecided "
            "instances are not counted as discharged."),
        "functions_under_contract": [
            {"function": f"{v['module']}:{v['qualname']}", "sha256": v["sha256"], "line": v["lineno"],
             "loops_cut": v["loops"], "await_sites": v["awaits"],
             # reachability record: arms of the `if` statements of the real text entered on a feasible explored path
             # of a non-canary unit ("<line>T" = the test held, "<line>F" = it did not); an arm listed as unreached is
             # excluded by the units' preconditions / stand-ins, or lies behind a raise / loop cut that ends the path -
             # nothing is claimed about code that is only reachable through it
             "if_arms": len(v.get("arms", ())), "if_arms_reached": len(set(v.get("arms_reached", ())) & set(v.get("arms", ()))),
             "if_arms_unreached": sorted(set(v.get("arms", ())) - set(v.get("arms_reached", ())),
                                         key=lambda a: (int(a[:-1]), a[-1]))} for v in fn_rows.values()],
        "units": units,
        "per_backend": dict(per_backend),
        "solver_secs": round(solver_secs, 2),
        "samples": samples or [{"note": "no discharged obligation"}],
        "canaries": canaries,
        "known_findings": known,
        "violations": [{"obligation": v["obligation"], "unit": v["unit"], "replay": v["rerun"],
                        "native_confirmed": bool(v["native_replay"].get("confirmed"))} for v in violations],
        "undecided": [{"unit": u, "obligation": o, "reason": w, "instances": c} for u, o, w, c in undecided],
        "checker_faults": faults,
        "extraction_drops": ["type annotations", "decorators", "docstrings",
                             "builtins/subscripts/in/is/not/method calls routed through the proxy algebra (__vc.*)",
                             "loops cut at invariants; await -> __vc.suspend"],
        "exit_code": rc,
    }
    if extra:
        cov.update(extra)
    ev = {
        "property_id": prop,
        "tier": tier,
        "seed": seed,
        "level": level,
        "coverage": cov,
        "assumptions": sorted(assumed) + [
            "assumed (unverified) contracts of stubs named above are part of the trusted base",
        ],
        "wall_s": round(wall, 2),
        "violations": len(violations),
    }
    os.makedirs(os.path.join(ROOT, "evidence"), exist_ok=True)
    with open(os.path.join(ROOT, "evidence", f"{prop}.json"), "w") as f:
        json.dump(ev, f, indent=1)
    return ev
