"""Harness-side API: what a sidecar contract unit uses."""
from __future__ import annotations

import asyncio
import inspect

import z3

from . import instrument, stubs
from .core import EngineError, PathEnd, Unsupported, Ctx
from .runtime import LoopSpec, VCRuntime, _Susp
from .values import (And, Iff, Implies, Ite, Not, Or, SBool, SBytes, SInt, SObj, SReal, SSeq, fields, fresh_bool,
                     fresh_int, fresh_like, fresh_real, is_sym, methods, mk_bool, mk_int, tbool, tint)

_FN_CACHE: dict = {}


class Outcome:
    def __init__(self, value=None, exc=None):
        self.value = value
        self.exc = exc

    @property
    def ok(self):
        return self.exc is None

    def raised(self, *types):
        return self.exc is not None and isinstance(self.exc, types)

    def __repr__(self):
        return f"Outcome(value={self.value!r})" if self.ok else f"Outcome(exc={self.exc!r})"


class U:
    def __init__(self, c: Ctx):
        self.c = c
        c.unit = self
        self.loop_specs: dict = {}
        self.module_globals: dict = {}  # module name -> {global name: override} applied to every load of that module
        self.fn_infos: dict = {}
        self.heap: list[SObj] = []
        self.call_hooks: dict = {}
        self.cancel_at_awaits = False
        self.suspend_hook = None
        self.functions: dict = {}
        self.last_locals: dict = {}

    # -- real code ----------------------------------------------------------
    def load(self, module: str, qualname: str, globals: dict | None = None, fn_id: str | None = None):
        fid = fn_id or f"{module.split('.')[-1]}:{qualname}"
        key = (module, qualname, fid)
        ent = _FN_CACHE.get(key)
        if ent is None:
            rt = VCRuntime(fid)
            f, info = instrument.load(module, qualname, None, vc=rt)
            ent = (f, info)
            _FN_CACHE[key] = ent
        f, info = ent
        # per-path globals overrides are written into the function's globals dict
        base = getattr(f, "_pyvc_base_globals", None)
        if base is None:
            f._pyvc_base_globals = dict(f.__globals__)
            base = f._pyvc_base_globals
        # reset then override
        g = f.__globals__
        for k in list(g.keys()):
            if k not in base:
                del g[k]
        g.update(base)
        # unit-wide overrides for the module (they also reach helper methods followed through real=)
        mg = getattr(self, "module_globals", {}).get(module)
        if mg:
            g.update(mg)
        if globals:
            g.update(globals)
        self.fn_infos[fid] = info
        self.functions[fid] = f
        return f

    def loop(self, fn_id, k, **kw):
        self.loop_specs[(fn_id, k)] = LoopSpec(**kw)

    # -- symbolic inputs -------------------------------------------------------
    def int(self, name, lo=None, hi=None):
        return fresh_int(name, lo, hi)

    def bool(self, name):
        return fresh_bool(name)

    def real(self, name):
        return fresh_real(name)

    def bytes(self, name, kind=bytes):
        return SBytes.fresh(name, kind)

    def seq(self, name, nonempty_elems=False, kind=list):
        return SSeq.fresh(name, nonempty_elems, kind)

    def obj(self, clsname, fields_=None, methods_=None, const=(), factories=None, real_cls=None, shared=True,
            init=None, real=None):
        """real=(module, class name): methods / properties the sidecar does not name are taken from the real class
        (instrumented real text), so a helper split off by a refactoring is followed instead of faulting"""
        o = SObj(clsname, fields_, methods_, const)
        if real is not None:
            object.__setattr__(o, "_o_real", tuple(real))
        if init is not None:
            # discover fields the sidecar does not mention by running the REAL __init__ (instrumented) on an
            # empty object: such a field gets an arbitrary value of its initial type (no invariant is known
            # for it), so code that starts to depend on new state is explored for every value of that state
            mod, qn, a, kw = init
            tmp = SObj(clsname, dict(fields_ or {}), methods_, ())  # class-level attributes the sidecar names are visible
            if real is not None:
                object.__setattr__(tmp, "_o_real", tuple(real))
            f0 = self.load(mod, qn)
            try:
                r0 = self.call(f0, tmp, *a, **kw)
            except EngineError as e:
                # the real constructor needs more of the class than the sidecar models: fields assigned up to
                # that point are still discovered
                self.c.notes.append(f"field discovery through {qn} stopped early: {type(e).__name__}: {e}")
                r0 = Outcome(value=None)
            if r0.ok or True:
                for k, v in fields(tmp).items():
                    if k in fields(o):
                        continue
                    try:
                        fields(o)[k] = fresh_like(f"{clsname}.{k}", v)
                        self.c.notes.append(f"field {clsname}.{k} is not covered by the sidecar contract: arbitrary {type(v).__name__}")
                    except Unsupported:
                        fields(o)[k] = v
                        self.c.notes.append(f"field {clsname}.{k} is not covered by the sidecar contract: kept at its __init__ value")
        object.__setattr__(o, "_o_factories", dict(factories or {}))
        if real_cls is not None:
            object.__setattr__(o, "_o_real_cls", real_cls)
        if shared:
            self.heap.append(o)
        self.c.inputs.setdefault(self.c.fresh_name(clsname), o)
        return o

    def havoc_obj(self, o: SObj, only=None):
        fs = fields(o)
        const = object.__getattribute__(o, "_o_const")
        fac = object.__getattribute__(o, "_o_factories")
        cls = object.__getattribute__(o, "_o_cls")
        for k in list(fs.keys()):
            if k in const or (only is not None and k not in only):
                continue
            v = fs[k]
            if isinstance(v, SObj):
                continue
            if k in fac:
                fs[k] = fac[k](f"{cls}.{k}")
            else:
                fs[k] = fresh_like(f"{cls}.{k}", v)

    def havoc_heap(self, L=None):
        for o in self.heap:
            self.havoc_obj(o)

    def snapshot(self, o: SObj) -> dict:
        out = {}
        for k, v in fields(o).items():
            if isinstance(v, SBytes) and v.kind is bytearray:
                v = v.copy_as(bytearray)
            out[k] = v
        return out

    # -- logic ------------------------------------------------------------------
    def assume(self, cond):
        self.c.assume(cond)

    def check(self, name, cond, detail="", known=(), witness=None, also_as=()):
        return self.c.check(name, cond, detail, known=known, witness=witness, also_as=also_as)

    def cover(self, name):
        self.c.cover(name)

    def branch(self, cond, label=""):
        t = tbool(cond)
        return self.c.branch(t, label)

    def choose(self, n, label=""):
        return self.c.choose(n, label)

    def event(self, *ev):
        self.c.event(*ev)

    @property
    def events(self):
        return self.c.events

    # -- running ------------------------------------------------------------------
    def call(self, fn, *args, **kw) -> Outcome:
        try:
            r = fn(*args, **kw)
            if inspect.iscoroutine(r):
                return self.run_coro(r)
            return Outcome(value=r)
        except (PathEnd, EngineError):
            raise
        except BaseException as e:  # noqa: BLE001
            return Outcome(exc=e)

    def run_coro(self, coro) -> Outcome:
        send = None
        throw = None
        while True:
            try:
                if throw is not None:
                    y = coro.throw(throw)
                else:
                    y = coro.send(send)
            except StopIteration as e:
                return Outcome(value=e.value)
            except (PathEnd, EngineError):
                raise
            except BaseException as e:  # noqa: BLE001
                return Outcome(exc=e)
            throw, send = None, None
            if not isinstance(y, _Susp):
                raise Unsupported(f"coroutine yielded {y!r} (await on an unmodelled awaitable)")
            aw = y.awaited
            if not isinstance(aw, stubs.SAwait):
                raise Unsupported(f"await on unmodelled value {aw!r} at site {y.site} of {y.fn}")
            if aw.on_suspend is not None:
                aw.on_suspend()
            if self.suspend_hook is not None:
                self.suspend_hook(y)
            self.c.event("suspend", y.fn, y.site, aw.name)
            opts = ["resume"] + [("raise", e) for e in aw.raises]
            if self.cancel_at_awaits:
                opts.append(("raise", asyncio.CancelledError))
            d = self.c.choose(len(opts), f"{y.fn}.await{y.site}")
            if d == 0:
                if aw.on_resume is not None:
                    aw.on_resume()
                send = aw.result() if callable(aw.result) else aw.result
            else:
                e = opts[d][1]
                throw = e() if isinstance(e, type) else e
                if aw.on_raise is not None:
                    aw.on_raise(throw)
