"""Translation of LIVE compiled ``re`` patterns to z3 regular expressions.

The pattern object is taken from the imported module of the current tree, parsed with CPython's own
``re._parser`` (flags included: re.ASCII decides whether ``\\d`` is [0-9] or all of Unicode Nd), and
translated construct by construct.  Unsupported constructs raise Unsupported (out of subset).

Strings are z3 unicode strings; a bytes pattern is the same with every char < 256.
"""
from __future__ import annotations

import re
import sys
import unicodedata

import z3

from .core import Unsupported

try:  # py3.11+
    from re import _constants as sre_c
    from re import _parser as sre_p
except ImportError:  # pragma: no cover
    import sre_constants as sre_c
    import sre_parse as sre_p

S = z3.StringSort()
RS = z3.ReSort(S)
MAXCHAR = 0x2FFFF  # z3's unicode character range


def ch(c: int):
    return z3.Unit(z3.CharVal(c)) if False else z3.StringVal(chr(c)) if c < 0xD800 or c > 0xDFFF else None


def lit(c: int):
    return z3.Re(z3.StringVal(_esc(chr(c))))


def _esc(s: str) -> str:
    # z3.StringVal interprets \u{...} escapes; build through explicit escapes for non printable chars
    out = []
    for c in s:
        o = ord(c)
        if 32 <= o < 127 and c != "\\":
            out.append(c)
        else:
            out.append("\\u{%x}" % o)
    return "".join(out)


def rng(a: int, b: int):
    if a == b:
        return lit(a)
    return z3.Range(z3.StringVal(_esc(chr(a))), z3.StringVal(_esc(chr(b))))


def union(rs):
    rs = list(rs)
    if not rs:
        return z3.Empty(RS)
    if len(rs) == 1:
        return rs[0]
    return z3.Union(*rs)


def concat(rs):
    rs = list(rs)
    if not rs:
        return z3.Re(z3.StringVal(""))
    if len(rs) == 1:
        return rs[0]
    return z3.Concat(*rs)


def ranges_to_re(ranges):
    return union(rng(a, b) for a, b in _merge(ranges))


def _merge(ranges):
    out = []
    for a, b in sorted(ranges):
        if a > b:
            continue
        if out and a <= out[-1][1] + 1:
            out[-1] = (out[-1][0], max(out[-1][1], b))
        else:
            out.append((a, b))
    return out


def _complement(ranges, top):
    out = []
    cur = 0
    for a, b in _merge(ranges):
        if a > cur:
            out.append((cur, a - 1))
        cur = b + 1
    if cur <= top:
        out.append((cur, top))
    return out


_CAT_CACHE: dict = {}


def _unicode_ranges(pred, top):
    key = (pred.__name__, top)
    if key not in _CAT_CACHE:
        out = []
        start = None
        for c in range(top + 1):
            ok = pred(chr(c))
            if ok and start is None:
                start = c
            elif not ok and start is not None:
                out.append((start, c - 1))
                start = None
        if start is not None:
            out.append((start, top))
        _CAT_CACHE[key] = out
    return _CAT_CACHE[key]


def _is_digit(c):
    return unicodedata.category(c) == "Nd"


def _is_space(c):
    return c.isspace() or c in "\x1c\x1d\x1e\x1f"


def _is_word(c):
    return c.isalnum() or c == "_"


def category_ranges(cat, ascii_only, is_bytes):
    top = 255 if is_bytes else MAXCHAR
    neg = False
    name = str(cat)
    if "NOT_" in name:
        neg = True
    if "DIGIT" in name:
        r = [(48, 57)] if (ascii_only or is_bytes) else _unicode_ranges(_is_digit, top)
    elif "SPACE" in name:
        r = [(9, 13), (32, 32)] if (ascii_only or is_bytes) else _unicode_ranges(_is_space, top)
    elif "WORD" in name:
        r = [(48, 57), (65, 90), (95, 95), (97, 122)] if (ascii_only or is_bytes) else _unicode_ranges(_is_word, top)
    else:
        raise Unsupported(f"regex category {cat}")
    return _complement(r, top) if neg else r


class Translator:
    def __init__(self, pattern, flags=None):
        if isinstance(pattern, re.Pattern):
            self.src = pattern.pattern
            self.flags = pattern.flags
        else:
            self.src = pattern
            self.flags = flags or 0
        self.is_bytes = isinstance(self.src, bytes)
        src = self.src
        self.tree = sre_p.parse(src, self.flags)
        self.flags = self.tree.state.flags if hasattr(self.tree, "state") else self.flags
        self.ascii = bool(self.flags & re.ASCII) or self.is_bytes
        self.icase = bool(self.flags & re.IGNORECASE)
        self.dotall = bool(self.flags & re.DOTALL)
        self.multiline = bool(self.flags & re.MULTILINE)
        self.top = 255 if self.is_bytes else MAXCHAR
        if self.multiline:
            raise Unsupported("re.MULTILINE")

    def anychar(self):
        return ranges_to_re([(0, self.top)])

    def _lit_ranges(self, c):
        if self.icase:
            s = chr(c)
            alts = {c}
            for v in (s.lower(), s.upper()):
                if len(v) == 1:
                    alts.add(ord(v))
            return [(a, a) for a in sorted(alts)]
        return [(c, c)]

    def item(self, op, av):
        name = str(op)
        if op is sre_c.LITERAL:
            return ranges_to_re(self._lit_ranges(av))
        if op is sre_c.NOT_LITERAL:
            return ranges_to_re(_complement(self._lit_ranges(av), self.top))
        if op is sre_c.ANY:
            return self.anychar() if self.dotall else ranges_to_re(_complement([(10, 10)], self.top))
        if op is sre_c.IN:
            neg = False
            rs = []
            for o2, a2 in av:
                if o2 is sre_c.NEGATE:
                    neg = True
                elif o2 is sre_c.LITERAL:
                    rs += self._lit_ranges(a2)
                elif o2 is sre_c.RANGE:
                    lo, hi = a2
                    rs.append((lo, hi))
                    if self.icase:
                        for c in range(lo, min(hi, 0x17F) + 1):
                            rs += self._lit_ranges(c)
                elif o2 is sre_c.CATEGORY:
                    rs += category_ranges(a2, self.ascii, self.is_bytes)
                else:
                    raise Unsupported(f"regex set item {o2}")
            return ranges_to_re(_complement(rs, self.top) if neg else rs)
        if op is sre_c.CATEGORY:
            return ranges_to_re(category_ranges(av, self.ascii, self.is_bytes))
        if op is sre_c.BRANCH:
            _, alts = av
            return union(self.seq(a) for a in alts)
        if op is sre_c.SUBPATTERN:
            p = av[-1]
            return self.seq(p)
        if op in (sre_c.MAX_REPEAT, sre_c.MIN_REPEAT) or "POSSESSIVE_REPEAT" in name:
            lo, hi, p = av
            r = self.seq(p)
            if hi == sre_c.MAXREPEAT:
                if lo == 0:
                    return z3.Star(r)
                if lo == 1:
                    return z3.Plus(r)
                return z3.Concat(z3.Loop(r, lo, lo), z3.Star(r))
            if lo == 0 and hi == 1:
                return z3.Option(r)
            return z3.Loop(r, lo, hi)
        if op is sre_c.AT:
            raise Unsupported(f"anchor {av} in the middle of a pattern")
        if "ATOMIC_GROUP" in name:
            return self.seq(av)
        raise Unsupported(f"regex construct {op}")

    def seq(self, items):
        return concat(self.item(op, av) for op, av in items)

    def body(self):
        """returns (regex, anchored_at_start, end) with end in {None, 'end', 'dollar'}"""
        items = list(self.tree)
        start = False
        end = None
        while items and items[0][0] is sre_c.AT and items[0][1] in (sre_c.AT_BEGINNING, sre_c.AT_BEGINNING_STRING):
            start = True
            items = items[1:]
        while items and items[-1][0] is sre_c.AT and items[-1][1] in (sre_c.AT_END, sre_c.AT_END_STRING):
            end = "dollar" if items[-1][1] is sre_c.AT_END else "end"
            items = items[:-1]
        # a single top-level non-capturing group wrapping anchors, e.g. ^(?:...)$ is handled by seq()
        return self.seq(items), start, end

    def _tail(self, end, for_full):
        if end == "dollar" and not for_full:
            return z3.Option(lit(10))
        return None

    def fullmatch(self):
        r, _, end = self.body()
        return r

    def match(self):
        r, _, end = self.body()
        if end is None:
            return z3.Concat(r, z3.Star(self.anychar()))
        t = self._tail(end, False)
        return z3.Concat(r, t) if t is not None else r

    def search(self):
        r, start, end = self.body()
        parts = []
        if not start:
            parts.append(z3.Star(self.anychar()))
        parts.append(r)
        if end is None:
            parts.append(z3.Star(self.anychar()))
        else:
            t = self._tail(end, False)
            if t is not None:
                parts.append(t)
        return concat(parts)


def lang(pattern, mode="fullmatch", flags=None):
    t = Translator(pattern, flags)
    return getattr(t, mode)()


def universe(is_bytes):
    return z3.Star(ranges_to_re([(0, 255 if is_bytes else MAXCHAR)]))


def equivalent(a, b, domain=None, timeout_ms=20000):
    """decide L(a) == L(b) (within `domain` if given).  returns ('equal', None) | ('differ', witness) | ('unknown', reason)"""
    x = z3.String("x")
    s = z3.Solver()
    s.set("timeout", timeout_ms)
    if domain is not None:
        s.add(z3.InRe(x, domain))
    s.add(z3.InRe(x, a) != z3.InRe(x, b))
    r = s.check()
    if r == z3.unsat:
        return "equal", None
    if r == z3.sat:
        return "differ", s.model()[x].as_string()
    return "unknown", s.reason_unknown()


def subset(a, b, domain=None, timeout_ms=20000):
    x = z3.String("x")
    s = z3.Solver()
    s.set("timeout", timeout_ms)
    if domain is not None:
        s.add(z3.InRe(x, domain))
    s.add(z3.InRe(x, a), z3.Not(z3.InRe(x, b)))
    r = s.check()
    if r == z3.unsat:
        return "subset", None
    if r == z3.sat:
        return "not-subset", s.model()[x].as_string()
    return "unknown", s.reason_unknown()


def py_unescape(z3s: str) -> str:
    """z3 as_string() -> python str"""
    return re.sub(r"\\u\{([0-9a-fA-F]+)\}", lambda m: chr(int(m.group(1), 16)), z3s)
