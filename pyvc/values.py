"""Symbolic proxy values.  Every operation accepts real and proxy operands.

Encoding assumptions (reported in evidence):
  * int  -> z3 Int (mathematical; exact for Python)
  * bool -> z3 Bool
  * bytes/bytearray -> rope of segments; a segment is either concrete bytes or a
    slice [lo, lo+n) of a named symbolic source (length Int + Array Int->Int with
    every element in 0..255).  Slicing / concatenation preserve content by
    construction (provenance algebra), no quantifiers.
"""
from __future__ import annotations

import z3

from .core import Unsupported, ctx, has_ctx

IntSort = z3.IntSort()


# ---------------------------------------------------------------------------
# term helpers


def is_sym(x) -> bool:
    return isinstance(x, (SInt, SBool, SBytes, SSeq, SObj, SReal, SOpt, SIncSeq)) or getattr(type(x), "_pyvc_sym", False)


def tint(x):
    """python int / SInt -> z3 Int term"""
    if isinstance(x, SInt):
        return x.t
    if isinstance(x, bool):
        return z3.IntVal(int(x))
    if isinstance(x, int):
        return z3.IntVal(x)
    if isinstance(x, SBool):
        return z3.If(x.t, z3.IntVal(1), z3.IntVal(0))
    if isinstance(x, z3.ArithRef):
        return x
    raise Unsupported(f"not an int: {type(x).__name__} {x!r}")


def tbool(x):
    """truthiness of a python/proxy value as z3 Bool term (or python bool)"""
    if isinstance(x, bool):
        return x
    if isinstance(x, SBool):
        return x.t
    if isinstance(x, z3.BoolRef):
        return x
    if isinstance(x, SInt):
        return x.t != 0
    if isinstance(x, (SBytes, SSeq)):
        return tint(x.length()) != 0
    if isinstance(x, SObj):
        return True
    if x is None:
        return False
    if isinstance(x, (int, float, str, bytes, bytearray, list, tuple, dict, set, frozenset)):
        return bool(x)
    if isinstance(x, SReal):
        return x.t != 0
    return bool(x)


def mk_int(t):
    if isinstance(t, int):
        return t
    s = z3.simplify(t)
    if z3.is_int_value(s):
        return s.as_long()
    return SInt(s)


def mk_bool(t):
    if isinstance(t, bool):
        return t
    s = z3.simplify(t)
    if z3.is_true(s):
        return True
    if z3.is_false(s):
        return False
    return SBool(s)


def And(*xs):
    ts = [tbool(x) for x in xs]
    if any(t is False for t in ts):
        return False
    ts = [t for t in ts if t is not True]
    if not ts:
        return True
    return mk_bool(z3.And(*ts))


def Or(*xs):
    ts = [tbool(x) for x in xs]
    if any(t is True for t in ts):
        return True
    ts = [t for t in ts if t is not False]
    if not ts:
        return False
    return mk_bool(z3.Or(*ts))


def Not(x):
    t = tbool(x)
    if isinstance(t, bool):
        return not t
    return mk_bool(z3.Not(t))


def Implies(a, b):
    return Or(Not(a), b)


def Iff(a, b):
    return And(Implies(a, b), Implies(b, a))


def Ite(c, a, b):
    """value-level if-then-else (no fork) for ints/bools"""
    t = tbool(c)
    if t is True:
        return a
    if t is False:
        return b
    if isinstance(a, (bool, SBool)) and isinstance(b, (bool, SBool)):
        return mk_bool(z3.If(t, _b(a), _b(b)))
    return mk_int(z3.If(t, tint(a), tint(b)))


def _b(x):
    t = tbool(x)
    return z3.BoolVal(t) if isinstance(t, bool) else t


# ---------------------------------------------------------------------------


class SBool:
    __slots__ = ("t",)

    def __init__(self, t):
        self.t = t

    def __bool__(self):
        return ctx().branch(self.t)

    def __repr__(self):
        return f"SBool(#{self.t.hash()})"  # terms can be huge: never pretty-print them implicitly

    def __hash__(self):
        return hash(self.t)

    def __eq__(self, o):
        if isinstance(o, (bool, SBool)):
            return mk_bool(self.t == _b(o))
        if isinstance(o, (int, SInt)):
            return mk_bool(tint(self) == tint(o))
        return False

    def __ne__(self, o):
        return Not(self.__eq__(o))

    def __and__(self, o):
        return And(self, o)

    __rand__ = __and__

    def __or__(self, o):
        return Or(self, o)

    __ror__ = __or__

    def __invert__(self):
        raise Unsupported("~ on bool")

    def __int__(self):
        raise Unsupported("int(SBool) natively")

    def __add__(self, o):
        return mk_int(tint(self) + tint(o))

    __radd__ = __add__

    def concretize(self, m):
        r = m.eval(self.t, model_completion=True)
        return z3.is_true(r)


def _mask_runs(m: int):
    """decompose a non-negative mask into runs of consecutive one bits [(lo, hi)]"""
    runs = []
    i = 0
    while m >> i:
        if (m >> i) & 1:
            j = i
            while (m >> j) & 1:
                j += 1
            runs.append((i, j))
            i = j
        else:
            i += 1
    return runs


class SInt:
    __slots__ = ("t",)

    def __init__(self, t):
        self.t = t

    def __repr__(self):
        return f"SInt(#{self.t.hash()})"

    def __hash__(self):
        return hash(self.t)

    def __bool__(self):
        return ctx().branch(self.t != 0)

    def __index__(self):
        raise Unsupported(f"symbolic int used natively as an index: {self.t}")

    def __format__(self, spec):
        return register_fmt(self, spec)

    def __str__(self):
        return register_fmt(self, "")

    # arithmetic
    def __add__(self, o):
        if isinstance(o, (int, SInt, SBool)):
            return mk_int(self.t + tint(o))
        if isinstance(o, SReal) or isinstance(o, float):
            return SReal.of(self) + o
        return NotImplemented

    __radd__ = __add__

    def __sub__(self, o):
        if isinstance(o, (int, SInt, SBool)):
            return mk_int(self.t - tint(o))
        return NotImplemented

    def __rsub__(self, o):
        if isinstance(o, (int, SInt, SBool)):
            return mk_int(tint(o) - self.t)
        return NotImplemented

    def __mul__(self, o):
        if isinstance(o, (int, SInt, SBool)):
            return mk_int(self.t * tint(o))
        return NotImplemented

    __rmul__ = __mul__

    def __neg__(self):
        return mk_int(-self.t)

    def __pos__(self):
        return self

    def __abs__(self):
        return mk_int(z3.If(self.t >= 0, self.t, -self.t))

    def __invert__(self):
        return mk_int(-self.t - 1)

    def __floordiv__(self, o):
        return floordiv(self, o)

    def __rfloordiv__(self, o):
        return floordiv(o, self)

    def __mod__(self, o):
        return mod(self, o)

    def __rmod__(self, o):
        return mod(o, self)

    def __divmod__(self, o):
        return floordiv(self, o), mod(self, o)

    def __truediv__(self, o):
        return SReal.of(self) / o

    def __rshift__(self, k):
        if isinstance(k, int) and k >= 0:
            return mk_int(self.t / z3.IntVal(1 << k))
        raise Unsupported("symbolic shift amount")

    def __lshift__(self, k):
        if isinstance(k, int) and k >= 0:
            return mk_int(self.t * (1 << k))
        raise Unsupported("symbolic shift amount")

    def __rlshift__(self, o):
        raise Unsupported("symbolic shift amount")

    def __and__(self, m):
        if isinstance(m, bool):
            m = int(m)
        if isinstance(m, int) and m >= 0:
            if m == 0:
                return 0
            tot = None
            for lo, hi in _mask_runs(m):
                part = (self.t / z3.IntVal(1 << lo)) % z3.IntVal(1 << (hi - lo))
                if lo:
                    part = part * (1 << lo)
                tot = part if tot is None else tot + part
            return mk_int(tot)
        return bitop("and", self, m)

    __rand__ = __and__

    def __or__(self, o):
        return bitop("or", self, o)

    __ror__ = __or__

    def __xor__(self, o):
        return bitop("xor", self, o)

    __rxor__ = __xor__

    # comparisons
    def _cmp(self, o, f):
        if isinstance(o, (int, SInt, SBool)):
            return mk_bool(f(self.t, tint(o)))
        if isinstance(o, (float, SReal)):
            return SReal.of(self)._cmp(o, f)
        return NotImplemented

    def __lt__(self, o):
        return self._cmp(o, lambda a, b: a < b)

    def __le__(self, o):
        return self._cmp(o, lambda a, b: a <= b)

    def __gt__(self, o):
        return self._cmp(o, lambda a, b: a > b)

    def __ge__(self, o):
        return self._cmp(o, lambda a, b: a >= b)

    def __eq__(self, o):
        if isinstance(o, (int, SInt, SBool)):
            return mk_bool(self.t == tint(o))
        if isinstance(o, (float, SReal)):
            return SReal.of(self)._cmp(o, lambda a, b: a == b)
        return False

    def __ne__(self, o):
        return Not(self.__eq__(o))

    def concretize(self, m):
        r = m.eval(self.t, model_completion=True)
        return r.as_long() if z3.is_int_value(r) else str(r)


def floordiv(a, b):
    if isinstance(b, int):
        if b == 0:
            raise ZeroDivisionError("integer division or modulo by zero")
        if b > 0:
            return mk_int(tint(a) / z3.IntVal(b))
        return mk_int((-tint(a)) / z3.IntVal(-b))
    c = ctx()
    if c.branch(tint(b) == 0, "div0"):
        raise ZeroDivisionError("integer division or modulo by zero")
    if c.branch(tint(b) > 0, "divpos"):
        return mk_int(tint(a) / tint(b))
    return mk_int((-tint(a)) / (-tint(b)))


def mod(a, b):
    q = floordiv(a, b)
    return mk_int(tint(a) - tint(b) * tint(q))


def bitop(op, a, b):
    """| ^ & on symbolic operands.  Sound encodings:
    x | y == x + y when the solver proves x is a multiple of 2^k and 0 <= y < 2^k;
    otherwise 64-bit bit-vector encoding guarded by a range fork."""
    c = ctx()
    ta, tb = tint(a), tint(b)
    if op == "or":
        # x | m with concrete m: equals x + m when 0 <= x < (lowest set bit of m)
        for x, m in ((a, b), (b, a)):
            if isinstance(m, int) and not isinstance(m, bool) and m > 0 and not isinstance(x, int):
                low = m & -m
                tx = tint(x)
                if c._check(z3.Not(z3.And(tx >= 0, tx < low))) == z3.unsat:
                    return mk_int(tx + m)
        for x, y in ((ta, tb), (tb, ta)):
            for k in (8, 16, 24, 32):
                p = 1 << k
                if c._check(z3.Not(z3.And(x % p == 0, y >= 0, y < p))) == z3.unsat:
                    return mk_int(x + y)
    # generic: both operands within [0, 2^64) -> bit-vector
    inr = z3.And(ta >= 0, ta < (1 << 64), tb >= 0, tb < (1 << 64))
    if c._check(z3.Not(inr)) == z3.unsat:
        ba, bb = z3.Int2BV(ta, 64), z3.Int2BV(tb, 64)
        r = {"or": ba | bb, "and": ba & bb, "xor": ba ^ bb}[op]
        return mk_int(z3.BV2Int(r, False))
    raise Unsupported(f"bit operation {op} on unbounded symbolic ints")


# ---------------------------------------------------------------------------
# reals (floats treated as reals: assumption)


class SReal:
    __slots__ = ("t",)

    def __init__(self, t):
        self.t = t

    @staticmethod
    def of(x):
        if isinstance(x, SReal):
            return x
        if isinstance(x, SInt):
            return SReal(z3.ToReal(x.t))
        if isinstance(x, (int, float)):
            return SReal(z3.RealVal(repr(x)) if isinstance(x, float) else z3.RealVal(x))
        raise Unsupported(f"not a real: {x!r}")

    def __repr__(self):
        return f"SReal({self.t})"

    def __hash__(self):
        return hash(self.t)

    def __bool__(self):
        return ctx().branch(self.t != 0)

    def _bin(self, o, f):
        if isinstance(o, (int, float, SInt, SReal)):
            return SReal(z3.simplify(f(self.t, SReal.of(o).t)))
        return NotImplemented

    def __add__(self, o):
        return self._bin(o, lambda a, b: a + b)

    __radd__ = __add__

    def __sub__(self, o):
        return self._bin(o, lambda a, b: a - b)

    def __rsub__(self, o):
        return self._bin(o, lambda a, b: b - a)

    def __mul__(self, o):
        return self._bin(o, lambda a, b: a * b)

    __rmul__ = __mul__

    def __truediv__(self, o):
        return self._bin(o, lambda a, b: a / b)

    def __neg__(self):
        return SReal(-self.t)

    def _cmp(self, o, f):
        if isinstance(o, (int, float, SInt, SReal)):
            return mk_bool(f(self.t, SReal.of(o).t))
        return NotImplemented

    def __lt__(self, o):
        return self._cmp(o, lambda a, b: a < b)

    def __le__(self, o):
        return self._cmp(o, lambda a, b: a <= b)

    def __gt__(self, o):
        return self._cmp(o, lambda a, b: a > b)

    def __ge__(self, o):
        return self._cmp(o, lambda a, b: a >= b)

    def __eq__(self, o):
        r = self._cmp(o, lambda a, b: a == b)
        return False if r is NotImplemented else r

    def __ne__(self, o):
        return Not(self.__eq__(o))

    def concretize(self, m):
        r = m.eval(self.t, model_completion=True)
        try:
            return float(r.as_fraction())
        except Exception:
            return str(r)


# ---------------------------------------------------------------------------
# formatted symbolic values inside f-strings: a marker string + registry

_FMT: dict[str, tuple] = {}


def register_fmt(v, spec):
    k = f"\x01{len(_FMT)}\x02"  # ASCII-only marker (survives .encode("ascii"))
    _FMT[k] = (v, spec)
    return k


def fmt_lookup(marker):
    return _FMT.get(marker)


def fmt_parse(s: str):
    """split a string produced by an f-string into literal parts and symbolic values"""
    import re

    out = []
    for part in re.split("(\x01\\d+\x02)", s):
        if part in _FMT:
            out.append(_FMT[part])
        elif part:
            out.append(part)
    return out


# ---------------------------------------------------------------------------
# byte strings


class Src:
    """a named symbolic byte source"""

    _n = 0

    def __init__(self, name, length=None):
        self.name = name
        self.len = z3.Int(f"{name}.len") if length is None else length
        self.arr = z3.Array(f"{name}.arr", IntSort, IntSort)

    def __repr__(self):
        return f"Src({self.name})"


class Seg:
    __slots__ = ("src", "lo", "n", "data")

    def __init__(self, src=None, lo=None, n=None, data=None):
        self.src = src  # Src or None
        self.lo = lo  # z3 Int term (offset into src)
        self.n = n  # z3 Int term or python int (length)
        self.data = data  # concrete bytes if src is None

    def length(self):
        return len(self.data) if self.src is None else self.n

    def __repr__(self):
        if self.src is None:
            return f"C{self.data[:16]!r}"
        return f"{self.src.name}[..]"


def _simp(t):
    if isinstance(t, int):
        return t
    s = z3.simplify(t)
    return s.as_long() if z3.is_int_value(s) else s


def _clamp(v, lo, hi):
    """clamp term v into [lo, hi] (terms or ints); assumes lo <= hi"""
    v, lo, hi = _simp(v), _simp(lo), _simp(hi)
    if all(isinstance(x, int) for x in (v, lo, hi)):
        return max(lo, min(hi, v))
    tv, tl, th = (z3.IntVal(x) if isinstance(x, int) else x for x in (v, lo, hi))
    return _simp(z3.If(tv < tl, tl, z3.If(tv > th, th, tv)))


class SBytes:
    """rope of segments; kind is bytes or bytearray (bytearray is mutable in place)"""

    def __init__(self, segs, kind=bytes):
        self.kind = kind
        self.segs = self._norm(segs)

    @staticmethod
    def fresh(name, kind=bytes, register=True):
        c = ctx()
        name = c.fresh_name(name)
        s = Src(name)
        c.add(s.len >= 0)
        v = SBytes([Seg(s, z3.IntVal(0), s.len)], kind)
        if register:
            c.inputs[name] = v
        return v

    @staticmethod
    def of(x, kind=None):
        if isinstance(x, SBytes):
            return x if kind in (None, x.kind) else SBytes(x.segs, kind)
        if isinstance(x, (bytes, bytearray)):
            return SBytes([Seg(data=bytes(x))], kind or type(x))
        raise Unsupported(f"not bytes: {type(x).__name__}")

    @staticmethod
    def _norm(segs):
        out = []
        for s in segs:
            if s.src is None:
                if not s.data:
                    continue
                if out and out[-1].src is None:
                    out[-1] = Seg(data=out[-1].data + s.data)
                    continue
                out.append(s)
                continue
            n = _simp(s.n)
            if isinstance(n, int) and n <= 0:
                continue
            lo = _simp(s.lo)
            if out and out[-1].src is s.src:
                p = out[-1]
                plo = p.lo if not isinstance(p.lo, int) else z3.IntVal(p.lo)
                pn = p.n if not isinstance(p.n, int) else z3.IntVal(p.n)
                lot = lo if not isinstance(lo, int) else z3.IntVal(lo)
                if z3.is_true(z3.simplify(plo + pn == lot)):
                    out[-1] = Seg(p.src, p.lo, _simp(pn + (n if not isinstance(n, int) else z3.IntVal(n))))
                    continue
            out.append(Seg(s.src, lo, n))
        return out

    # -- basic ---------------------------------------------------------
    def length(self):
        tot = 0
        for s in self.segs:
            tot = tot + s.length()
        return mk_int(tot) if not isinstance(tot, int) else tot

    def __len__(self):
        n = self.length()
        if isinstance(n, int):
            return n
        raise Unsupported("len() of symbolic bytes natively (instrumentation should have rewritten it)")

    def __bool__(self):
        n = self.length()
        if isinstance(n, int):
            return n != 0
        return ctx().branch(n.t != 0)

    def __repr__(self):
        return f"SBytes<{self.kind.__name__}>{self.segs}"

    def __format__(self, spec):
        return register_fmt(self, spec)

    def __hash__(self):
        return id(self)

    def is_concrete(self):
        return all(s.src is None for s in self.segs)

    def concrete(self):
        return b"".join(s.data for s in self.segs)

    def __add__(self, o):
        if isinstance(o, (bytes, bytearray, SBytes)):
            return SBytes(self.segs + SBytes.of(o).segs, self.kind)
        return NotImplemented

    def __radd__(self, o):
        if isinstance(o, (bytes, bytearray)):
            return SBytes(SBytes.of(o).segs + self.segs, type(o))
        return NotImplemented

    def __iadd__(self, o):
        if self.kind is bytearray:
            self.segs = self._norm(self.segs + SBytes.of(o).segs)
            return self
        return self.__add__(o)

    def clear(self):
        if self.kind is not bytearray:
            raise AttributeError("'bytes' object has no attribute 'clear'")
        self.segs = []

    def extend(self, o):
        if self.kind is not bytearray:
            raise AttributeError("'bytes' object has no attribute 'extend'")
        self.segs = self._norm(self.segs + SBytes.of(o).segs)

    def copy_as(self, kind):
        return SBytes(list(self.segs), kind)

    # -- indexing --------------------------------------------------------
    def byte_at(self, i):
        """term for the byte at in-range position i (no bounds check)"""
        c = ctx()
        ti = tint(i)
        off = 0
        res = None
        chain = []
        for s in self.segs:
            n = s.length()
            if s.src is None:
                # concrete segment: ite chain over its bytes
                e = z3.IntVal(s.data[-1])
                for j in range(len(s.data) - 2, -1, -1):
                    e = z3.If(ti - off == j, z3.IntVal(s.data[j]), e)
                val = e
            else:
                val = z3.Select(s.src.arr, tint(s.lo) + ti - off)
            chain.append((off + n, val))
            off = off + n
        if not chain:
            raise IndexError("index out of range")
        res = chain[-1][1]
        for bound, val in reversed(chain[:-1]):
            res = z3.If(ti < bound, val, res)
        r = z3.simplify(res)
        if z3.is_int_value(r):
            return r.as_long()
        v = z3.FreshInt("byte")
        c.add(v == r)
        c.add(z3.And(v >= 0, v <= 255))
        return SInt(v)

    def __getitem__(self, i):
        if isinstance(i, slice):
            return self.slice(i.start, i.stop, i.step)
        n = self.length()
        c = ctx()
        ti = tint(i)
        if c.branch(ti < 0, "negidx"):
            ti = ti + tint(n)
        if not c.branch(z3.And(ti >= 0, ti < tint(n)), "idx_in_range"):
            raise IndexError("index out of range")
        return self.byte_at(mk_int(ti))

    def slice(self, a, b, step=None):
        if step not in (None, 1):
            raise Unsupported("extended slice on symbolic bytes")
        n = tint(self.length())
        if a is None:
            A = 0
        else:
            ta = tint(a)
            A = _clamp(z3.If(ta < 0, ta + n, ta), 0, n)
        if b is None:
            B = n
        else:
            tb = tint(b)
            B = _clamp(z3.If(tb < 0, tb + n, tb), 0, n)
        At = A if not isinstance(A, int) else z3.IntVal(A)
        Bt = B if not isinstance(B, int) else z3.IntVal(B)
        # effective end = max(A, B)
        Bt = _simp(z3.If(Bt < At, At, Bt))
        Bt = Bt if not isinstance(Bt, int) else z3.IntVal(Bt)
        out = []
        off = z3.IntVal(0)
        for s in self.segs:
            ln = s.length()
            lnt = ln if not isinstance(ln, int) else z3.IntVal(ln)
            st = _clamp(At - off, 0, lnt)
            en = _clamp(Bt - off, 0, lnt)
            if s.src is None:
                if isinstance(st, int) and isinstance(en, int):
                    out.append(Seg(data=s.data[st:en]))
                else:
                    cs = _const_src(s.data)
                    stt = st if not isinstance(st, int) else z3.IntVal(st)
                    ent = en if not isinstance(en, int) else z3.IntVal(en)
                    out.append(Seg(cs, stt, _simp(ent - stt)))
            else:
                stt = st if not isinstance(st, int) else z3.IntVal(st)
                ent = en if not isinstance(en, int) else z3.IntVal(en)
                out.append(Seg(s.src, _simp(tint(s.lo) + stt), _simp(ent - stt)))
            off = _simp(off + lnt)
            off = off if not isinstance(off, int) else z3.IntVal(off)
        return SBytes(out, self.kind)

    # -- equality ------------------------------------------------------------
    def eq_term(self, o):
        if isinstance(o, (bytes, bytearray)):
            o = SBytes.of(o)
        if not isinstance(o, SBytes):
            return False
        if self.same_rope(o):
            return True
        if o.is_concrete() or self.is_concrete():
            s, cst = (self, o.concrete()) if o.is_concrete() else (o, self.concrete())
            if len(cst) > 64:
                raise Unsupported("equality with long concrete bytes")
            conj = [tint(s.length()) == len(cst)]
            if len(cst) == 0:
                return z3.simplify(conj[0])
            # guarded element comparison
            for j, ch in enumerate(cst):
                conj.append(tint(s._byte_term(j)) == ch)
            return z3.And(*conj)
        # two symbolic ropes: decidable by expansion when one of them is provably short on this path
        c = ctx()
        K = 8
        la, lb = tint(self.length()), tint(o.length())
        if c._check(z3.Not(z3.Or(la <= K, lb <= K))) == z3.unsat:
            conj = [la == lb]
            for j in range(K):
                conj.append(z3.Implies(z3.And(j < la, j < lb), tint(self._byte_term(j)) == tint(o._byte_term(j))))
            return z3.And(*conj)
        raise Unsupported("equality between two long symbolic byte strings")

    def _byte_term(self, j):
        # term without range fork; used under a length guard
        off = 0
        chain = []
        tj = tint(j)
        for s in self.segs:
            n = s.length()
            if s.src is None:
                e = z3.IntVal(s.data[-1])
                for k in range(len(s.data) - 2, -1, -1):
                    e = z3.If(tj - off == k, z3.IntVal(s.data[k]), e)
                val = e
            else:
                val = z3.Select(s.src.arr, tint(s.lo) + tj - off)
            chain.append((off + n, val))
            off = off + n
        if not chain:
            return z3.IntVal(-1)
        res = chain[-1][1]
        for bound, val in reversed(chain[:-1]):
            res = z3.If(tj < bound, val, res)
        return res

    def same_rope(self, o):
        if len(self.segs) != len(o.segs):
            return False
        for a, b in zip(self.segs, o.segs):
            if a.src is None or b.src is None:
                if a.src is not b.src or a.data != b.data:
                    return False
                continue
            if a.src is not b.src:
                return False
            if not (z3.is_true(z3.simplify(tint(a.lo) == tint(b.lo))) and z3.is_true(z3.simplify(tint(a.n) == tint(b.n)))):
                return False
        return True

    def _pruned(self):
        """segments that are not provably empty under the current path condition"""
        c = ctx()
        out = []
        for s in self.segs:
            n = s.length()
            if isinstance(n, int):
                if n > 0:
                    out.append(s)
                continue
            if c._check(n != 0) == z3.unsat:
                continue
            out.append(s)
        return out

    def _merged(self):
        """_pruned() with adjacent segments of one source fused when they are provably contiguous on this path
        (x[a:b] ++ x[b:c] is x[a:c]), so that ropes cut at different places compare equal"""
        c = ctx()
        out = []
        for s in self._pruned():
            if out and s.src is not None and out[-1].src is s.src:
                p = out[-1]
                if c._check(tint(p.lo) + tint(p.n) != tint(s.lo)) == z3.unsat:
                    out[-1] = Seg(p.src, p.lo, _simp(tint(p.n) + tint(s.n)))
                    continue
            if out and s.src is None and out[-1].src is None:
                out[-1] = Seg(data=bytes(out[-1].data) + bytes(s.data))
                continue
            out.append(s)
        return out

    def prov_eq(self, o):
        """provenance equality (same bytes by construction): after dropping segments that are provably
        empty on this path both ropes must have the same shape; the result is the conjunction of the
        offset/length equalities (a term, decided by the solver).  Concrete segments compare by value."""
        o = SBytes.of(o)
        a, b = self._merged(), o._merged()
        if len(a) != len(b):
            return False
        conj = []
        for x, y in zip(a, b):
            if x.src is None or y.src is None:
                if x.src is not None or y.src is not None or x.data != y.data:
                    return False
                continue
            if x.src is not y.src:
                return False
            conj.append(tint(x.lo) == tint(y.lo))
            conj.append(tint(x.n) == tint(y.n))
        return mk_bool(z3.And(*conj)) if conj else True

    def __eq__(self, o):
        if not isinstance(o, (bytes, bytearray, SBytes)):
            return False
        return mk_bool(self.eq_term(o))

    def __ne__(self, o):
        return Not(self.__eq__(o))

    # -- provenance ------------------------------------------------------------
    def is_slice_of(self, src: Src, lo, hi):
        """z3 term: this rope is exactly src[lo:hi] by provenance (empty segments ignored)"""
        cur = tint(lo)
        conj = [tint(lo) <= tint(hi)]
        for s in self.segs:
            n = s.length()
            nt = n if not isinstance(n, int) else z3.IntVal(n)
            if s.src is src:
                conj.append(z3.Or(nt == 0, tint(s.lo) == cur))
            else:
                conj.append(nt == 0)
            cur = cur + nt
        conj.append(cur == tint(hi))
        return mk_bool(z3.And(*conj))

    def concretize(self, m):
        out = bytearray()
        for s in self.segs:
            if s.src is None:
                out += s.data
                continue
            n = m.eval(tint(s.n), model_completion=True).as_long()
            lo = m.eval(tint(s.lo), model_completion=True).as_long()
            # (each byte is one model evaluation: counterexamples with tens of kilobytes made model extraction the
            # dominant cost of a run; beyond the cap the remaining bytes are filled with zeros - the lengths stay exact)
            cap = 2048
            for j in range(max(0, min(n, cap))):
                v = m.eval(z3.Select(s.src.arr, z3.IntVal(lo + j)), model_completion=True)
                out.append(v.as_long() % 256 if z3.is_int_value(v) else 0)
            if n > cap:
                out += bytes(min(n, 1 << 20) - cap)
        return bytes(out)

    # -- a few methods used by the verified code -------------------------------
    def find(self, sub, start=0, end=None):
        """ASSUMED bytes.find (positional part only): the result r is -1 or start <= r <= len - len(sub);
        r == -1 is always possible symbolically (content is not modelled for ropes)"""
        from . import stubs

        stubs.used("bytes.find(sub, start[, end]): result is -1 or start <= r <= end - len(sub) (content not modelled; "
                   "content predicates on ropes are uninterpreted but functional: same bytes, same answer)")
        k = blen(sub)
        n = tint(self.length())
        r = fresh_int("find", register=False)
        c = ctx()
        st = tint(start)
        st = z3.If(st < 0, z3.If(st + n < 0, 0, st + n), st)
        hi = n if end is None else tint(end)
        c.add(z3.Or(r.t == -1, z3.And(r.t >= st, r.t <= hi - tint(k))))
        # link with the content predicate of exactly the searched window: found <=> the window contains the needle
        if isinstance(sub, (bytes, bytearray)):
            window = self.slice(start, end)  # same normalisation as the program's own x[start:end]
            has = window.sym_contains(bytes(sub))
            c.add(tbool(has) == (r.t != -1) if not isinstance(has, bool) else ((r.t != -1) == has))
            # a hit is a hit: the bytes at the reported position are the needle
            if sub and not self.is_concrete():
                c.add(z3.Implies(r.t != -1, z3.And(*[self._byte_term(r.t + j) == ch for j, ch in enumerate(bytes(sub))])))
        return r

    # -- content predicates (uninterpreted, keyed by the provenance of the bytes) ---------------------------------
    def _sig(self):
        parts = []
        for s in self.segs:
            if s.src is None:
                parts.append(("c", s.data))
            else:
                parts.append((s.src.name, z3.simplify(tint(s.lo)).sexpr(), z3.simplify(tint(s.n)).sexpr()))
        return tuple(parts)

    def pred(self, name, *args):
        """functional uninterpreted predicate on the content: same provenance + same arguments -> same answer.
        Exact for concrete ropes via `exact` callables registered by the callers."""
        c = ctx()
        cache = getattr(c, "_rope_preds", None)
        if cache is None:
            cache = c._rope_preds = {}
        key = (name, args, self._sig())
        if key not in cache:
            cache[key] = fresh_bool(f"{name}", register=False)
        return cache[key]

    def sym_contains(self, needle):
        if isinstance(needle, (bytes, bytearray)):
            if self.is_concrete():
                return bytes(needle) in self.concrete()
            b = self.pred("contains", bytes(needle))
            # a needle cannot occur in fewer bytes than its own length
            ctx().add(z3.Implies(tbool(b), tint(self.length()) >= len(needle)))
            if len(needle) == 1 and self.segs:
                # link the (otherwise uninterpreted) predicate to the bytes at the two ends: a one-byte needle that is
                # the first or the last byte is contained; a one-byte text contains only its own byte
                n = tint(self.length())
                first, last = self._byte_term(0), self._byte_term(n - 1)
                ctx().add(z3.Implies(z3.And(n >= 1, z3.Or(first == needle[0], last == needle[0])), tbool(b)))
                ctx().add(z3.Implies(z3.And(n == 1, tbool(b)), first == needle[0]))
            return b
        if isinstance(needle, int):
            return self.pred("contains_byte", needle)
        raise Unsupported(f"{type(needle).__name__} in symbolic bytes")

    def startswith(self, prefix, start=None, end=None):
        if end is not None:
            raise Unsupported("startswith(..., end)")
        base = self if start is None else self.slice(start, None)
        prefixes = prefix if isinstance(prefix, tuple) else (prefix,)
        alts = []
        for pf in prefixes:
            if not isinstance(pf, (bytes, bytearray)):
                raise Unsupported("startswith(symbolic)")
            conj = [tint(base.length()) >= len(pf)]
            for j, ch in enumerate(pf):
                conj.append(base._byte_term(j) == ch)
            alts.append(z3.And(*conj))
        return mk_bool(z3.Or(*alts) if len(alts) != 1 else alts[0])

    def lstrip(self, chars=None):
        """the result is the suffix from k on; facts: the first and the last stripped byte are in `chars`, the first
        kept byte is not (the bytes in between are only known through these end points)"""
        cs = bytes(chars) if chars is not None else b" \t\n\r\x0b\x0c"
        k = fresh_int("lstrip.len", register=False)
        c = ctx()
        n = tint(self.length())
        c.add(z3.And(k.t >= 0, k.t <= n))
        member = lambda t: z3.Or(*[t == ch for ch in cs]) if cs else z3.BoolVal(False)
        if not z3.is_int_value(z3.simplify(n)) or z3.simplify(n).as_long() > 0:
            c.add(z3.Implies(k.t > 0, z3.And(member(self._byte_term(0)), member(self._byte_term(k.t - 1)))))
            c.add(z3.Implies(k.t < n, z3.Not(member(self._byte_term(k.t)))))
        return self.slice(k, None)

    def endswith(self, suffix, *a):
        if a or not isinstance(suffix, (bytes, bytearray)):
            raise Unsupported("endswith(range / symbolic)")
        k = len(suffix)
        n = tint(self.length())
        conj = [n >= k]
        for j, ch in enumerate(suffix):
            conj.append(self._byte_term(n - k + j) == ch)
        return mk_bool(z3.And(*conj))

    def rstrip(self, chars=None):
        """positional model: the result is a prefix of self (content of the stripped part is not modelled)"""
        k = fresh_int("rstrip.len", register=False)
        c = ctx()
        c.add(z3.And(k.t >= 0, k.t <= tint(self.length())))
        return self.slice(0, k)

    def strip(self, chars=None):
        a = fresh_int("strip.lo", register=False)
        b = fresh_int("strip.hi", register=False)
        c = ctx()
        c.add(z3.And(a.t >= 0, a.t <= b.t, b.t <= tint(self.length())))
        return self.slice(a, b)

    def removesuffix(self, suffix):
        suffix = bytes(suffix)
        k = len(suffix)
        if k == 0:
            return self
        n = tint(self.length())
        conj = [n >= k]
        for j, ch in enumerate(suffix):
            conj.append(self._byte_term(n - k + j) == ch)
        if ctx().branch(z3.And(*conj), "removesuffix.match"):
            return self.slice(0, mk_int(n - k))
        return self

    def decode(self, encoding="utf-8", errors="strict"):
        from . import stubs

        return stubs.bytes_decode(self, encoding, errors)


_CONST_SRCS: dict[bytes, Src] = {}


def _const_src(data: bytes) -> Src:
    s = _CONST_SRCS.get(data)
    if s is None:
        s = Src(f"const{len(_CONST_SRCS)}", z3.IntVal(len(data)))
        arr = z3.K(IntSort, z3.IntVal(0))
        for j, ch in enumerate(data):
            arr = z3.Store(arr, j, ch)
        s.arr = arr
        _CONST_SRCS[data] = s
    return s


# ---------------------------------------------------------------------------
# abstract sequences (list / deque) of byte strings with additive length summary


class SSeq:
    """list/deque with a symbolic prefix summarised by (count, total length) and a
    concrete suffix of appended elements.  Element invariant: optional predicate on
    element length (e.g. every buffered piece non-empty)."""

    def __init__(self, name, count, total, nonempty_elems=False, kind=list, elem="bytes"):
        self.name = name
        self.count = count  # z3 Int term: number of summarised (unknown) elements
        self.total = total  # z3 Int term: sum of their lengths
        self.tail: list = []  # appended concrete proxies (in order)
        self.head: list = []  # appendleft-ed elements (in order, leftmost first)
        self.nonempty = nonempty_elems
        self.kind = kind
        # optional ghost provenance of the summarised part: its concatenation is
        # prov_src[prov_lo : prov_lo + total] (consecutive pieces of one stream)
        self.prov_src = None
        self.prov_lo = None

    def with_prov(self, src, lo):
        self.prov_src = src
        self.prov_lo = tint(lo)
        return self

    def first_len(self):
        """ghost: length of element 0 (caller guarantees the sequence is non-empty).  For the summarised
        part it is a variable tied to the element that popleft()/[0] will later materialise."""
        if self.head:
            return blen(self.head[0])
        k = getattr(self, "_first_len_ghost", None)
        if k is None:
            k = z3.FreshInt(f"{self.name}.first_len")
            self._first_len_ghost = k
            c = ctx()
            lo = 1 if self.nonempty else 0
            c.add(z3.Implies(self.count > 0, z3.And(k >= lo, k <= self.total - lo * (self.count - 1))))
            c.add(z3.Implies(self.count == 1, k == self.total))
        if self.tail:
            return Ite(mk_bool(self.count > 0), mk_int(k), blen(self.tail[0]))
        return mk_int(k)

    def covers(self, src, lo, hi):
        """term: the concatenation of all elements is exactly src[lo:hi] by provenance"""
        cur = tint(lo)
        conj = []
        for e in self.head:
            n = tint(blen(e))
            conj.append(tbool(SBytes.of(e).is_slice_of(src, cur, cur + n)))
            cur = cur + n
        if self.prov_src is src:
            conj.append(z3.Or(self.total == 0, self.prov_lo == cur))
        else:
            conj.append(self.total == 0)
        cur = cur + self.total
        for e in self.tail:
            n = tint(blen(e))
            conj.append(tbool(SBytes.of(e).is_slice_of(src, cur, cur + n)))
            cur = cur + n
        conj.append(cur == tint(hi))
        return And(*conj)

    @staticmethod
    def fresh(name, nonempty_elems=False, kind=list):
        c = ctx()
        name = c.fresh_name(name)
        cnt = z3.Int(f"{name}.count")
        tot = z3.Int(f"{name}.total")
        c.add(cnt >= 0)
        c.add(tot >= 0)
        if nonempty_elems:
            c.add(tot >= cnt)
        c.add(z3.Implies(cnt == 0, tot == 0))
        v = SSeq(name, cnt, tot, nonempty_elems, kind)
        c.inputs[name] = v
        return v

    def length(self):
        return mk_int(self.count + len(self.tail) + len(self.head))

    def total_len(self):
        t = self.total
        for e in self.head + self.tail:
            t = t + tint(blen(e))
        return mk_int(t)

    def __bool__(self):
        n = self.length()
        if isinstance(n, int):
            return n != 0
        return ctx().branch(n.t != 0)

    def __len__(self):
        n = self.length()
        if isinstance(n, int):
            return n
        raise Unsupported("len() of symbolic sequence natively")

    def append(self, x):
        self.tail.append(x)

    def appendleft(self, x):
        self.head.insert(0, x)

    def clear(self):
        self.count = z3.IntVal(0)
        self.total = z3.IntVal(0)
        self.tail = []
        self.head = []

    def _take_summarised(self, label):
        """remove one element from the summarised part (front); caller guarantees count > 0"""
        c = ctx()
        k = getattr(self, "_first_len_ghost", None)
        self._first_len_ghost = None
        if self.prov_src is not None:
            if k is None:
                k = z3.FreshInt(f"{self.name}.elem.len")
            c.add(k >= 0)
            e = SBytes([Seg(self.prov_src, self.prov_lo, k)])
            self.prov_lo = z3.simplify(self.prov_lo + k)
        else:
            e = SBytes.fresh(f"{self.name}.elem", register=False)
            if k is not None:
                c.add(tint(e.length()) == k)
        n = tint(e.length())
        newc = z3.FreshInt(f"{self.name}.count")
        newt = z3.FreshInt(f"{self.name}.total")
        c.add(newc == self.count - 1)
        c.add(newt == self.total - n)
        c.add(newt >= 0)
        if self.nonempty:
            c.add(n >= 1)
            c.add(newt >= newc)
        c.add(z3.Implies(newc == 0, newt == 0))
        self.count, self.total = newc, newt
        return e

    def popleft(self):
        if self.head:
            return self.head.pop(0)
        c = ctx()
        if c.branch(self.count > 0, f"{self.name}.has_summarised"):
            return self._take_summarised("popleft")
        if self.tail:
            return self.tail.pop(0)
        raise IndexError("pop from an empty deque")

    def first(self):
        """peek element 0 (returns the proxy; a summarised element is materialised)"""
        if self.head:
            return self.head[0]
        c = ctx()
        if c.branch(self.count > 0, f"{self.name}.has_summarised"):
            e = self._take_summarised("peek")
            self.head.insert(0, e)
            return e
        if self.tail:
            return self.tail[0]
        raise IndexError("index out of range")

    def __getitem__(self, i):
        if isinstance(i, int) and i == 0:
            return self.first()
        if isinstance(i, int) and i == -1:
            if self.tail:
                return self.tail[-1]
            raise Unsupported("seq[-1] on summarised part")
        raise Unsupported(f"SSeq index {i!r}")

    def __setitem__(self, i, v):
        if isinstance(i, int) and i == 0:
            self.first()
            if self.head:
                self.head[0] = v
            else:
                self.tail[0] = v
            return
        raise Unsupported(f"SSeq setitem {i!r}")

    def join(self, sep=b""):
        if sep not in (b"", bytearray()):
            raise Unsupported("join with separator")
        c = ctx()
        segs = [x for e in self.head for x in SBytes.of(e).segs]
        if self.prov_src is not None:
            segs.append(Seg(self.prov_src, self.prov_lo, self.total))
        else:
            s = Src(c.fresh_name(f"{self.name}.joined"), self.total)
            segs.append(Seg(s, z3.IntVal(0), self.total))
        for e in self.tail:
            segs += SBytes.of(e).segs
        return SBytes(segs, bytes)

    def concretize(self, m):
        cnt = m.eval(self.count, model_completion=True).as_long()
        tot = m.eval(self.total, model_completion=True).as_long()
        if cnt > 4096 or tot > (1 << 24):
            # a model with millions of elements / bytes is not materialised (a worker once grew to 19 GB doing so)
            return {"__seq_summary__": {"count": cnt, "total_bytes": tot, "appended": len(self.tail)}}
        out = []
        lo = 1 if self.nonempty else 0
        rem = tot
        for k in range(cnt):
            n = rem - lo * (cnt - k - 1) if k == cnt - 1 else lo
            if k == cnt - 1:
                n = rem
            out.append(b"x" * max(0, n))
            rem -= max(0, n)
        from .core import concretize as cz

        return [cz(e, m) for e in self.head] + out + [cz(e, m) for e in self.tail]


class SIncSeq:
    """deque of strictly increasing ints (e.g. chunk split offsets): symbolic prefix summarised by
    (count, first, last) + concrete appended tail"""

    def __init__(self, name, count, first, last):
        self.name = name
        self.count = count
        self.first = first
        self.last = last
        self.tail: list = []

    @staticmethod
    def fresh(name):
        c = ctx()
        name = c.fresh_name(name)
        v = SIncSeq(name, z3.Int(f"{name}.count"), z3.Int(f"{name}.first"), z3.Int(f"{name}.last"))
        v._wf()
        c.inputs[name] = v
        return v

    def _wf(self):
        c = ctx()
        c.add(self.count >= 0)
        c.add(z3.Implies(self.count == 1, self.first == self.last))
        # strictly increasing ints: count elements between first and last
        c.add(z3.Implies(self.count >= 2, self.last - self.first >= self.count - 1))

    def length(self):
        return mk_int(self.count + len(self.tail))

    sym_len = length

    def __bool__(self):
        n = self.length()
        return n != 0 if isinstance(n, int) else ctx().branch(n.t != 0)

    def min_term(self):
        """first element (caller guarantees non-empty)"""
        if self.tail:
            return Ite(mk_bool(self.count > 0), mk_int(self.first), self.tail[0])
        return mk_int(self.first)

    def max_term(self):
        if self.tail:
            return self.tail[-1]
        return mk_int(self.last)

    def all_between(self, lo, hi):
        """term: every element e satisfies lo <= e <= hi (uses monotonicity)"""
        conj = [z3.Implies(self.count > 0, z3.And(tint(lo) <= self.first, self.last <= tint(hi)))]
        for e in self.tail:
            conj.append(z3.And(tint(lo) <= tint(e), tint(e) <= tint(hi)))
        return And(*conj)

    def increasing(self):
        conj = []
        prev = None
        for e in self.tail:
            if prev is None:
                conj.append(z3.Implies(self.count > 0, self.last < tint(e)))
            else:
                conj.append(tint(prev) < tint(e))
            prev = e
        return And(*conj)

    def append(self, x):
        self.tail.append(x)

    def popleft(self):
        c = ctx()
        if c.branch(self.count > 0, f"{self.name}.has_summarised"):
            v = mk_int(self.first)
            nc = z3.FreshInt(f"{self.name}.count")
            nf = z3.FreshInt(f"{self.name}.first")
            c.add(nc == self.count - 1)
            c.add(z3.Implies(nc > 0, z3.And(nf > self.first, nf <= self.last)))
            old_first = self.first
            self.count, self.first = nc, nf
            self._wf()
            return v
        if self.tail:
            return self.tail.pop(0)
        raise IndexError("pop from an empty deque")

    def __getitem__(self, i):
        c = ctx()
        if isinstance(i, int) and i == 0:
            if c.branch(self.count > 0, f"{self.name}.has_summarised"):
                return mk_int(self.first)
            if self.tail:
                return self.tail[0]
            raise IndexError("deque index out of range")
        if isinstance(i, int) and i == -1:
            if self.tail:
                return self.tail[-1]
            if c.branch(self.count > 0, f"{self.name}.has_summarised"):
                return mk_int(self.last)
            raise IndexError("deque index out of range")
        raise Unsupported(f"SIncSeq index {i!r}")

    sym_getitem = __getitem__

    def clear(self):
        self.count = z3.IntVal(0)
        self.tail = []

    def concretize(self, m):
        from .core import concretize as cz

        cnt = m.eval(self.count, model_completion=True).as_long()
        f = m.eval(self.first, model_completion=True).as_long()
        l = m.eval(self.last, model_completion=True).as_long()
        pre = [] if cnt <= 0 else [f] if cnt == 1 else [f + k for k in range(cnt - 1)] + [l]
        return pre + [cz(e, m) for e in self.tail]


def blen(x):
    if isinstance(x, (SBytes, SSeq, SIncSeq)):
        return x.length()
    if hasattr(x, "sym_len"):
        return x.sym_len()
    return len(x)


# ---------------------------------------------------------------------------
# objects


class SObj:
    """symbolic object: named fields holding proxies, methods supplied by the unit"""

    def __init__(self, clsname, fields=None, methods=None, const=()):
        object.__setattr__(self, "_o_cls", clsname)
        object.__setattr__(self, "_o_fields", dict(fields or {}))
        object.__setattr__(self, "_o_methods", dict(methods or {}))
        object.__setattr__(self, "_o_const", set(const))
        object.__setattr__(self, "_o_stores", [])

    def __getattr__(self, name):
        f = object.__getattribute__(self, "_o_fields")
        if name in f:
            return f[name]
        m = object.__getattribute__(self, "_o_methods")
        if name in m:
            fn = m[name]
            return lambda *a, **k: fn(self, *a, **k)
        if "prop." + name in m:
            return m["prop." + name](self)
        if name.startswith("sym_") or name.startswith("__"):
            raise AttributeError(name)
        # a method / property the sidecar does not name, but which the REAL class defines (e.g. a helper that a
        # refactoring split off): use its real text, instrumented like the function under contract
        real = None
        try:
            real = object.__getattribute__(self, "_o_real")
        except AttributeError:
            pass
        if real is not None and has_ctx():
            import importlib
            import inspect

            mod, clsname = real
            cls = getattr(importlib.import_module(mod), clsname, None)
            attr = inspect.getattr_static(cls, name, None) if cls is not None else None
            owner = next((k for k in (cls.__mro__ if cls is not None else ()) if name in vars(k)), None)
            if attr is None and owner is not None:
                return None  # a class-level default that is None (e.g. `_continue = None`)
            if attr is not None and owner is not None and (inspect.isfunction(attr) or isinstance(attr, property)):
                u_ = getattr(ctx(), "unit", None)
                if u_ is not None:
                    fn = u_.load(owner.__module__, f"{owner.__qualname__}.{name}")
                    if isinstance(attr, property):
                        return fn(self)
                    return lambda *a, **k: fn(self, *a, **k)
            if attr is not None and owner is not None and not hasattr(attr, "__get__"):
                return attr  # a class-level constant (compiled regex, default value, ...)
        raise Unsupported(f"unmodelled attribute {object.__getattribute__(self, '_o_cls')}.{name}")

    def __setattr__(self, name, v):
        if name in object.__getattribute__(self, "_o_const"):
            if has_ctx():
                ctx().check(f"frame.const.{object.__getattribute__(self, '_o_cls')}.{name}", False,
                            "assignment to a field declared constant", kind="frame")
        object.__getattribute__(self, "_o_stores").append(name)
        object.__getattribute__(self, "_o_fields")[name] = v

    def __repr__(self):
        return f"<SObj {object.__getattribute__(self, '_o_cls')}>"

    def __bool__(self):
        return True

    def __hash__(self):
        return id(self)

    def __eq__(self, o):
        return self is o

    def concretize(self, m):
        from .core import concretize as cz

        return {k: cz(v, m) for k, v in object.__getattribute__(self, "_o_fields").items()}


def fields(o: SObj) -> dict:
    return object.__getattribute__(o, "_o_fields")


def methods(o: SObj) -> dict:
    return object.__getattribute__(o, "_o_methods")


# ---------------------------------------------------------------------------
# fresh inputs


def fresh_int(name, lo=None, hi=None, register=True):
    c = ctx()
    name = c.fresh_name(name)
    t = z3.Int(name)
    if lo is not None:
        c.add(t >= lo)
    if hi is not None:
        c.add(t <= hi)
    v = SInt(t)
    if register:
        c.inputs[name] = v
    return v


def fresh_bool(name, register=True):
    c = ctx()
    name = c.fresh_name(name)
    v = SBool(z3.Bool(name))
    if register:
        c.inputs[name] = v
    return v


def fresh_real(name, register=True):
    c = ctx()
    name = c.fresh_name(name)
    v = SReal(z3.Real(name))
    if register:
        c.inputs[name] = v
    return v


class SList:
    """generic abstract list: `count` unknown earlier elements (summary) + elements appended since; enough for
    append / len / truthiness / [-1] of a just-appended element / clear"""

    _pyvc_sym = True

    def __init__(self, name, count=None):
        self.name = name
        if count is None:
            count = fresh_int(name + ".count", 0, register=False)
        self.count = count
        self.new = []

    def append(self, x):
        self.new.append(x)

    def sym_len(self):
        return self.count + len(self.new)

    def sym_getitem(self, i):
        if isinstance(i, int) and i < 0 and -i <= len(self.new):
            return self.new[i]
        raise Unsupported(f"SList[{i!r}] on the summarised part")

    def clear(self):
        self.count = 0
        self.new = []

    def __bool__(self):
        n = self.sym_len()
        return n != 0 if isinstance(n, int) else ctx().branch(tint(n) != 0, f"{self.name}.nonempty")

    def concretize(self, m):
        from .core import concretize as cz

        return {"earlier": cz(self.count, m), "appended": [cz(e, m) for e in self.new]}


def fresh_like(name, v):
    """a fresh unconstrained value of the same shape as v (used by loop havoc)"""
    if isinstance(v, (list, SList)):
        return SList(name)
    if isinstance(v, (SBool, bool)):
        return fresh_bool(name, register=False)
    if isinstance(v, (SInt, int)):
        return fresh_int(name, register=False)
    if isinstance(v, (SReal, float)):
        return fresh_real(name, register=False)
    if isinstance(v, SBytes):
        return SBytes.fresh(name, v.kind, register=False)
    if isinstance(v, (bytes, bytearray)):
        return SBytes.fresh(name, type(v), register=False)
    if isinstance(v, SSeq):
        c = ctx()
        nm = c.fresh_name(name)
        s = SSeq(nm, z3.Int(f"{nm}.count"), z3.Int(f"{nm}.total"), v.nonempty, v.kind)
        c.add(s.count >= 0)
        c.add(s.total >= 0)
        if v.nonempty:
            c.add(s.total >= s.count)
        c.add(z3.Implies(s.count == 0, s.total == 0))
        return s
    raise Unsupported(f"cannot havoc value of type {type(v).__name__} ({name}); declare it in the loop spec")


# ---------------------------------------------------------------------------
# Optional[...] values: None-ness is a symbolic boolean (no fork until used)


class SOpt:
    def __init__(self, isnone, val):
        object.__setattr__(self, "_isnone", tbool(isnone))
        object.__setattr__(self, "_val", val)

    @staticmethod
    def fresh(name, val_factory):
        b = fresh_bool(name + ".isnone", register=False)
        o = SOpt(b, val_factory(name))
        ctx().inputs[ctx().fresh_name(name)] = o
        return o

    def sym_is(self, other):
        if other is None:
            return mk_bool(object.__getattribute__(self, "_isnone"))
        return False

    def _force(self):
        """fork on None-ness; returns the value or None"""
        if ctx().branch(object.__getattribute__(self, "_isnone"), "opt.isnone"):
            return None
        return object.__getattribute__(self, "_val")

    def get(self):
        return self._force()

    def __bool__(self):
        v = self._force()
        return bool(v) if v is not None else False

    def __getattr__(self, name):
        v = self._force()
        return getattr(v, name)

    def sym_getitem(self, i):
        v = self._force()
        if v is None:
            raise TypeError("'NoneType' object is not subscriptable")
        return v[i]

    def sym_len(self):
        v = self._force()
        if v is None:
            raise TypeError("object of type 'NoneType' has no len()")
        return blen(v)

    def __repr__(self):
        return f"SOpt({object.__getattribute__(self, '_isnone')}, {object.__getattribute__(self, '_val')!r})"

    def __hash__(self):
        return id(self)

    def concretize(self, m):
        from .core import concretize as cz

        isn = object.__getattribute__(self, "_isnone")
        if isinstance(isn, bool):
            none = isn
        else:
            none = z3.is_true(m.eval(isn, model_completion=True))
        return None if none else cz(object.__getattribute__(self, "_val"), m)


def is_none(x):
    """None-test usable in contracts for both SOpt and real values"""
    if isinstance(x, SOpt):
        return x.sym_is(None)
    return x is None
