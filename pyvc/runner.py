"""Parallel driver: explores every unit of a property, aggregates obligations, applies the
second back end to undecided queries, matches known findings, replays counterexamples, writes
evidence and prints the VIOLATION / KNOWN-FINDING protocol lines."""
from __future__ import annotations

import collections
import concurrent.futures as cf
import hashlib
import importlib
import json
import os
import subprocess
import sys
import tempfile
import time
import traceback

ROOT = os.path.dirname(os.path.dirname(os.path.abspath(__file__)))

# which contract modules serve which property
PROP_MODULES = {
    "C12": ["c12"],
    "C11": ["c11", "c12"],
    "C15": ["c15"],
    "C08": ["c08"],
    "C07": ["c07"],
    "C04": ["c04", "c02"],
    "C01": ["c01", "c03"],
    "C03": ["c03"],
    "C10": ["c01", "c03", "c10"],
    "C16": ["c16"],
    "C20": ["c20", "c05"],
    "C14": ["c14"],
    "C17": ["c17"],
    "C13": ["c13", "c11"],
    "C06": ["c06"],
    "C05": ["c05", "c03"],
    "C09": ["c03", "c09"],
    "C02": ["c01", "c03", "c05", "c02"],
    "C19": ["c19", "c09"],
    "C18": ["c18", "c07", "c06", "c17", "c13"],
}


def jsonable(x):
    if isinstance(x, (bytes, bytearray)):
        return {"__bytes__": bytes(x).hex()}
    if isinstance(x, dict):
        return {str(k): jsonable(v) for k, v in x.items()}
    if isinstance(x, (list, tuple, set, frozenset)):
        return [jsonable(v) for v in x]
    if isinstance(x, (int, float, str, bool)) or x is None:
        return x if not isinstance(x, int) or isinstance(x, bool) else int(x)
    return repr(x)


def _load_modules(prop):
    sys.path.insert(0, ROOT) if ROOT not in sys.path else None
    for m in PROP_MODULES.get(prop, []):
        importlib.import_module(f"contracts.{m}")


def _worker(args):
    """explore a bounded part of the subtree rooted at `prefix`; return results + pending prefixes"""
    prop, unit_name, prefix, budget, timeout_ms = args
    os.environ.setdefault("PYTHONHASHSEED", "0")
    try:
        _load_modules(prop)
        from . import core, stubs
        from .registry import UNITS
        from .unit import U

        core.load_known_ids()

        d = UNITS[unit_name]
        work = [prefix]
        out_paths = []
        errors = []
        infos = {}
        t0 = time.time()
        while work and len(out_paths) < budget:
            pre = work.pop()
            c = core.Ctx(pre, d.timeout_ms or timeout_ms)
            core._CTX = c
            rec = {"trace": None, "obls": [], "outcome": "", "error": "", "solver_secs": 0.0, "queries": 0,
                   "covers": [], "arms": []}
            try:
                u = U(c)
                try:
                    d.fn(u)
                    rec["outcome"] = "end"
                finally:
                    for fid, info in u.fn_infos.items():
                        infos[fid] = {"module": info.module, "qualname": info.qualname, "sha256": info.sha256,
                                      "lineno": info.lineno, "loops": len(info.loops), "awaits": len(info.awaits),
                                      "file": info.file, "arms": list(info.arms)}
            except core.Infeasible:
                rec["outcome"] = "infeasible"
            except core.PathEnd:
                rec["outcome"] = "end"
            except BaseException as e:  # noqa: BLE001
                rec["outcome"] = "error"
                rec["error"] = f"{type(e).__name__}: {e}\n" + "".join(traceback.format_exc(limit=14))
                errors.append(rec["error"])
            finally:
                core._CTX = None
            rec["trace"] = list(c.trace)
            rec["obls"] = [jsonable(o.to_json()) for o in c.obls]
            rec["solver_secs"] = c.solver_secs
            rec["queries"] = c.n_queries
            rec["covers"] = sorted(c.covers)
            if c.marks and rec["outcome"] == "end":
                # arms of the real text entered on this path count only if the path is still satisfiable at its end
                try:
                    if c._check() != core.z3.unsat:
                        rec["arms"] = sorted(c.marks)
                except Exception:  # noqa: BLE001 - bookkeeping only
                    rec["arms"] = sorted(c.marks)
            out_paths.append(rec)
            work.extend(c.alternatives)
        return {"unit": unit_name, "paths": out_paths, "pending": work, "errors": errors, "infos": infos,
                "assumed": sorted(stubs.USED), "secs": time.time() - t0}
    except BaseException as e:  # noqa: BLE001
        return {"unit": unit_name, "paths": [], "pending": [], "infos": {}, "assumed": [],
                "errors": [f"worker crash {type(e).__name__}: {e}\n{traceback.format_exc(limit=14)}"], "secs": 0.0}


def _second_backend(smt2: str, timeout_s: int):
    """re-pose an undecided query to cvc5 and to the system z3 (4.8); returns ('unsat'|'sat'|'unknown', solver)"""
    for cmd, name in ((["/usr/bin/cvc5", "--strings-exp", f"--tlimit={timeout_s * 1000}"], "cvc5"),
                      (["/usr/bin/z3", f"-T:{timeout_s}", "-in"], "z3-4.8")):
        try:
            with tempfile.NamedTemporaryFile("w", suffix=".smt2", delete=False) as f:
                if "(set-logic" not in smt2:
                    f.write("(set-logic ALL)\n")
                f.write(smt2)
                if "(check-sat)" not in smt2:
                    f.write("\n(check-sat)\n")
                path = f.name
            args = cmd[:-1] + [path] if cmd[-1] == "-in" else cmd + [path]
            r = subprocess.run(args, stdout=subprocess.PIPE, stderr=subprocess.STDOUT, text=True, timeout=timeout_s + 5)
            first = (r.stdout.strip().splitlines() or [""])[0].strip()
            os.unlink(path)
            if first in ("unsat", "sat"):
                return first, name
        except Exception:  # noqa: BLE001
            pass
    return "unknown", ""


class PropertyRun:
    def __init__(self, prop, tier, jobs, seed):
        self.prop = prop
        self.tier = tier
        self.jobs = jobs
        self.seed = seed
        self.timeout_ms = 10000 if tier == "quick" else 60000
        self.results = {}  # unit -> aggregated
        self.t0 = time.time()

    def run(self, only=None):
        _load_modules(self.prop)
        from .registry import UNITS

        units = [d for d in UNITS.values()
                 if (d.prop == self.prop or (self.prop in getattr(d, "also", ()) and d.expect != "canary"))
                 and (self.tier == "thorough" or d.tier == "quick")]
        if only:
            units = [d for d in units if any(o in d.name for o in only)]
        agg = {d.name: {"decl": d, "paths": [], "errors": [], "infos": {}, "assumed": set(), "secs": 0.0,
                        "capped": False} for d in units}
        budget = 25
        with cf.ProcessPoolExecutor(max_workers=self.jobs) as ex:
            futs = {}
            for d in units:
                futs[ex.submit(_worker, (self.prop, d.name, [], budget, self.timeout_ms))] = d.name
            while futs:
                done, _ = cf.wait(list(futs), return_when=cf.FIRST_COMPLETED)
                for fu in done:
                    name = futs.pop(fu)
                    r = fu.result()
                    a = agg[name]
                    a["paths"].extend(r["paths"])
                    a["errors"].extend(r["errors"])
                    a["infos"].update(r["infos"])
                    a["assumed"].update(r["assumed"])
                    a["secs"] += r["secs"]
                    if len(a["paths"]) > a["decl"].max_paths:
                        a["capped"] = True
                        a["errors"].append(f"path cap {a['decl'].max_paths} exceeded")
                        continue
                    for pre in r["pending"]:
                        futs[ex.submit(_worker, (self.prop, name, pre, budget, self.timeout_ms))] = name
        self.results = agg
        return agg


def summarize(agg):
    """per unit: obligations by name"""
    out = {}
    for name, a in agg.items():
        by = collections.OrderedDict()
        for p in a["paths"]:
            for o in p["obls"]:
                e = by.setdefault(o["name"], {"discharged": 0, "refuted": 0, "undecided": 0, "known": 0, "secs": 0.0, "kind": o["kind"],
                                              "examples": [], "detail": o["detail"], "solvers": collections.Counter()})
                e[o["verdict"]] += 1
                e["secs"] += o["secs"]
                e["solvers"][o["solver"]] += 1
                # the cap is per verdict: three instances of a listed finding must not crowd out a different refutation
                if o["verdict"] == "undecided" or (o["verdict"] != "discharged"
                                                   and sum(1 for x in e["examples"] if x["verdict"] == o["verdict"]) < 3):
                    e["examples"].append(o)
        out[name] = by
    return out
