"""Run-time support object ``__vc`` used by instrumented code."""
from __future__ import annotations

import z3

from . import stubs
from .core import EngineError, Infeasible, PathEnd, Unsupported, ctx
from .values import (And, Ite, Not, Or, SBool, SBytes, SInt, SObj, SReal, SSeq, fresh_like, is_sym, mk_bool,
                     mk_int, register_fmt, tbool, tint)


class LoopSpec:
    def __init__(self, inv=None, variant=None, havoc=None, types=None, keep=(), unroll=False, name=None,
                 havoc_heap=True, bound=None, at_head=None, at_back=None, first_iteration=False, stale_locals=False):
        self.stale_locals = stale_locals
        # first_iteration: execute ONE iteration from the actual entry state (no havoc, no invariant);
        # the path ends at the back edge.  Used for single-step lemmas (e.g. one whole frame).
        self.first_iteration = first_iteration
        self.at_head = at_head
        self.at_back = at_back
        self.inv = inv  # callable(L) -> cond | list[(name, cond)]
        self.variant = variant  # callable(L) -> int term
        self.havoc = havoc  # optional callable(L): custom heap havoc
        self.types = types or {}  # var -> factory(name) for havoc
        self.keep = set(keep)  # locals not havocked although assigned (must be justified in the unit)
        self.unroll = unroll
        self.name = name
        self.havoc_heap = havoc_heap
        self.bound = bound


def _hook(fn, arg, what):
    """run a callback of the sidecar contract (invariant, havoc, variant, at_head / at_back).  A contract that names a
    local the code no longer has (renamed, removed) is a contract that does not fit the code - a checker fault (exit 3),
    never a verdict about the code: without this a KeyError raised HERE surfaced as 'the function raised KeyError'."""
    try:
        return fn(arg)
    except (KeyError, NameError, IndexError) as e:
        raise EngineError(f"contract callback '{what}' does not fit the code under contract "
                          f"(a local it names is gone or renamed?): {type(e).__name__}: {e}") from e


def _inv_items(spec, L):
    if spec is None or spec.inv is None:
        return []
    r = _hook(spec.inv, L, "inv")
    if isinstance(r, (list, tuple)):
        return list(r)
    return [("inv", r)]


class _NativeIter:
    def __init__(self, it):
        self.it = it

    def __iter__(self):
        return iter(self.it)


class _Susp:
    """awaitable yielded to the coroutine driver"""

    def __init__(self, site, awaited, fn):
        self.site = site
        self.awaited = awaited
        self.fn = fn

    def __await__(self):
        r = yield self
        return r


class VCRuntime:
    def __init__(self, fn_id: str = ""):
        self.fn_id = fn_id

    # -- unit lookup ------------------------------------------------------
    def _unit(self):
        u = getattr(ctx(), "unit", None)
        if u is None:
            raise EngineError("no unit bound to context")
        return u

    def _spec(self, k) -> LoopSpec | None:
        u = self._unit()
        return u.loop_specs.get((self.fn_id, k)) or u.loop_specs.get(k) or getattr(u, "default_loop_spec", None)

    # -- reachability record ---------------------------------------------------
    def mark(self, arm):
        c = ctx()
        if c is not None:
            c.marks.add(f"{self.fn_id}@{arm}")

    # -- builtins -----------------------------------------------------------
    def b_len(self, x):
        if isinstance(x, (SBytes, SSeq)):
            return x.length()
        if hasattr(x, "sym_len"):
            return x.sym_len()
        return len(x)

    def b_int(self, x=0, base=10):
        if isinstance(x, SInt):
            return x
        if isinstance(x, SBool):
            return mk_int(tint(x))
        if isinstance(x, SReal):
            raise Unsupported("int(real)")
        if hasattr(x, "sym_int"):
            return x.sym_int(base)
        if is_sym(x):
            return stubs.int_parse(x, base)
        return int(x, base) if isinstance(x, (str, bytes, bytearray)) else int(x)

    def b_float(self, x=0.0):
        if isinstance(x, (SInt, SReal)):
            return SReal.of(x)
        return float(x)

    def b_bool(self, x=False):
        if is_sym(x):
            return mk_bool(tbool(x))
        return bool(x)

    def b_bytes(self, *a):
        if len(a) == 1 and isinstance(a[0], SBytes):
            return a[0].copy_as(bytes)
        if len(a) == 1 and isinstance(a[0], (bytes, bytearray)):
            return bytes(a[0])
        if len(a) == 1 and hasattr(a[0], "sym_type") and a[0].sym_type() is bytes:
            return a[0]
        if a and is_sym(a[0]):
            raise Unsupported(f"bytes({type(a[0]).__name__})")
        return bytes(*a)

    def b_bytearray(self, *a):
        if not a:
            return SBytes([], bytearray)
        if len(a) == 1 and isinstance(a[0], (SBytes, bytes, bytearray)):
            return SBytes.of(a[0]).copy_as(bytearray)
        if is_sym(a[0]):
            raise Unsupported(f"bytearray({type(a[0]).__name__})")
        return bytearray(*a)

    def b_isinstance(self, x, t):
        import builtins as _b

        def real(c):
            # a builtin type name that the instrumenter routed through the proxy algebra (str -> __vc.b_str ...)
            if isinstance(getattr(c, "__self__", None), VCRuntime) and getattr(c, "__name__", "").startswith("b_"):
                return getattr(_b, c.__name__[2:])
            return c

        t = tuple(real(c) for c in t) if isinstance(t, tuple) else real(t)
        ts = t if isinstance(t, tuple) else (t,)
        if isinstance(x, SBool):
            return any(c in (bool, int, object) for c in ts)
        if isinstance(x, SInt):
            return any(c in (int, object) for c in ts)
        if isinstance(x, SReal):
            return any(c in (float, object) for c in ts)
        if isinstance(x, SBytes):
            return any(c is x.kind or c is object for c in ts)
        if isinstance(x, SObj):
            rc = object.__getattribute__(x, "_o_real_cls") if hasattr(x, "_o_real_cls") else None
            if rc is not None:
                return issubclass(rc, ts)
            nm = object.__getattribute__(x, "_o_cls")
            return any(getattr(c, "__name__", None) == nm for c in ts)
        if hasattr(x, "sym_isinstance"):
            return x.sym_isinstance(ts)
        return isinstance(x, t)

    def b_type(self, x, *a):
        if a:
            return type(x, *a)
        if isinstance(x, SBool):
            return bool
        if isinstance(x, SInt):
            return int
        if isinstance(x, SReal):
            return float
        if isinstance(x, SBytes):
            return x.kind
        if isinstance(x, SObj) and hasattr(x, "_o_real_cls"):
            return object.__getattribute__(x, "_o_real_cls")
        if hasattr(x, "sym_type"):
            return x.sym_type()
        return type(x)

    def _minmax(self, args, key, ismax, default=None):
        if key is not None:
            raise Unsupported("max/min with key")
        if len(args) == 1:
            args = list(args[0])
        if not any(is_sym(a) for a in args):
            return max(args) if ismax else min(args)
        cur = args[0]
        for a in args[1:]:
            if isinstance(cur, (SReal, float)) or isinstance(a, (SReal, float)):
                c, b = SReal.of(cur), SReal.of(a)
                cur = SReal(z3.If((b.t > c.t) if ismax else (b.t < c.t), b.t, c.t))
            else:
                cur = Ite((a > cur) if ismax else (a < cur), a, cur)
        return cur

    def b_max(self, *args, key=None, default=None):
        return self._minmax(args, key, True, default)

    def b_min(self, *args, key=None, default=None):
        return self._minmax(args, key, False, default)

    def b_str(self, *a, **k):
        if a and isinstance(a[0], (SInt, SBool, SBytes)):
            return register_fmt(a[0], "")
        if a and hasattr(a[0], "sym_str"):
            return a[0].sym_str()
        return str(*a, **k)

    def b_repr(self, x):
        if is_sym(x):
            return register_fmt(x, "!r")
        return repr(x)

    def b_hex(self, x):
        if is_sym(x):
            return register_fmt(x, "#x")
        return hex(x)

    def b_abs(self, x):
        return abs(x)

    def b_divmod(self, a, b):
        if is_sym(a) or is_sym(b):
            from .values import floordiv, mod

            return floordiv(a, b), mod(a, b)
        return divmod(a, b)

    def b_sum(self, xs, start=0):
        t = start
        for x in xs:
            t = t + x
        return t

    def b_any(self, xs):
        for x in xs:
            if x:
                return True
        return False

    def b_all(self, xs):
        for x in xs:
            if not x:
                return False
        return True

    def b_tuple(self, *a):
        return tuple(*a)

    def b_list(self, *a):
        if a and isinstance(a[0], SSeq):
            raise Unsupported("list(SSeq)")
        return list(*a)

    def b_set(self, *a):
        return set(*a)

    def b_frozenset(self, *a):
        return frozenset(*a)

    def b_dict(self, *a, **k):
        return dict(*a, **k)

    def b_enumerate(self, *a, **k):
        return enumerate(*a, **k)

    def b_range(self, *a):
        if any(is_sym(x) for x in a):
            return stubs.SRange(*a)
        return range(*a)

    def b_zip(self, *a, **k):
        return zip(*a, **k)

    def b_sorted(self, *a, **k):
        return sorted(*a, **k)

    def b_reversed(self, x):
        return reversed(x)

    def b_hash(self, x):
        return hash(x)

    def b_id(self, x):
        return id(x)

    def b_callable(self, x):
        return callable(x)

    def b_round(self, *a):
        if is_sym(a[0]):
            raise Unsupported("round(symbolic)")
        return round(*a)

    def b_iter(self, *a):
        return iter(*a)

    def b_next(self, *a):
        return next(*a)

    def b_getattr(self, o, name, *d):
        try:
            return getattr(o, name)
        except (AttributeError, Unsupported):
            if d:
                return d[0]
            raise

    def b_hasattr(self, o, name):
        if isinstance(o, SObj):
            from .values import fields, methods

            return name in fields(o) or name in methods(o)
        return hasattr(o, name)

    def b_ord(self, x):
        return ord(x)

    def b_chr(self, x):
        if is_sym(x):
            raise Unsupported("chr(symbolic)")
        return chr(x)

    # -- operators ----------------------------------------------------------
    def mkslice(self, a, b, c):
        return slice(a, b, c)

    def getitem(self, o, i):
        if is_sym(o) or hasattr(o, "sym_getitem"):
            if hasattr(o, "sym_getitem"):
                return o.sym_getitem(i)
            return o[i]
        sym_idx = is_sym(i) or (isinstance(i, slice) and any(is_sym(x) for x in (i.start, i.stop, i.step)))
        if not sym_idx:
            return o[i]
        if isinstance(o, (bytes, bytearray)):
            return SBytes.of(o)[i]
        if isinstance(o, (tuple, list)) and isinstance(i, SInt):
            c = ctx()
            n = len(o)
            for j in range(-n, n):
                if c.branch(i.t == j, f"idx=={j}"):
                    return o[j]
            raise IndexError("index out of range")
        if isinstance(o, dict) and isinstance(i, SInt):
            c = ctx()
            for k_, v in o.items():
                if isinstance(k_, int) and c.branch(i.t == k_, f"key=={k_}"):
                    return v
            raise KeyError(i)
        raise Unsupported(f"getitem {type(o).__name__}[{type(i).__name__}]")

    def contains(self, container, x):
        if hasattr(container, "sym_contains"):
            return container.sym_contains(x)
        if isinstance(container, (set, frozenset, tuple, list, dict)) or type(container).__name__ in ("dict_keys",):
            if isinstance(x, (SInt, SBool)):
                alts = []
                for e in container:
                    if isinstance(e, (int, SInt)) and not isinstance(e, bool) or isinstance(e, bool):
                        alts.append(x == e)
                return Or(*alts) if alts else False
            if is_sym(x):
                if isinstance(x, SObj):
                    return any(e is x for e in container)
                alts = []
                for e in container:
                    r = x == e
                    if r is not False:
                        alts.append(r)
                return Or(*alts) if alts else False
            if any(is_sym(e) for e in (container if not isinstance(container, dict) else ())):
                alts = [e == x for e in container]
                alts = [a for a in alts if a is not False]
                return Or(*alts) if alts else False
            return x in container
        if isinstance(container, (SBytes,)) or (isinstance(container, (bytes, bytearray)) and is_sym(x)):
            return stubs.bytes_contains(container, x)
        if is_sym(container):
            raise Unsupported(f"'in' on {type(container).__name__}")
        return x in container

    def is_(self, a, b):
        if isinstance(a, SBool) and isinstance(b, bool):
            return a == b
        if isinstance(b, SBool) and isinstance(a, bool):
            return b == a
        if hasattr(a, "sym_is"):
            return a.sym_is(b)
        if hasattr(b, "sym_is"):
            return b.sym_is(a)
        return a is b

    def not_(self, x):
        if is_sym(x):
            return Not(x)
        return not x

    def mkset(self, *elts):
        """{a, b, ...}: a real set unless an element is symbolic (hash-based set semantics would be wrong)"""
        if not any(is_sym(e) for e in elts):
            return set(elts)
        return stubs.SmallSet(list(elts))

    def super_(self, obj):
        """zero-argument super(): methods come from the unit as 'super.<name>' entries of the object"""
        from .values import methods as _methods

        rt = self

        class _Super:
            _made = False

            def __init__(s, *a, **k):
                # the first call constructs this proxy; any later one is the code's own `super().__init__(...)`
                if not type(s)._made:
                    type(s)._made = True
                    return
                m = _methods(obj).get("super.__init__")
                if m is None:
                    raise Unsupported(f"super().__init__ is not modelled for {obj!r}")
                m(obj, *a, **k)

            def __getattr__(s, name):
                if name.startswith("sym_") or name.startswith("__"):
                    raise AttributeError(name)
                m = _methods(obj).get("super." + name)
                if m is None:
                    raise Unsupported(f"super().{name} is not modelled for {obj!r}")
                return lambda *a, **k: m(obj, *a, **k)

        return _Super()

    def callm(self, o, name, *args, **kw):
        import re as _re

        from . import text as _text

        if isinstance(getattr(o, "__self__", None), VCRuntime) and getattr(o, "__name__", "").startswith("b_"):
            # <builtin type>.<method>(...), e.g. tuple.__new__(cls, ...), int.from_bytes(...): the type itself
            import builtins as _b

            o = getattr(_b, o.__name__[2:])

        if isinstance(o, _re.Pattern) and args and hasattr(args[0], "sym_regex") and name in ("fullmatch", "match", "search"):
            return args[0].sym_regex(o, name)
        if isinstance(o, _re.Pattern) and args and isinstance(args[0], _text.SText):
            return _text.regex_call(o, name, args, kw)
        if isinstance(o, _re.Pattern) and args and isinstance(args[0], SBytes) and name in ("fullmatch", "match", "search"):
            return stubs.rope_regex(o, name, args[0])
        if o is _re and name in ("fullmatch", "match", "search") and len(args) >= 2 and isinstance(args[1], SBytes):
            pat = args[0] if isinstance(args[0], _re.Pattern) else _re.compile(args[0], *args[2:])
            return stubs.rope_regex(pat, name, args[1])
        if o is _re and name in ("fullmatch", "match", "search") and len(args) >= 2 and isinstance(args[1], _text.SText):
            pat = args[0] if isinstance(args[0], _re.Pattern) else _re.compile(args[0], *args[2:])
            return _text.regex_call(pat, name, (args[1],), kw)
        if isinstance(o, (bytes, bytearray, str)) and (any(is_sym(a) or _has_sym(a) for a in args)):
            if any(isinstance(a, _text.SText) or (isinstance(a, (list, tuple)) and any(isinstance(x, _text.SText) for x in a))
                   for a in args):
                if name == "join":
                    return _text.join(o, list(args[0]))
                return getattr(_text.SText.of(o), name)(*args, **kw)
            return stubs.lifted_method(o, name, args, kw)
        if name == "join" and isinstance(o, (bytes, bytearray, str)) and args and not isinstance(args[0], (list, tuple, str, bytes)):
            # a generator / iterator argument: materialise it to see whether symbolic text flows through
            items = list(args[0])
            if any(isinstance(x, _text.SText) for x in items):
                return _text.join(o, items)
            return o.join(items)
        if hasattr(o, "sym_callm"):
            return o.sym_callm(name, args, kw)
        u = getattr(ctx(), "unit", None)
        if u is not None and u.call_hooks:
            key = (type(o).__name__, name)
            h = u.call_hooks.get(key) or u.call_hooks.get(name if not is_sym(o) and _is_module(o) else None)
            if h is not None:
                return h(o, *args, **kw)
        return getattr(o, name)(*args, **kw)

    # -- loops ----------------------------------------------------------------
    def loop_head(self, k, L):
        c = ctx()
        u = self._unit()
        spec = self._spec(k)
        if spec is None:
            raise EngineError(f"loop #{k} of {self.fn_id} has no loop spec (invariant or unroll) in this unit")
        info = u.fn_infos[self.fn_id]
        linfo = info.loops[k]
        tag = f"{self.fn_id}.loop{k}"
        if spec.unroll:
            # bounded, concrete control: the loop runs natively (used when the iteration space is concrete,
            # e.g. a list of known length); `bound` guards against runaway iteration
            c.loop_counts = getattr(c, "loop_counts", {})
            c.loop_counts[(self.fn_id, k)] = 0
            return {}
        if spec.first_iteration:
            if spec.at_head is not None:
                _hook(spec.at_head, dict(L), 'at_head')
            return {}
        for nm, cond in _inv_items(spec, L):
            c.check(f"{tag}.init.{nm}", cond, kind="loop-init")
        # havoc
        new = {}
        itobj = L.get(f"__vc_it{k}")
        if itobj is not None and hasattr(itobj, "havoc"):
            itobj.havoc(f"iter@loop{k}")
        for v in linfo["assigned"]:
            if v in spec.keep or (v.startswith("__vc") and not v.startswith("__vc_lc")):
                continue
            if v not in L:
                # not bound when the loop is entered.  In a later iteration it holds whatever the previous iteration
                # assigned, and code that reads it before re-assigning it (a cache carried across iterations) sees
                # that stale value: model it as a value about which nothing is known, unless the unit types it
                # (opt-in per loop, `stale_locals=True`: for a loop whose body always assigns before it reads, the
                # variable simply stays unbound and contracts may tell from its absence that the branch did not run)
                if spec.stale_locals:
                    if v in spec.types:
                        new[v] = spec.types[v](f"{v}@loop{k}")
                    else:
                        new[v] = stubs.Opaque(f"{v}@loop{k} (value left over from the previous iteration)")
                continue
            if v in spec.types:
                new[v] = spec.types[v](f"{v}@loop{k}")
            elif v in L:
                try:
                    new[v] = fresh_like(f"{v}@loop{k}", L[v])
                except Unsupported:
                    # value of unknown shape assigned in the loop and not described by the unit's loop contract:
                    # nothing is known about it after the havoc (every test on it may go either way)
                    new[v] = stubs.Opaque(f"{v}@loop{k}")
        if spec.havoc is not None:
            _hook(spec.havoc, L, 'havoc')
        elif spec.havoc_heap:
            u.havoc_heap(L)
        L2 = dict(L)
        L2.update(new)
        for nm, cond in _inv_items(spec, L2):
            c.assume(cond)
        if spec.variant is not None:
            c.loop_variants = getattr(c, "loop_variants", {})
            c.loop_variants[(self.fn_id, k)] = _hook(spec.variant, L2, 'variant')
        c.cover(f"{tag}.head")
        if spec.at_head is not None:
            _hook(spec.at_head, L2, 'at_head')
        return new

    def loop_back(self, k, L):
        c = ctx()
        spec = self._spec(k)
        tag = f"{self.fn_id}.loop{k}"
        if spec is not None and spec.unroll:
            c.loop_counts[(self.fn_id, k)] = n = c.loop_counts.get((self.fn_id, k), 0) + 1
            if n > (spec.bound or 64):
                raise EngineError(f"{tag}: unrolled loop exceeded its bound {spec.bound or 64}")
            if spec.at_back is not None:
                _hook(spec.at_back, L, 'at_back')
            return None
        if spec is not None and spec.at_back is not None:
            _hook(spec.at_back, L, 'at_back')
        for nm, cond in _inv_items(spec, L):
            c.check(f"{tag}.preserve.{nm}", cond, kind="loop-preserve")
        if spec is not None and spec.variant is not None:
            v0 = getattr(c, "loop_variants", {}).get((self.fn_id, k))
            v1 = _hook(spec.variant, L, 'variant')
            if isinstance(v0, tuple):
                # lexicographic
                lt = False
                eq = True
                for a, b in zip(v1, v0):
                    lt = Or(lt, And(eq, a < b))
                    eq = And(eq, a == b)
                c.check(f"{tag}.variant", And(lt, *[b >= 0 for b in v0]), kind="loop-variant")
            else:
                c.check(f"{tag}.variant", And(v1 < v0, v0 >= 0), kind="loop-variant")
        raise PathEnd()

    def loop_continue(self, k, L):
        self.loop_back(k, L)

    def for_iter(self, k, it):
        spec = self._spec(k)
        if hasattr(it, "sym_iter"):
            return it.sym_iter(k, spec)
        if is_sym(it):
            raise Unsupported(f"for over {type(it).__name__}")
        if spec is not None and not spec.unroll:
            raise Unsupported("cut of a for loop over a concrete iterable; use unroll=True")
        return _NativeIter(it)

    def for_native(self, k, itobj):
        return isinstance(itobj, _NativeIter)

    def for_has_next(self, k, itobj, L):
        return itobj.has_next(L)

    def for_next(self, k, itobj):
        return itobj.next()

    def ret(self, value, L):
        u = self._unit()
        u.last_locals[self.fn_id] = L
        return value

    # -- await ---------------------------------------------------------------
    def suspend(self, awaited, site):
        import inspect

        ad = getattr(self._unit(), "await_adapter", None)
        if ad is not None:
            m = ad(awaited)
            if m is not None:
                awaited = m
        if inspect.iscoroutine(awaited) or inspect.isawaitable(awaited) and not isinstance(awaited, stubs.SAwait):
            return awaited
        return _Susp(site, awaited, self.fn_id)


def _has_sym(a):
    if isinstance(a, (list, tuple)):
        return any(is_sym(x) for x in a)
    return False


def _is_module(o):
    import types

    return isinstance(o, types.ModuleType)


VC = VCRuntime("")
