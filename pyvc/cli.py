"""vcheck: decide one property.  Exit 0 held / 1 violation / 2 undecided / 3 checker fault."""
from __future__ import annotations

import argparse
import collections
import hashlib
import json
import os
import subprocess
import sys
import time

ROOT = os.path.dirname(os.path.dirname(os.path.abspath(__file__)))


def _jsonable(x):
    from .runner import jsonable

    return jsonable(x)


def unjson(x):
    if isinstance(x, dict):
        if set(x.keys()) == {"__bytes__"}:
            return bytes.fromhex(x["__bytes__"])
        return {k: unjson(v) for k, v in x.items()}
    if isinstance(x, list):
        return [unjson(v) for v in x]
    return x


def load_known():
    p = os.path.join(ROOT, "known_findings.json")
    try:
        return json.load(open(p)).get("findings", [])
    except FileNotFoundError:
        return []


def run_native_witness(entry):
    """known finding witness: a script under /verif/replays/known that exits 1 when the defect reproduces"""
    w = entry.get("witness_cmd")
    if not w:
        return None
    env = dict(os.environ, PYTHONPATH=os.environ.get("PYVC_REPO", "/repo"))
    r = subprocess.run(w, shell=True, cwd=ROOT, env=env, stdout=subprocess.PIPE, stderr=subprocess.STDOUT, text=True,
                       timeout=300)
    return r.returncode == 1, r.stdout[-2000:]


def main(argv=None):
    ap = argparse.ArgumentParser()
    ap.add_argument("prop")
    ap.add_argument("--tier", default=os.environ.get("VERIF_TIER", "quick"), choices=["quick", "thorough"])
    ap.add_argument("--jobs", type=int, default=int(os.environ.get("PYVC_JOBS", "16")))
    ap.add_argument("--only", action="append")
    ap.add_argument("--replay")
    ap.add_argument("--no-evidence", action="store_true")
    ap.add_argument("-v", "--verbose", action="store_true")
    a = ap.parse_args(argv)
    os.environ.setdefault("PYTHONHASHSEED", "0")
    os.environ["PYVC_TIER"] = a.tier  # inherited by the worker processes: units widen their element counts
    sys.path.insert(0, ROOT) if ROOT not in sys.path else None
    from . import core, runner
    from .registry import NATIVE, UNITS

    seed = int(os.environ.get("VERIF_SEED", "0") or 0)
    t0 = time.time()
    if a.replay:
        return replay_file(a.replay)
    known = load_known()
    core.load_known_ids()
    pr = runner.PropertyRun(a.prop, a.tier, a.jobs, seed)
    try:
        agg = pr.run(only=a.only)
    except Exception as e:  # noqa: BLE001
        print(f"CHECKER-FAULT property={a.prop} {type(e).__name__}: {e}")
        import traceback

        traceback.print_exc()
        return 3
    summ = runner.summarize(agg)
    faults = []
    violations = []  # (unit, obl name, example)
    undecided = []
    known_hits = collections.OrderedDict()
    n_obl = n_dis = n_known_inst = 0
    solver_secs = 0.0
    per_backend = collections.Counter()
    samples = []
    fn_rows = {}
    assumed = set()
    canaries = []
    bounded = []
    if not agg:
        faults.append("no verification units registered for this property/tier")
    for uname, a_ in agg.items():
        d = a_["decl"]
        by = summ[uname]
        if d.prop != a.prop:
            # a unit shared from another property: only the obligations named for this property count here
            by = summ[uname] = collections.OrderedDict((k, v) for k, v in by.items() if k.startswith(a.prop + "."))
        assumed |= set(a_["assumed"])
        for fid, info in a_["infos"].items():
            prev = fn_rows.get(fid, {})
            hit = set(prev.get("arms_reached", ()))
            if d.expect != "canary":
                pre = fid + "@"
                hit |= {m[len(pre):] for p in a_["paths"] for m in p.get("arms", ()) if m.startswith(pre)}
            fn_rows[fid] = dict(info, paths=prev.get("paths", 0) + len(a_["paths"]), arms_reached=sorted(hit))
        if a_["errors"]:
            faults.append(f"{uname}: {len(a_['errors'])} engine error(s): {a_['errors'][0].splitlines()[0]}")
            if a.verbose:
                print(a_["errors"][0])
        reached = {c for p in a_["paths"] for c in p["covers"]}
        for cname in getattr(d, "must_cover", ()):
            if cname not in reached:
                faults.append(f"{uname}: cover point {cname} was reached on no path (obligations behind it are vacuous)")
        total = sum(e["discharged"] + e["refuted"] + e["undecided"] + e.get("known", 0) for e in by.values())
        if total == 0:
            faults.append(f"{uname}: zero obligations generated (vacuous)")
        # second back end for undecided
        for oname, e in by.items():
            if e["undecided"]:
                still = 0
                for ex in e["examples"]:
                    if ex["verdict"] != "undecided":
                        continue
                    smt = (ex.get("model") or {}).get("smt2")
                    v, solver = runner._second_backend(smt, 30 if a.tier == "quick" else 120) if smt else ("unknown", "")
                    if v == "unsat":
                        ex["verdict"] = "discharged"
                        ex["solver"] = solver
                        per_backend[solver] += 1
                    else:
                        still += 1
                # only the first 3 examples carry the query; the rest stay undecided
                redone = sum(1 for ex in e["examples"] if ex["verdict"] == "discharged")
                e["discharged"] += redone
                e["undecided"] -= redone
        if d.expect == "canary":
            refuted = sum(e["refuted"] for e in by.values())
            canaries.append({"unit": uname, "refuted": refuted})
            if refuted == 0:
                faults.append(f"{uname}: canary was NOT refuted - the engine proves a false clause")
            continue
        for oname, e in by.items():
            # instances attributed to a listed known finding are reported separately (coverage.known_findings),
            # they are neither obligations counted as discharged nor silently dropped
            cnt = e["discharged"] + e["refuted"] + e["undecided"]
            n_known_inst += e.get("known", 0)
            if d.kind == "bounded":
                # a bounded stand-in (native runs over an enumerated input set): reported, never counted as proved
                bounded.append({"unit": uname, "obligation": oname, "instances": cnt, "held": e["discharged"],
                                "bound": d.doc.split("BOUND:")[-1].strip() if "BOUND:" in d.doc else "see unit doc"})
            else:
                n_obl += cnt
                n_dis += e["discharged"]
            solver_secs += e["secs"]
            for k, v in e["solvers"].items():
                per_backend[k] += v
            if len(samples) < 12 and e["discharged"]:
                samples.append({"unit": uname, "obligation": oname, "instances": cnt, "verdict": "discharged",
                                "kind": e["kind"], "solver_secs": round(e["secs"], 3), "what": e["detail"]})
            if e["refuted"]:
                violations.append((uname, oname, [x for x in e["examples"] if x["verdict"] == "refuted"][0], e["refuted"]))
            if e.get("known"):
                ex = [x for x in e["examples"] if x["verdict"] == "known"][0]
                for fid in (ex.get("model") or {}).get("__findings__", []):
                    known_hits.setdefault(fid, []).append((uname, oname, ex, e["known"]))
            if e["undecided"]:
                undecided.append((uname, oname, e["examples"][0].get("detail", ""), e["undecided"]))
        # path cap
        if a_["capped"]:
            faults.append(f"{uname}: path cap hit")
    # ---------------- known findings: confirm the recorded witness natively
    rc = 0
    kf_lines = []
    kentries = {e["id"]: e for e in known}
    for fid, hits in known_hits.items():
        ent = kentries.get(fid)
        if ent is None or ent.get("status") != "known":
            for h in hits:
                violations.append(h)
            continue
        w = run_native_witness(ent)
        if w is not None and not w[0]:
            # the recorded witness no longer reproduces but the obligation is still refuted: not suppressed
            for h in hits:
                violations.append(h)
            continue
        kf_lines.append(f"KNOWN-FINDING: property={a.prop} {fid} {ent['text']}")
    for line in kf_lines:
        print(line)
    # ---------------- violations: replay natively
    os.makedirs(os.path.join(ROOT, "out", "replays", a.prop), exist_ok=True)
    vio_out = []
    for uname, oname, ex, count in violations:
        model = ex.get("model") or {}
        h = hashlib.sha1((uname + oname + json.dumps(_jsonable(model), sort_keys=True)).encode()).hexdigest()[:10]
        path = os.path.join("out", "replays", a.prop, f"{oname.replace('/', '_').replace(':', '_')}-{h}.json")
        nat = {"confirmed": False, "detail": "no native replayer registered for this unit"}
        rp = NATIVE.get(uname)
        if rp is not None:
            try:
                nat = rp(unjson(model), oname)
            except Exception as e:  # noqa: BLE001
                nat = {"confirmed": False, "detail": f"native replay raised {type(e).__name__}: {e}"}
        rec = {"property": a.prop, "unit": uname, "obligation": oname, "what": ex.get("detail", ""),
               "instances_refuted": count, "solver": ex.get("solver"), "path": ex.get("path"),
               "counterexample": _jsonable(model), "native_replay": _jsonable(nat),
               "functions": {k: v.get("sha256") for k, v in agg[uname]["infos"].items()},
               "rerun": f"./vcheck {a.prop} --replay {path}"}
        with open(os.path.join(ROOT, path), "w") as f:
            json.dump(rec, f, indent=1)
        suffix = "" if nat.get("confirmed") else " no-failing-input-found"
        print(f"VIOLATION property={a.prop} replay={path}{suffix}")
        print(f"  obligation {oname} ({uname}) refuted on {count} path(s): {ex.get('detail', '')}")
        vio_out.append(rec)
        rc = 1
    for uname, oname, why, count in undecided:
        print(f"UNDECIDED property={a.prop} obligation={oname} unit={uname} instances={count} reason={why}")
    for f_ in faults:
        print(f"CHECKER-FAULT property={a.prop} {f_}")
    if rc == 0 and faults:
        rc = 3
    elif rc == 0 and undecided:
        rc = 2
    wall = time.time() - t0
    # ---------------- evidence
    if not a.no_evidence and not a.only:
        from .evidence import write_evidence

        write_evidence(a.prop, a.tier, seed, agg=agg, summ=summ, n_obl=n_obl, n_dis=n_dis, solver_secs=solver_secs,
                       per_backend=per_backend, samples=samples, fn_rows=fn_rows, assumed=assumed,
                       canaries=canaries, known=kf_lines, extra={"known_finding_instances": n_known_inst, "bounded_stand_ins": bounded}, violations=vio_out, undecided=undecided, faults=faults,
                       wall=wall, rc=rc)
    tot_paths = sum(len(a_["paths"]) for a_ in agg.values())
    print(f"{a.prop} [{a.tier}] units={len(agg)} paths={tot_paths} obligations={n_obl} discharged={n_dis} "
          f"known={len(kf_lines)} violations={len(vio_out)} undecided={len(undecided)} faults={len(faults)} "
          f"wall={wall:.1f}s exit={rc}")
    if a.verbose:
        for uname, by in summ.items():
            print(f"  unit {uname}: paths={len(agg[uname]['paths'])} cpu={agg[uname]['secs']:.1f}s")
            for oname, e in by.items():
                print(f"     {oname:70s} d={e['discharged']} r={e['refuted']} k={e.get('known', 0)} u={e['undecided']}")
    return rc


def replay_file(path):
    from .registry import NATIVE
    from . import runner

    rec = json.load(open(path))
    runner._load_modules(rec["property"])
    rp = NATIVE.get(rec["unit"])
    if rp is None:
        print("no native replayer for", rec["unit"])
        print(json.dumps(rec["counterexample"], indent=1)[:4000])
        return 2
    nat = rp(unjson(rec["counterexample"]), rec["obligation"])
    print(json.dumps(_jsonable(nat), indent=1))
    return 1 if nat.get("confirmed") else 0


if __name__ == "__main__":
    sys.exit(main())
