"""SText: str / bytes values whose CONTENT matters, backed by a z3 String term.

Used where obligations are about the characters (header injection, token grammars, domain matching).  bytes and
str share the representation (a bytes value is a string whose chars are < 256); ``kind`` tells them apart.
Assumed lemmas about codecs are recorded through stubs.used().
"""
from __future__ import annotations

import re

import z3

from . import regexlang as RL
from . import stubs
from .core import Unsupported, ctx
from .values import And, Not, Or, SBool, SInt, mk_bool, mk_int, tbool, tint

S = z3.StringSort()


def sval(s):
    if isinstance(s, (bytes, bytearray)):
        s = bytes(s).decode("latin-1")
    return z3.StringVal(RL._esc(s))


class SText:
    _pyvc_sym = True

    def __init__(self, t, kind=str, note=None):
        self.t = t
        self.kind = kind  # str or bytes
        self.note = note

    # -- construction -------------------------------------------------------
    @staticmethod
    def fresh(name, kind=str, register=True):
        c = ctx()
        name = c.fresh_name(name)
        v = SText(z3.String(name), kind)
        if kind is bytes:
            c.add(z3.InRe(v.t, z3.Star(RL.ranges_to_re([(0, 255)]))))
        if register:
            c.inputs[name] = v
        return v

    @staticmethod
    def of(x, kind=None):
        if isinstance(x, SText):
            return x
        if isinstance(x, str):
            return SText(sval(x), str)
        if isinstance(x, (bytes, bytearray)):
            return SText(sval(x), bytes)
        raise Unsupported(f"not text: {type(x).__name__}")

    def _same(self, o):
        if isinstance(o, SText):
            return o
        if isinstance(o, (str, bytes, bytearray)):
            if (self.kind is str) != isinstance(o, str):
                raise TypeError(f"can't mix {self.kind.__name__} and {type(o).__name__}")
            return SText.of(o)
        return None

    # -- protocol hooks used by the runtime ------------------------------------
    def sym_len(self):
        return mk_int(z3.Length(self.t))

    length = sym_len

    def sym_type(self):
        return self.kind

    def sym_isinstance(self, ts):
        return any(t is self.kind or t is object for t in ts)

    def sym_str(self):
        if self.kind is str:
            return self
        raise Unsupported("str(bytes) of symbolic text")

    def __bool__(self):
        return ctx().branch(z3.Length(self.t) != 0, "text.nonempty")

    def __hash__(self):
        return id(self)

    def __repr__(self):
        return f"SText<{self.kind.__name__}>(#{self.t.hash()})"

    def __format__(self, spec):
        from .values import register_fmt

        return register_fmt(self, spec)

    def __len__(self):
        raise Unsupported("len() of symbolic text natively")

    # -- operators -----------------------------------------------------------
    def __add__(self, o):
        o2 = self._same(o)
        if o2 is None:
            return NotImplemented
        return SText(z3.Concat(self.t, o2.t), self.kind)

    def __radd__(self, o):
        o2 = self._same(o)
        if o2 is None:
            return NotImplemented
        return SText(z3.Concat(o2.t, self.t), self.kind)

    def __eq__(self, o):
        if isinstance(o, SText):
            return mk_bool(self.t == o.t) if o.kind is self.kind else False
        if isinstance(o, (str, bytes, bytearray)):
            if (self.kind is str) != isinstance(o, str):
                return False
            return mk_bool(self.t == sval(o))
        return False

    def __ne__(self, o):
        return Not(self.__eq__(o))

    def sym_contains(self, x):
        x2 = self._same(x) if not isinstance(x, (int, SInt)) else None
        if x2 is not None:
            return mk_bool(z3.Contains(self.t, x2.t))
        if isinstance(x, (int, SInt)) and self.kind is bytes:
            return mk_bool(z3.Contains(self.t, z3.Unit(z3.CharFromBv(z3.Int2BV(tint(x), 18)))))
        raise Unsupported(f"{x!r} in SText")

    def sym_getitem(self, i):
        n = z3.Length(self.t)
        c = ctx()
        if isinstance(i, slice):
            if i.step not in (None, 1):
                raise Unsupported("extended slice of symbolic text")
            cut = self._slice_by_points(i.start, i.stop)
            if cut is not None:
                return cut
            a = 0 if i.start is None else tint(i.start)
            b = n if i.stop is None else tint(i.stop)
            a = a if isinstance(a, int) else z3.If(a < 0, z3.If(a + n < 0, 0, a + n), z3.If(a > n, n, a))
            b = b if not isinstance(b, z3.ExprRef) or b is n else z3.If(b < 0, z3.If(b + n < 0, 0, b + n), z3.If(b > n, n, b))
            a_t = z3.IntVal(a) if isinstance(a, int) else a
            ln = z3.If(b - a_t < 0, 0, b - a_t)
            r = SText(z3.SubString(self.t, a_t, ln), self.kind)
            if i.stop is None:
                r.suffix_of = self  # provenance: x[a:] is a suffix of x by construction
            return r
        if isinstance(i, int) and i in (0, -1) and self.kind is str:
            if not c.branch(n >= 1, "text.len>=1"):
                raise IndexError("string index out of range")
            h, r = self._const_point(1 if i == 0 else -1)
            return SText(h if i == 0 else r, str)
        ti = tint(i)
        if c.branch(ti < 0, "text.negidx"):
            ti = ti + n
        if not c.branch(z3.And(ti >= 0, ti < n), "text.idx_in_range"):
            raise IndexError("index out of range")
        one = z3.SubString(self.t, ti, 1)
        if self.kind is bytes:
            return mk_int(z3.StrToCode(one))
        return SText(one, str)

    # -- split points: positions p with a known decomposition  self == prefix ++ suffix, len(prefix) == p --------
    def _points(self):
        pts = getattr(self, "_pts", None)
        if pts is None:
            pts = self._pts = {}
        return pts

    @staticmethod
    def _key(term):
        return z3.simplify(term).sexpr() if not isinstance(term, int) else str(term)

    def _add_point(self, pos_term, prefix, suffix):
        self._points()[self._key(pos_term)] = (prefix, suffix)

    def _point(self, v):
        if v is None:
            return None
        if isinstance(v, int):
            if v == 0:
                return (z3.StringVal(""), self.t)
            if -4 <= v <= 4:
                return self._const_point(v)
            return None
        return self._points().get(self._key(tint(v)))

    def _const_point(self, k):
        """split at a small constant offset from the start (k > 0) or the end (k < 0) by a word equation
        self == h ++ r with |h| == k (resp. |r| == -k); clipped like Python slicing when the text is shorter"""
        memo = self.__dict__.setdefault("_cpts", {})
        if k in memo:
            return memo[k]
        c = ctx()
        n = z3.Length(self.t)
        if c.branch(n >= abs(k), f"text.len>={abs(k)}"):
            nm = c.fresh_name("cut")
            h, r = z3.String(nm + ".h"), z3.String(nm + ".r")
            c.add(self.t == z3.Concat(h, r))
            c.add(z3.Length(h) == k if k > 0 else z3.Length(r) == -k)
            memo[k] = (h, r)
        else:
            memo[k] = (self.t, z3.StringVal("")) if k > 0 else (z3.StringVal(""), self.t)
        return memo[k]

    def _slice_by_points(self, start, stop):
        """self[start:stop] through word equations when both bounds are known split points"""
        ps = (z3.StringVal(""), self.t) if start is None else self._point(start)
        pe = (self.t, z3.StringVal("")) if stop is None else self._point(stop)
        if ps is None or pe is None:
            return None
        if start is None or (isinstance(start, int) and start == 0):
            return SText(pe[0], self.kind)
        if stop is None:
            r = SText(ps[1], self.kind)
            r.suffix_of = self
            return r
        c = ctx()
        m = z3.String(c.fresh_name("mid"))
        # prefix_end == prefix_start ++ m   (start <= stop at the call sites; otherwise the slice is empty)
        if c.branch(z3.Length(ps[0]) <= z3.Length(pe[0]), "slice.ordered"):
            c.add(pe[0] == z3.Concat(ps[0], m))
            return SText(m, self.kind)
        return SText(z3.StringVal(""), self.kind)

    def _find_cut(self, hay_term, sub_t, sub_len_const, base_prefix, base_suffix):
        """hay == a ++ sub ++ b with the first occurrence; registers the two split points on self"""
        c = ctx()
        nm = c.fresh_name("find")
        a, b = z3.String(nm + ".a"), z3.String(nm + ".b")
        c.add(hay_term == z3.Concat(a, sub_t, b))
        c.add(z3.IndexOf(hay_term, sub_t, 0) == z3.Length(a))
        pre = z3.Concat(base_prefix, a) if base_prefix is not None else a
        la = z3.Length(pre) if base_prefix is not None else z3.Length(a)
        suf_after = z3.Concat(b, base_suffix) if base_suffix is not None else b
        self._add_point(z3.Length(a) if base_prefix is None else la, pre, z3.Concat(sub_t, suf_after))
        self._add_point(z3.Length(a) + sub_len_const, z3.Concat(pre, sub_t), suf_after)
        return a, b

    # -- methods --------------------------------------------------------------
    def encode(self, encoding="utf-8", errors="strict"):
        if self.kind is not str:
            raise AttributeError("'bytes' object has no attribute 'encode'")
        enc = encoding.lower().replace("-", "").replace("_", "")
        c = ctx()
        if enc in ("utf8", "ascii", "latin1", "iso88591"):
            stubs.used("str.encode(utf-8): ASCII chars map to the same byte; a non-ASCII char maps only to bytes >= 0x80; "
                       "lone surrogates raise UnicodeEncodeError (strict)")
            if errors == "strict":
                sur = RL.ranges_to_re([(0xD800, 0xDFFF)])
                if c.branch(z3.InRe(self.t, z3.Concat(RL.universe(False), sur, RL.universe(False))), "encode.has_surrogate"):
                    raise UnicodeEncodeError("utf-8", "\ud800", 0, 1, "surrogates not allowed")
            # abstract result: an opaque byte string whose ASCII skeleton equals the text's (chars < 0x80 are kept
            # in place, every other char becomes one or more bytes >= 0x80)
            return SText(self.t, bytes, note=("encoded", enc, self))
        raise Unsupported(f"encode({encoding})")

    def decode(self, encoding="utf-8", errors="strict"):
        if self.kind is not bytes:
            raise AttributeError("'str' object has no attribute 'decode'")
        enc = encoding.lower().replace("-", "").replace("_", "")
        if enc in ("utf8",) and errors == "surrogateescape":
            stubs.used("bytes.decode(utf-8, surrogateescape): total; ASCII bytes map to the same chars; non-ASCII bytes map "
                       "only to non-ASCII chars")
            return SText(self.t, str, note=("decoded", enc, self))
        if enc in ("latin1", "iso88591"):
            return SText(self.t, str)
        raise Unsupported(f"decode({encoding}, {errors})")

    def startswith(self, p, *a):
        if a:
            raise Unsupported("startswith with range")
        if isinstance(p, tuple):
            return Or(*[self.startswith(x) for x in p])
        return mk_bool(z3.PrefixOf(self._same(p).t, self.t))

    def endswith(self, p, *a):
        if a:
            raise Unsupported("endswith with range")
        if isinstance(p, tuple):
            return Or(*[self.endswith(x) for x in p])
        return mk_bool(z3.SuffixOf(self._same(p).t, self.t))

    def find(self, sub, start=0, end=None):
        sp = self._same(sub)
        c = ctx()
        const_sub = z3.is_string_value(sp.t)
        if end is not None and isinstance(start, int) and start == 0 and const_sub:
            pe = self._point(end)
            if pe is not None:
                # search inside the known prefix self[:end]
                if c.branch(z3.Contains(pe[0], sp.t), "find.in_prefix"):
                    a, _ = self._find_cut(pe[0], sp.t, len(RL.py_unescape(sp.t.as_string())), None, pe[1])
                    return mk_int(z3.Length(a))
                return -1
        if end is not None:
            pre = z3.SubString(self.t, 0, tint(end))
            return mk_int(z3.IndexOf(pre, sp.t, tint(start)))
        if isinstance(start, int) and start == 0 and const_sub:
            if c.branch(z3.Contains(self.t, sp.t), "find.found"):
                a, _ = self._find_cut(self.t, sp.t, len(RL.py_unescape(sp.t.as_string())), None, None)
                return mk_int(z3.Length(a))
            return -1
        return mk_int(z3.IndexOf(self.t, sp.t, tint(start)))

    def index(self, sub, start=0):
        r = self.find(sub, start)
        if ctx().branch(tint(r) < 0, "index.notfound"):
            raise ValueError("substring not found")
        return r

    def _strip_set(self, chars):
        if chars is None:
            if self.kind is bytes:
                return [(9, 13), (32, 32)]
            return [(9, 13), (28, 32), (0x85, 0x85), (0xA0, 0xA0)]
        cs = chars if isinstance(chars, str) else bytes(chars).decode("latin-1")
        return [(ord(ch), ord(ch)) for ch in cs]

    def _strip(self, chars, left, right):
        """x = l ++ r ++ t with l,t in W*, r not starting / ending with a W char"""
        c = ctx()
        W = RL.ranges_to_re(self._strip_set(chars))
        nm = c.fresh_name("strip")
        lft, mid, rgt = z3.String(nm + ".l"), z3.String(nm + ".m"), z3.String(nm + ".r")
        c.add(self.t == z3.Concat(lft, mid, rgt))
        anyc = RL.universe(self.kind is bytes)
        notW = z3.Complement(W)
        c.add(z3.InRe(lft, z3.Star(W)) if left else lft == z3.StringVal(""))
        c.add(z3.InRe(rgt, z3.Star(W)) if right else rgt == z3.StringVal(""))
        ok = []
        if left:
            ok.append(z3.Not(z3.InRe(mid, z3.Concat(W, anyc))))
        if right:
            ok.append(z3.Not(z3.InRe(mid, z3.Concat(anyc, W))))
        for o in ok:
            c.add(o)
        # note = provenance of the trimmed text: source == left ++ result ++ right with left/right in W*
        return SText(mid, self.kind, note=("strip", self, lft, rgt))

    def strip(self, chars=None):
        return self._strip(chars, True, True)

    def lstrip(self, chars=None):
        return self._strip(chars, True, False)

    def rstrip(self, chars=None):
        return self._strip(chars, False, True)

    def rfind(self, sub):
        """last occurrence: a case split with word equations (x == a ++ sub ++ b, sub not in the rest)"""
        sp = self._same(sub)
        c = ctx()
        if not (z3.is_string_value(sp.t) and len(RL.py_unescape(sp.t.as_string())) == 1):
            return mk_int(z3.LastIndexOf(self.t, sp.t))
        parts = self.rfind_parts(sub)
        return -1 if parts is None else mk_int(z3.Length(parts[0]))

    def rfind_parts(self, sub):
        """(a, b) with self == a ++ sub ++ b and sub not in b (the cut at the right-most occurrence), or None when
        sub does not occur; memoised, so code and spec side talk about the same cut"""
        sp = self._same(sub)
        c = ctx()
        memo = self.__dict__.setdefault("_rfind", {})
        k = sp.t.sexpr()
        if k in memo:
            return memo[k]
        if not c.branch(z3.Contains(self.t, sp.t), "rfind.found"):
            memo[k] = None
            return None
        nm = c.fresh_name("rfind")
        a, b = z3.String(nm + ".a"), z3.String(nm + ".b")
        c.add(self.t == z3.Concat(a, sp.t, b))
        c.add(z3.Not(z3.Contains(b, sp.t)))
        self._add_point(z3.Length(a), a, z3.Concat(sp.t, b))
        self._add_point(z3.Length(a) + 1, z3.Concat(a, sp.t), b)
        memo[k] = (a, b)
        return memo[k]

    def split(self, sep=None, maxsplit=-1):
        if sep is not None and maxsplit == -1:
            return SplitParts(self, sep)
        if sep is None or maxsplit < 1 or maxsplit > 4:
            raise Unsupported("split other than split(sep, k) with 1 <= k <= 4")
        sp = self._same(sep)
        c = ctx()
        out = []
        cur = self.t
        for _ in range(maxsplit):
            if not c.branch(z3.Contains(cur, sp.t), "split.has_sep"):
                break
            a, b = self._cut_first(cur, sp)
            part = SText(a, self.kind)
            if cur is self.t:
                # provenance: this part is the text before the FIRST separator of self (self == a ++ sep ++ b)
                part.cut_head_of = (self, sep, b)
            out.append(part)
            cur = b
        out.append(SText(cur, self.kind))
        return out

    def _cut_first(self, cur, sp):
        """cur == a ++ sep ++ b with the FIRST occurrence of sep (word equation with fresh a, b)"""
        c = ctx()
        # memoised per (text term, separator): the cut at the first occurrence is unique, so code and spec side
        # name the same pieces
        memo = self.__dict__.setdefault("_cuts", {})
        mk = (cur.sexpr(), sp.t.sexpr())
        if mk in memo:
            return memo[mk]
        nm = c.fresh_name("cut")
        a, b = z3.String(nm + ".a"), z3.String(nm + ".b")
        c.add(cur == z3.Concat(a, sp.t, b))
        if z3.is_string_value(sp.t) and len(sp.t.as_string()) == 1:
            c.add(z3.Not(z3.Contains(a, sp.t)))
        else:
            c.add(z3.IndexOf(cur, sp.t, 0) == z3.Length(a))
        memo[mk] = (a, b)
        return a, b

    def partition(self, sep):
        sp = self._same(sep)
        c = ctx()
        if c.branch(z3.Contains(self.t, sp.t), "partition.has_sep"):
            a, b = self._cut_first(self.t, sp)
            return SText(a, self.kind), sep, SText(b, self.kind)
        return self, type(sep)(), type(sep)()

    def rpartition(self, sep):
        parts = self.rfind_parts(sep)
        if parts is None:
            return type(sep)(), type(sep)(), self
        a, b = parts
        head, tail = SText(a, self.kind), SText(b, self.kind)
        head.rcut_head_of = (self, sep, tail)
        return head, sep, tail

    def lower(self):
        return SCase(self, False)

    def upper(self):
        return SCase(self, True)

    def isascii(self):
        return mk_bool(z3.InRe(self.t, z3.Star(RL.ranges_to_re([(0, 127)]))))

    def isdigit(self):
        raise Unsupported("isdigit on symbolic text")

    def sym_int(self, base=10):
        """int(text): ValueError unless the text is a (possibly signed / padded) numeral.  Modelled exactly for
        texts already known to consist of ASCII digits only (the callers gate with a regex first)."""
        c = ctx()
        if base == 10:
            digits = z3.Plus(RL.rng(48, 57))
            w = getattr(self, "fixed_digits", None)
            if w is None and not any(_lang_subset(p, "digits") for p in getattr(self, "matched", ())):
                if c._check(z3.Not(z3.InRe(self.t, digits))) != z3.unsat:
                    raise Unsupported("int() of text that is not provably ASCII digits on this path")
            stubs.used("int(str of ASCII digits) = its decimal value; ValueError above CPython's 4300-digit limit")
            if w == 1:
                return mk_int(z3.StrToCode(self.t) - 48)
            if w is None and c.branch(z3.Length(self.t) > 4300, "int.too_many_digits"):
                raise ValueError("Exceeds the limit (4300 digits) for integer string conversion")
            return mk_int(z3.StrToInt(self.t))
        if base == 16:
            hexd = z3.Plus(RL.ranges_to_re([(48, 57), (65, 70), (97, 102)]))
            if not any(_lang_subset(p, "hex") for p in getattr(self, "matched", ())):
                if c._check(z3.Not(z3.InRe(self.t, hexd))) != z3.unsat:
                    raise Unsupported("int(x, 16) of text that is not provably hex digits on this path")
            stubs.used("int(hex digits, 16): a non-negative integer determined by the digits (value uninterpreted, "
                       "zero iff all digits are '0')")
            f = z3.Function("hexval", S, z3.IntSort())
            v = f(self.t)
            c.add(v >= 0)
            c.add((v == 0) == z3.InRe(self.t, z3.Plus(RL.rng(48, 48))))
            return mk_int(v)
        raise Unsupported(f"int(text, {base})")

    def concretize(self, m):
        r = m.eval(self.t, model_completion=True)
        s = RL.py_unescape(r.as_string()) if z3.is_string_value(r) else str(r)
        return s.encode("latin-1", "replace") if self.kind is bytes else s


class SplitParts:
    """text.split(sep) with an unbounded number of parts: an opaque list of which only the source, the separator
    and the direction are known (consumers such as an accumulate model reason about it by induction)"""

    _pyvc_sym = True

    def __init__(self, src, sep, rev=False):
        self.src = src
        self.sep = sep
        self.rev = rev

    def __reversed__(self):
        return SplitParts(self.src, self.sep, not self.rev)

    def concretize(self, m):
        parts = self.src.concretize(m).split(self.sep)
        return parts[::-1] if self.rev else parts


def from_fmt(s, kind=str):
    """text produced by str.format / an f-string over symbolic texts (markers) -> SText concatenation"""
    from .values import fmt_parse

    parts = []
    for p in fmt_parse(s):
        if isinstance(p, tuple):
            v, spec = p
            if spec:
                raise Unsupported(f"format spec {spec!r} on symbolic text")
            parts.append(SText.of(v).t if not isinstance(v, SText) else v.t)
        else:
            parts.append(sval(p))
    if not parts:
        return SText(z3.StringVal(""), kind)
    return SText(z3.Concat(*parts) if len(parts) > 1 else parts[0], kind)


class SNumText:
    """a header value of which only 'is it 1*DIGIT' and its numeric value matter (e.g. Content-Length):
    is_digits (Bool), ndigits (Int >= 1), value (Int >= 0).  Regex gates whose language equals 1*DIGIT are decided by
    is_digits; int() is total exactly when is_digits holds and the numeral has at most 4300 digits (CPython limit)."""

    _pyvc_sym = True

    def __init__(self, name):
        from .values import fresh_bool, fresh_int

        self.is_digits = fresh_bool(name + ".is_digits")
        self.ndigits = fresh_int(name + ".ndigits", 1)
        self.value = fresh_int(name + ".value", 0)
        self.matched = []

    def sym_regex(self, pat, mode):
        c = ctx()
        if mode == "fullmatch" and RL.equivalent(RL.lang(pat, "fullmatch"), z3.Plus(RL.rng(48, 57)))[0] == "equal":
            if c.branch(tbool(self.is_digits), "digits.fullmatch"):
                self.matched.append(pat)
                return SMatch(pat, self, mode)
            return None
        raise Unsupported(f"regex {pat.pattern!r} on a numeric header abstraction")

    def sym_int(self, base=10):
        c = ctx()
        stubs.used("int(str): ValueError unless the text is a numeral (here: 1*DIGIT) of at most 4300 digits")
        if base != 10 or not c.branch(tbool(self.is_digits), "int.is_numeral"):
            raise ValueError("invalid literal for int() with base 10")
        if c.branch(tint(self.ndigits) > 4300, "int.too_many_digits"):
            raise ValueError("Exceeds the limit (4300 digits) for integer string conversion")
        return self.value

    def __format__(self, spec):
        return "<number>"

    def concretize(self, m):
        from .core import concretize as cz

        return {"is_digits": cz(self.is_digits, m), "ndigits": cz(self.ndigits, m), "value": cz(self.value, m)}


_SUBSET_CACHE: dict = {}


def _lang_subset(pat, which):
    """is the fullmatch language of the live pattern a subset of ASCII digits+ / hexdigits+ (cached, decided by z3)"""
    key = (pat.pattern, pat.flags, which)
    if key not in _SUBSET_CACHE:
        target = z3.Plus(RL.rng(48, 57)) if which == "digits" else z3.Plus(RL.ranges_to_re([(48, 57), (65, 70), (97, 102)]))
        _SUBSET_CACHE[key] = RL.subset(RL.lang(pat, "fullmatch"), target)[0] == "subset"
    return _SUBSET_CACHE[key]


_CASE_TABLES: dict = {}


def _case_tables(upper):
    """exact pre-images of str.upper / str.lower over all code points z3 can represent:
    single[c] = chars x with f(x) == c ; multi[s] = chars x with f(x) == s (len(s) > 1)"""
    if upper not in _CASE_TABLES:
        single, multi = {}, {}
        for cp in range(RL.MAXCHAR + 1):
            if 0xD800 <= cp <= 0xDFFF:
                y = chr(cp)
            else:
                ch = chr(cp)
                y = ch.upper() if upper else ch.lower()
            if len(y) == 1:
                single.setdefault(y, []).append(cp)
            else:
                multi.setdefault(y, []).append(cp)
        _CASE_TABLES[upper] = (single, multi)
    return _CASE_TABLES[upper]


def case_preimage(const: str, upper: bool):
    """regex for { s : s.upper() == const } (resp. lower), exact (dynamic programming over single- and multi-char
    images)"""
    single, multi = _case_tables(upper)
    n = len(const)
    memo = {n: z3.Re(z3.StringVal(""))}
    for i in range(n - 1, -1, -1):
        alts = []
        pre = single.get(const[i])
        if pre:
            alts.append(z3.Concat(RL.ranges_to_re([(p, p) for p in pre]), memo[i + 1]))
        for img, cps in multi.items():
            if const.startswith(img, i):
                alts.append(z3.Concat(RL.ranges_to_re([(p, p) for p in cps]), memo[i + len(img)]))
        memo[i] = RL.union(alts) if alts else z3.Empty(RL.RS)
    return memo[0]


class SCase:
    """s.lower() / s.upper(): comparisons against constants are decided exactly through the pre-image language"""

    _pyvc_sym = True

    def __init__(self, base: SText, upper: bool):
        self.base, self.is_upper = base, upper
        stubs.used("str.lower()/upper(): exact pre-image languages computed from CPython's own case tables")

    def __eq__(self, o):
        if isinstance(o, str):
            return mk_bool(z3.InRe(self.base.t, case_preimage(o, self.is_upper)))
        if isinstance(o, (bytes, bytearray)) and self.base.kind is bytes:
            return mk_bool(z3.InRe(self.base.t, case_preimage(bytes(o).decode("latin-1"), self.is_upper)))
        raise Unsupported("comparison of a case-folded symbolic text with a non-constant")

    def __ne__(self, o):
        return Not(self.__eq__(o))

    def __hash__(self):
        return id(self)

    def sym_str(self):
        return self

    def sym_type(self):
        return self.base.kind

    def sym_isinstance(self, ts):
        return any(t is self.base.kind or t is object for t in ts)

    def __format__(self, spec):
        from .values import register_fmt

        return register_fmt(self, spec)

    def concretize(self, m):
        v = self.base.concretize(m)
        return v.upper() if self.is_upper else v.lower()


def _fixed_width_groups(pat):
    """for patterns made of fixed-width items: {group index: (offset, width)}"""
    tr = RL.Translator(pat)
    off = 0
    groups = {}

    def width(op, av):
        name = str(op)
        if op in (RL.sre_c.LITERAL, RL.sre_c.NOT_LITERAL, RL.sre_c.ANY, RL.sre_c.IN, RL.sre_c.CATEGORY):
            return 1
        if op is RL.sre_c.SUBPATTERN:
            return sum(width(o, a) for o, a in av[-1])
        if op in (RL.sre_c.MAX_REPEAT, RL.sre_c.MIN_REPEAT):
            lo, hi, p = av
            if lo != hi:
                raise Unsupported("group offsets of a variable-width pattern")
            return lo * sum(width(o, a) for o, a in p)
        if op is RL.sre_c.AT:
            return 0
        raise Unsupported(f"group offsets: construct {name}")

    def walk(items):
        nonlocal off
        for op, av in items:
            if op is RL.sre_c.SUBPATTERN:
                gi = av[0]
                start = off
                walk(av[-1])
                if gi is not None:
                    groups[gi] = (start, off - start)
            else:
                off += width(op, av)

    walk(list(tr.tree))
    return groups


class SMatch:
    """truthy result of a successful regex call; group(i) for fixed-width patterns"""

    def __init__(self, pattern, subject, mode="fullmatch"):
        self.pattern, self.subject, self.mode = pattern, subject, mode

    def __bool__(self):
        return True

    def group(self, i=0):
        if i == 0 and self.mode == "fullmatch":
            return self.subject
        if self.mode not in ("fullmatch", "match"):
            raise Unsupported("match.group after search")
        # decompose the subject along the fixed-width items of the pattern: subject == piece_0 ++ piece_1 ++ ...
        # with one fresh variable per group, each constrained by its own sub-language
        pieces = getattr(self, "_pieces", None)
        if pieces is None:
            pieces = self._pieces = self._decompose()
        return pieces[i]

    def _decompose(self):
        c = ctx()
        tr = RL.Translator(self.pattern)
        parts = []
        groups = {}

        def walk(items):
            for op, av in items:
                if op is RL.sre_c.SUBPATTERN and av[0] is not None:
                    nm = c.fresh_name(f"group{av[0]}")
                    g = z3.String(nm)
                    sub = tr.seq(av[-1])
                    c.add(z3.InRe(g, sub))
                    st = SText(g, self.subject.kind)
                    widths = _fixed_width_groups(self.pattern)
                    if RL.subset(sub, z3.Plus(RL.rng(48, 57)))[0] == "subset":
                        st.fixed_digits = widths[av[0]][1]
                    groups[av[0]] = st
                    parts.append(g)
                elif op is RL.sre_c.AT:
                    continue
                else:
                    nm = c.fresh_name("piece")
                    p = z3.String(nm)
                    c.add(z3.InRe(p, tr.item(op, av)))
                    parts.append(p)

        walk(list(tr.tree))
        c.add(self.subject.t == (z3.Concat(*parts) if len(parts) > 1 else parts[0]))
        return groups


class TextArray:
    """list[bytes|str] of symbolic length: z3 Array Int -> String (used for `lines`)"""

    _pyvc_sym = True

    def __init__(self, name, kind=bytes):
        c = ctx()
        self.name = c.fresh_name(name)
        self.arr = z3.Array(self.name + ".arr", z3.IntSort(), S)
        self.n = z3.Int(self.name + ".len")
        self.kind = kind
        c.add(self.n >= 0)
        c.inputs[self.name] = self

    def sym_len(self):
        return mk_int(self.n)

    def sym_getitem(self, i):
        if isinstance(i, slice):
            raise Unsupported("slice of a symbolic list of texts")
        c = ctx()
        ti = tint(i)
        if c.branch(ti < 0, "list.negidx"):
            ti = ti + self.n
        if not c.branch(z3.And(ti >= 0, ti < self.n), "list.idx_in_range"):
            raise IndexError("list index out of range")
        return self._elem(ti)

    def _elem(self, ti):
        e = z3.Select(self.arr, ti)
        if self.kind is bytes:
            ctx().add(z3.InRe(e, z3.Star(RL.ranges_to_re([(0, 255)]))))
        return SText(e, self.kind)

    def at(self, i):
        return self._elem(tint(i))

    def __bool__(self):
        return ctx().branch(self.n != 0, "list.nonempty")

    def concretize(self, m):
        n = m.eval(self.n, model_completion=True).as_long()
        out = []
        for j in range(min(n, 50)):
            out.append(SText(z3.Select(self.arr, z3.IntVal(j)), self.kind).concretize(m))
        return out


def regex_call(pat, name, args, kw):
    """pat.search/match/fullmatch(x) for a LIVE compiled pattern and symbolic text x: fork on membership in the
    translated language (see regexlang)"""
    if name not in ("search", "match", "fullmatch"):
        raise Unsupported(f"re.Pattern.{name} on symbolic text")
    x = args[0]
    if not isinstance(x, SText):
        raise Unsupported("regex on non-text proxy")
    lang = RL.lang(pat, name)
    if ctx().branch(z3.InRe(x.t, lang), f"re.{name}({pat.pattern!r:.30})"):
        if name == "fullmatch":
            if not hasattr(x, "matched"):
                x.matched = []
            x.matched.append(pat)
        return SMatch(pat, x, name)
    # redundant positive form of the negative fact (helps the sequence solver)
    ctx().add(z3.InRe(x.t, z3.Complement(lang)))
    return None


def join(sep, items):
    sep = SText.of(sep)
    parts = []
    for j, e in enumerate(items):
        if j:
            parts.append(sep.t)
        parts.append(SText.of(e).t if not isinstance(e, SText) else e.t)
    if not parts:
        return SText(z3.StringVal(""), sep.kind)
    return SText(z3.Concat(*parts) if len(parts) > 1 else parts[0], sep.kind)
