"""SText: str / bytes values whose CONTENT matters, backed by a z3 String term.

Used where obligations are about the characters (header injection, token grammars, domain matching).  bytes and
str share the representation (a bytes value is a string whose chars are < 256); ``kind`` tells them apart.
Assumed lemmas about codecs are recorded through stubs.used().
"""
from __future__ import annotations

import re

import z3

from . import regexlang as RL
from . import stubs
from .core import Unsupported, ctx
from .values import And, Not, Or, SBool, SInt, mk_bool, mk_int, tbool, tint

S = z3.StringSort()


def sval(s):
    if isinstance(s, (bytes, bytearray)):
        s = bytes(s).decode("latin-1")
    return z3.StringVal(RL._esc(s))


class SText:
    _pyvc_sym = True

    def __init__(self, t, kind=str, note=None):
        self.t = t
        self.kind = kind  # str or bytes
        self.note = note

    # -- construction -------------------------------------------------------
    @staticmethod
    def fresh(name, kind=str, register=True):
        c = ctx()
        name = c.fresh_name(name)
        v = SText(z3.String(name), kind)
        if kind is bytes:
            c.add(z3.InRe(v.t, z3.Star(RL.ranges_to_re([(0, 255)]))))
        if register:
            c.inputs[name] = v
        return v

    @staticmethod
    def of(x, kind=None):
        if isinstance(x, SText):
            return x
        if isinstance(x, str):
            return SText(sval(x), str)
        if isinstance(x, (bytes, bytearray)):
            return SText(sval(x), bytes)
        raise Unsupported(f"not text: {type(x).__name__}")

    def _same(self, o):
        if isinstance(o, SText):
            return o
        if isinstance(o, (str, bytes, bytearray)):
            if (self.kind is str) != isinstance(o, str):
                raise TypeError(f"can't mix {self.kind.__name__} and {type(o).__name__}")
            return SText.of(o)
        return None

    # -- protocol hooks used by the runtime ------------------------------------
    def sym_len(self):
        return mk_int(z3.Length(self.t))

    length = sym_len

    def sym_type(self):
        return self.kind

    def sym_isinstance(self, ts):
        return any(t is self.kind or t is object for t in ts)

    def sym_str(self):
        if self.kind is str:
            return self
        raise Unsupported("str(bytes) of symbolic text")

    def __bool__(self):
        return ctx().branch(z3.Length(self.t) != 0, "text.nonempty")

    def __hash__(self):
        return id(self)

    def __repr__(self):
        return f"SText<{self.kind.__name__}>({self.t})"

    def __format__(self, spec):
        from .values import register_fmt

        return register_fmt(self, spec)

    def __len__(self):
        raise Unsupported("len() of symbolic text natively")

    # -- operators -----------------------------------------------------------
    def __add__(self, o):
        o2 = self._same(o)
        if o2 is None:
            return NotImplemented
        return SText(z3.Concat(self.t, o2.t), self.kind)

    def __radd__(self, o):
        o2 = self._same(o)
        if o2 is None:
            return NotImplemented
        return SText(z3.Concat(o2.t, self.t), self.kind)

    def __eq__(self, o):
        if isinstance(o, SText):
            return mk_bool(self.t == o.t) if o.kind is self.kind else False
        if isinstance(o, (str, bytes, bytearray)):
            if (self.kind is str) != isinstance(o, str):
                return False
            return mk_bool(self.t == sval(o))
        return False

    def __ne__(self, o):
        return Not(self.__eq__(o))

    def sym_contains(self, x):
        x2 = self._same(x) if not isinstance(x, (int, SInt)) else None
        if x2 is not None:
            return mk_bool(z3.Contains(self.t, x2.t))
        if isinstance(x, (int, SInt)) and self.kind is bytes:
            return mk_bool(z3.Contains(self.t, z3.Unit(z3.CharFromBv(z3.Int2BV(tint(x), 18)))))
        raise Unsupported(f"{x!r} in SText")

    def sym_getitem(self, i):
        n = z3.Length(self.t)
        c = ctx()
        if isinstance(i, slice):
            if i.step not in (None, 1):
                raise Unsupported("extended slice of symbolic text")
            a = 0 if i.start is None else tint(i.start)
            b = n if i.stop is None else tint(i.stop)
            a = a if isinstance(a, int) else z3.If(a < 0, z3.If(a + n < 0, 0, a + n), z3.If(a > n, n, a))
            b = b if not isinstance(b, z3.ExprRef) or b is n else z3.If(b < 0, z3.If(b + n < 0, 0, b + n), z3.If(b > n, n, b))
            a_t = z3.IntVal(a) if isinstance(a, int) else a
            ln = z3.If(b - a_t < 0, 0, b - a_t)
            return SText(z3.SubString(self.t, a_t, ln), self.kind)
        ti = tint(i)
        if c.branch(ti < 0, "text.negidx"):
            ti = ti + n
        if not c.branch(z3.And(ti >= 0, ti < n), "text.idx_in_range"):
            raise IndexError("index out of range")
        one = z3.SubString(self.t, ti, 1)
        if self.kind is bytes:
            return mk_int(z3.StrToCode(one))
        return SText(one, str)

    # -- methods --------------------------------------------------------------
    def encode(self, encoding="utf-8", errors="strict"):
        if self.kind is not str:
            raise AttributeError("'bytes' object has no attribute 'encode'")
        enc = encoding.lower().replace("-", "").replace("_", "")
        c = ctx()
        if enc in ("utf8", "ascii", "latin1", "iso88591"):
            stubs.used("str.encode(utf-8): ASCII chars map to the same byte; a non-ASCII char maps only to bytes >= 0x80; "
                       "lone surrogates raise UnicodeEncodeError (strict)")
            if errors == "strict":
                sur = RL.ranges_to_re([(0xD800, 0xDFFF)])
                if c.branch(z3.InRe(self.t, z3.Concat(RL.universe(False), sur, RL.universe(False))), "encode.has_surrogate"):
                    raise UnicodeEncodeError("utf-8", "\ud800", 0, 1, "surrogates not allowed")
            # abstract result: an opaque byte string whose ASCII skeleton equals the text's (chars < 0x80 are kept
            # in place, every other char becomes one or more bytes >= 0x80)
            return SText(self.t, bytes, note=("encoded", enc, self))
        raise Unsupported(f"encode({encoding})")

    def decode(self, encoding="utf-8", errors="strict"):
        if self.kind is not bytes:
            raise AttributeError("'str' object has no attribute 'decode'")
        enc = encoding.lower().replace("-", "").replace("_", "")
        if enc in ("utf8",) and errors == "surrogateescape":
            stubs.used("bytes.decode(utf-8, surrogateescape): total; ASCII bytes map to the same chars; non-ASCII bytes map "
                       "only to non-ASCII chars")
            return SText(self.t, str, note=("decoded", enc, self))
        if enc in ("latin1", "iso88591"):
            return SText(self.t, str)
        raise Unsupported(f"decode({encoding}, {errors})")

    def startswith(self, p, *a):
        if a:
            raise Unsupported("startswith with range")
        if isinstance(p, tuple):
            return Or(*[self.startswith(x) for x in p])
        return mk_bool(z3.PrefixOf(self._same(p).t, self.t))

    def endswith(self, p, *a):
        if a:
            raise Unsupported("endswith with range")
        if isinstance(p, tuple):
            return Or(*[self.endswith(x) for x in p])
        return mk_bool(z3.SuffixOf(self._same(p).t, self.t))

    def find(self, sub, start=0, end=None):
        if end is not None:
            raise Unsupported("find with end")
        return mk_int(z3.IndexOf(self.t, self._same(sub).t, tint(start)))

    def index(self, sub, start=0):
        r = self.find(sub, start)
        if ctx().branch(tint(r) < 0, "index.notfound"):
            raise ValueError("substring not found")
        return r

    def _strip_set(self, chars):
        if chars is None:
            if self.kind is bytes:
                return [(9, 13), (32, 32)]
            return [(9, 13), (28, 32), (0x85, 0x85), (0xA0, 0xA0)]
        cs = chars if isinstance(chars, str) else bytes(chars).decode("latin-1")
        return [(ord(ch), ord(ch)) for ch in cs]

    def _strip(self, chars, left, right):
        """x = l ++ r ++ t with l,t in W*, r not starting / ending with a W char"""
        c = ctx()
        W = RL.ranges_to_re(self._strip_set(chars))
        nm = c.fresh_name("strip")
        lft, mid, rgt = z3.String(nm + ".l"), z3.String(nm + ".m"), z3.String(nm + ".r")
        c.add(self.t == z3.Concat(lft, mid, rgt))
        anyc = RL.universe(self.kind is bytes)
        notW = z3.Complement(W)
        c.add(z3.InRe(lft, z3.Star(W)) if left else lft == z3.StringVal(""))
        c.add(z3.InRe(rgt, z3.Star(W)) if right else rgt == z3.StringVal(""))
        ok = []
        if left:
            ok.append(z3.Not(z3.InRe(mid, z3.Concat(W, anyc))))
        if right:
            ok.append(z3.Not(z3.InRe(mid, z3.Concat(anyc, W))))
        for o in ok:
            c.add(o)
        return SText(mid, self.kind)

    def strip(self, chars=None):
        return self._strip(chars, True, True)

    def lstrip(self, chars=None):
        return self._strip(chars, True, False)

    def rstrip(self, chars=None):
        return self._strip(chars, False, True)

    def split(self, sep=None, maxsplit=-1):
        if sep is None or maxsplit != 1:
            raise Unsupported("split other than split(sep, 1)")
        sp = self._same(sep)
        c = ctx()
        if c.branch(z3.Contains(self.t, sp.t), "split.has_sep"):
            i = z3.IndexOf(self.t, sp.t, 0)
            a = z3.SubString(self.t, 0, i)
            b = z3.SubString(self.t, i + z3.Length(sp.t), z3.Length(self.t) - i - z3.Length(sp.t))
            return [SText(a, self.kind), SText(b, self.kind)]
        return [self]

    def partition(self, sep):
        sp = self._same(sep)
        c = ctx()
        if c.branch(z3.Contains(self.t, sp.t), "partition.has_sep"):
            i = z3.IndexOf(self.t, sp.t, 0)
            a = z3.SubString(self.t, 0, i)
            b = z3.SubString(self.t, i + z3.Length(sp.t), z3.Length(self.t) - i - z3.Length(sp.t))
            return SText(a, self.kind), sep, SText(b, self.kind)
        return self, type(sep)(), type(sep)()

    def _case(self, upper):
        stubs.used("str.lower/upper on ASCII letters (other characters: unchanged is ASSUMED only for ASCII-only text)")
        # modelled as an uninterpreted function with the facts needed for comparisons against ASCII constants
        f = z3.Function("upper" if upper else "lower", S, S)
        return SText(f(self.t), self.kind, note=("case", upper, self))

    def lower(self):
        return self._case(False)

    def upper(self):
        return self._case(True)

    def isdigit(self):
        raise Unsupported("isdigit on symbolic text")

    def concretize(self, m):
        r = m.eval(self.t, model_completion=True)
        s = RL.py_unescape(r.as_string()) if z3.is_string_value(r) else str(r)
        return s.encode("latin-1", "replace") if self.kind is bytes else s


class SMatch:
    """truthy result of a successful regex call (groups are not modelled)"""

    def __init__(self, pattern, subject):
        self.pattern, self.subject = pattern, subject

    def __bool__(self):
        return True

    def group(self, *a):
        raise Unsupported("match.group on a symbolic match")


def regex_call(pat, name, args, kw):
    """pat.search/match/fullmatch(x) for a LIVE compiled pattern and symbolic text x: fork on membership in the
    translated language (see regexlang)"""
    if name not in ("search", "match", "fullmatch"):
        raise Unsupported(f"re.Pattern.{name} on symbolic text")
    x = args[0]
    if not isinstance(x, SText):
        raise Unsupported("regex on non-text proxy")
    lang = RL.lang(pat, name)
    if ctx().branch(z3.InRe(x.t, lang), f"re.{name}({pat.pattern!r:.30})"):
        return SMatch(pat, x)
    return None


def join(sep, items):
    sep = SText.of(sep)
    parts = []
    for j, e in enumerate(items):
        if j:
            parts.append(sep.t)
        parts.append(SText.of(e).t if not isinstance(e, SText) else e.t)
    if not parts:
        return SText(z3.StringVal(""), sep.kind)
    return SText(z3.Concat(*parts) if len(parts) > 1 else parts[0], sep.kind)
