"""Registry of verification units declared by the sidecar contract modules."""
from __future__ import annotations

UNITS: dict[str, "UnitDecl"] = {}


class UnitDecl:
    def __init__(self, prop, name, fn, functions, tier, expect, doc, timeout_ms, max_paths, kind):
        self.prop = prop
        self.name = name  # e.g. "C12.feed_data.inv"
        self.fn = fn  # python callable(u)
        self.functions = functions  # list of "module:QualName" under contract in this unit
        self.tier = tier  # 'quick' | 'thorough'
        self.expect = expect  # 'hold' | 'canary' (canary: at least one obligation must be refuted)
        self.doc = doc
        self.timeout_ms = timeout_ms
        self.max_paths = max_paths
        self.kind = kind  # 'proof' | 'lemma'


NATIVE: dict = {}


def width(quick: int, thorough: int) -> int:
    """element counts for loops that are verified element-wise over a small concrete list (unroll=True): the quick tier
    uses `quick`, `--tier thorough` uses `thorough`"""
    import os

    return thorough if os.environ.get("PYVC_TIER") == "thorough" else quick


def native(unit_name):
    """register a native replayer: f(model: dict, obligation: str) -> {'confirmed': bool, 'detail': str, ...}
    It must call the REAL, uninstrumented code of the current tree with the concrete counterexample."""

    def deco(f):
        NATIVE[unit_name] = f
        return f

    return deco


def unit(prop, name, functions=(), tier="quick", expect="hold", timeout_ms=None, max_paths=20000, kind="proof",
         also=(), must_cover=()):
    """also: further property ids this unit serves; for those only the obligations named '<id>.*' are counted
    must_cover: names given to u.cover(...) that some path has to reach - a reachability check behind a precondition
    or a ghost axiom: if none does, the unit is reported as a checker fault (its obligations may hold vacuously)"""

    def deco(f):
        full = f"{prop}.{name}"
        if full in UNITS:
            raise RuntimeError(f"duplicate unit {full}")
        d = UnitDecl(prop, full, f, list(functions), tier, expect, (f.__doc__ or "").strip(), timeout_ms,
                     max_paths, kind)
        d.also = tuple(also)
        d.must_cover = tuple(must_cover)
        UNITS[full] = d
        return f

    return deco
