"""Models of builtins / library calls (ASSUMED contracts; each is listed in evidence
when used).  Everything here is part of the trusted base."""
from __future__ import annotations

import z3

from .core import Unsupported, ctx
from .values import SBytes, SInt, SObj, SSeq, Seg, Src, is_sym, mk_bool, mk_int, tint

USED: set[str] = set()


def used(name: str):
    USED.add(name)


class Poison:
    """value of a variable whose shape the engine could not havoc; any use is an engine error"""

    def __init__(self, what):
        object.__setattr__(self, "_what", what)

    def _die(self, *a, **k):
        raise Unsupported(f"use of un-havocable value: {object.__getattribute__(self, '_what')}")

    __getattr__ = __call__ = __bool__ = __len__ = __iter__ = __add__ = __eq__ = __getitem__ = _die
    __hash__ = None


class Opaque:
    """a value about which nothing is known (a local that a loop carries from one iteration to the next and that the
    unit's loop contract does not describe): every comparison, identity test or truth test on it may go either way -
    an over-approximation, so whatever the code derives from it is checked for both outcomes"""

    _pyvc_sym = True

    def __init__(self, what):
        self._what = what

    def _any(self, label):
        from .values import fresh_bool

        return fresh_bool(f"{self._what}.{label}", register=False)

    def __eq__(self, o):
        return self._any("eq")

    def __ne__(self, o):
        return self._any("ne")

    def sym_is(self, o):
        return self._any("is")

    def __bool__(self):
        return ctx().branch(tbool_(self._any("truth")), f"{self._what}.truth")

    __hash__ = None

    def __repr__(self):
        return f"Opaque({self._what})"

    def __getattr__(self, name):
        if name.startswith("__") or name.startswith("sym_") or name.startswith("_pyvc"):
            raise AttributeError(name)
        raise Unsupported(f"attribute {name!r} of an undescribed loop-carried value: {self._what}")


def tbool_(x):
    from .values import tbool

    return tbool(x)


class SDecoded:
    """result of bytes.decode(): opaque text that remembers the bytes it came from"""

    def __init__(self, src_bytes, encoding, errors):
        self.src_bytes = src_bytes
        self.encoding = encoding
        self.errors = errors

    def __repr__(self):
        return f"SDecoded({self.src_bytes!r})"

    def sym_contains(self, needle):
        """`needle in text` for an ASCII needle: ASCII bytes decode to themselves under utf-8 / latin-1 / surrogateescape
        and no other byte sequence decodes to an ASCII character, so it is the content predicate of the bytes"""
        if isinstance(needle, str) and needle.isascii() and needle:
            return self.src_bytes.sym_contains(needle.encode("ascii"))
        raise Unsupported(f"{needle!r} in decoded text")

    def concretize(self, m):
        from .core import concretize

        return {"decoded_from": concretize(self.src_bytes, m)}


def bytes_decode(b: SBytes, encoding="utf-8", errors="strict"):
    """ASSUMED: decode(utf-8, strict) either returns text determined by the bytes or raises
    UnicodeDecodeError; the empty string always decodes."""
    used("bytes.decode: returns text determined by the bytes, or raises UnicodeDecodeError (only if non-empty)")
    c = ctx()
    if errors == "strict" and encoding.lower().replace("-", "") in ("utf8", "ascii"):
        n = tint(b.length())
        if c.branch(n > 0, "decode.nonempty"):
            if c.choose(2, "decode.fails"):
                raise UnicodeDecodeError("utf-8", b"\xff", 0, 1, "symbolic invalid byte")
    return SDecoded(b, encoding, errors)


def int_parse(x, base=10):
    """int(rope, base): the value is an uninterpreted non-negative function of the bytes; ValueError is possible
    unless the bytes passed a digits gate on this path (content of ropes is not modelled)"""
    if isinstance(x, SBytes):
        used("int(bytes, base) of a symbolic rope: uninterpreted non-negative value determined by the bytes")
        c = ctx()
        cache = getattr(c, "_rope_ints", None)
        if cache is None:
            cache = c._rope_ints = {}
        key = (base, x._sig())
        if key not in cache:
            from .values import fresh_int

            cache[key] = fresh_int("intval", 0, register=False)
        gated = x.pred("digits_gate", base)
        if not c.branch(tint_bool(gated), "int.parsable"):
            raise ValueError(f"invalid literal for int() with base {base}")
        return cache[key]
    raise Unsupported(f"int() of {type(x).__name__}")


def tint_bool(b):
    from .values import tbool

    return tbool(b)


def rope_regex(pat, mode, x: SBytes):
    """pattern.fullmatch/match/search on a rope: uninterpreted but functional answer (same bytes -> same answer);
    a positive fullmatch against a digits-only pattern makes int() of the same bytes total"""
    from .text import _lang_subset

    used("regex on symbolic ropes: uninterpreted functional predicate per (pattern, bytes)")
    b = x.pred("re", pat.pattern, pat.flags, mode)
    c = ctx()
    if c.branch(tint_bool(b), f"re.{mode}"):
        if mode == "fullmatch":
            for base, which in ((10, "digits"), (16, "hex")):
                if _lang_subset(pat, which):
                    c.add(tint_bool(x.pred("digits_gate", base)))
            if not hasattr(x, "matched"):
                x.matched = []
            x.matched.append(pat)
            # functional tagging for copies with the same provenance
            tags = getattr(c, "_rope_matched", None)
            if tags is None:
                tags = c._rope_matched = {}
            tags.setdefault(x._sig(), []).append(pat)

        class _M:
            def __bool__(self):
                return True

        return _M()
    return None


def bytes_contains(container, x):
    if isinstance(container, SBytes):
        return container.sym_contains(x)
    raise Unsupported("'in' on symbolic bytes (content search) - use text model")


def lifted_method(o, name, args, kw):
    if name == "join" and isinstance(o, (bytes, bytearray)):
        (xs,) = args
        if isinstance(xs, SSeq):
            return xs.join(o)
        if len(o) == 0:
            segs = []
            for e in xs:
                segs += SBytes.of(e).segs
            return SBytes(segs, type(o))
        out = []
        for j, e in enumerate(xs):
            if j:
                out += SBytes.of(o).segs
            out += SBytes.of(e).segs
        return SBytes(out, type(o))
    if isinstance(o, (bytes, bytearray)):
        return getattr(SBytes.of(o), name)(*args, **kw)
    raise Unsupported(f"{type(o).__name__}.{name} with symbolic arguments")


class SmallSet:
    """a set display with symbolic elements, e.g. {b[0], b[-1]}: supports `&` with a concrete set (truthiness of the
    intersection), `in` and truthiness"""

    def __init__(self, elts):
        self.elts = elts

    def _inter(self, other):
        from .values import Or

        alts = []
        for e in self.elts:
            for o in other:
                r = e == o
                if r is not False:
                    alts.append(r)
        return _SetTruth(Or(*alts) if alts else False)

    def __and__(self, other):
        return self._inter(other)

    __rand__ = __and__

    def sym_contains(self, x):
        from .values import Or

        alts = [e == x for e in self.elts]
        alts = [a for a in alts if a is not False]
        return Or(*alts) if alts else False

    def __bool__(self):
        return True


class _SetTruth:
    def __init__(self, cond):
        self.cond = cond

    def __bool__(self):
        from .values import tbool

        t = tbool(self.cond)
        return t if isinstance(t, bool) else ctx().branch(t, "set.intersection.nonempty")


class SRange:
    """range(stop) with a symbolic stop; iterated only through a cut for-loop"""

    def __init__(self, *a):
        if len(a) != 1:
            raise Unsupported("range() with symbolic bounds other than range(stop)")
        self.stop = a[0]

    def sym_iter(self, k, spec):
        return _RangeIter(self.stop)


class _RangeIter:
    def __init__(self, stop):
        self.stop = stop
        self.i = 0

    def havoc(self, name):
        from .values import fresh_int

        self.i = fresh_int(name, register=False)
        c = ctx()
        c.add(tint(self.i) >= 0)
        c.add(tint(self.i) <= z3.If(tint(self.stop) >= 0, tint(self.stop), 0))

    def has_next(self, L):
        return ctx().branch(tint(self.i) < tint(self.stop), "range.has_next")

    def next(self):
        v = self.i
        self.i = self.i + 1
        return v


class SAwait:
    """stub awaitable returned by modelled async calls.

    result: value (or zero-arg callable evaluated on resume) delivered by the await
    raises: exception instances/classes that the await may raise (forked)"""

    def __init__(self, result=None, raises=(), name="await", on_resume=None, on_raise=None, on_suspend=None):
        self.result = result
        self.raises = tuple(raises)
        self.name = name
        self.on_resume = on_resume
        self.on_raise = on_raise  # called with the exception about to be thrown into the coroutine
        self.on_suspend = on_suspend  # called when the coroutine suspends here (before the outcome is chosen)

    def __await__(self):  # pragma: no cover - only reached through __vc.suspend
        raise Unsupported("SAwait awaited outside instrumented code")
        yield


def struct_unpack_from(fmt: str):
    """model of struct.Struct(fmt).unpack_from for the big-endian unsigned formats used"""
    import struct

    size = struct.calcsize(fmt)

    def unpack_from(data, offset=0):
        used(f"struct.unpack_from({fmt!r}): big-endian unsigned decoding, struct.error when fewer than {size} bytes")
        if not is_sym(data) and not is_sym(offset):
            return struct.unpack_from(fmt, data, offset)
        d = SBytes.of(data)
        c = ctx()
        n = tint(d.length())
        off = tint(offset)
        if not c.branch(z3.And(off >= 0, n - off >= size), f"unpack_from({fmt}).enough"):
            raise struct.error(f"unpack_from requires a buffer of at least {size} bytes")
        return _unpack_fields(fmt, d, off)

    return unpack_from


def struct_unpack(fmt: str):
    import struct

    size = struct.calcsize(fmt)

    def unpack(data):
        used(f"struct.unpack({fmt!r}): big-endian unsigned decoding, struct.error unless exactly {size} bytes")
        if not is_sym(data):
            return struct.unpack(fmt, data)
        d = SBytes.of(data)
        c = ctx()
        n = tint(d.length())
        if not c.branch(n == size, f"unpack({fmt}).size"):
            raise struct.error(f"unpack requires a buffer of {size} bytes")
        return _unpack_fields(fmt, d, z3.IntVal(0))

    return unpack


_FMT_SIZES = {"B": 1, "H": 2, "L": 4, "I": 4, "Q": 8}


def _unpack_fields(fmt, d: SBytes, off):
    assert fmt[0] == "!", fmt
    out = []
    pos = off
    for ch in fmt[1:]:
        sz = _FMT_SIZES[ch]
        t = z3.IntVal(0)
        for j in range(sz):
            b = d.byte_at(mk_int(pos + j))
            t = t * 256 + tint(b)
        out.append(mk_int(t))
        pos = pos + sz
    return tuple(out)


def struct_pack(fmt: str):
    """model of struct.Struct(fmt).pack for '!' + [BHLQ]* : range errors raise struct.error"""
    import struct

    def pack(*vals):
        used(f"struct.pack({fmt!r}): big-endian unsigned encoding, struct.error when a value is out of range")
        if not any(is_sym(v) for v in vals):
            return struct.pack(fmt, *vals)
        assert fmt[0] == "!" and len(fmt) - 1 == len(vals), (fmt, vals)
        c = ctx()
        segs = []
        for ch, v in zip(fmt[1:], vals):
            sz = _FMT_SIZES[ch]
            tv = tint(v)
            if not c.branch(z3.And(tv >= 0, tv < (1 << (8 * sz))), f"pack({ch}).in_range"):
                raise struct.error(f"'{ch}' format requires 0 <= number <= {(1 << (8 * sz)) - 1}")
            s = Src(c.fresh_name(f"packed_{ch}"), z3.IntVal(sz))
            # linear encoding: v == sum(byte_j * 256^(sz-1-j)) with every byte in 0..255 (the base-256
            # representation of an in-range value is unique, so this is exactly big-endian packing)
            tot = z3.IntVal(0)
            for j in range(sz):
                bj = z3.FreshInt(f"{s.name}.b{j}")
                c.add(z3.And(bj >= 0, bj <= 255))
                c.add(z3.Select(s.arr, j) == bj)
                tot = tot + bj * (256 ** (sz - 1 - j))
            c.add(tot == tv)
            segs.append(Seg(s, z3.IntVal(0), sz))
        return SBytes(segs, bytes)

    return pack


class SLock:
    """model of asyncio.Lock used with ``async with`` (ASSUMED: mutual exclusion, FIFO wake-up).
    Acquisition is a suspension point (the lock may be contended); the ghost flag ``held`` and the
    event log let contracts state 'X happens only while the lock is held'."""

    def __init__(self, unit, name="lock"):
        self.unit = unit
        self.name = name
        self.held = False

    async def __aenter__(self):
        from .runtime import _Susp

        used("asyncio.Lock: mutual exclusion; acquire may suspend and may be cancelled before the lock is taken")
        self.unit.event(f"{self.name}.acquire.begin")
        await _Susp(f"{self.name}.acquire", SAwait(name=f"{self.name}.acquire"), "lock")
        self.held = True
        self.unit.event(f"{self.name}.acquired")
        return None

    async def __aexit__(self, et, ev, tb):
        self.held = False
        self.unit.event(f"{self.name}.released")
        return False

    def locked(self):
        return self.held
