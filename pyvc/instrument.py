"""Mechanical extraction + instrumentation of the REAL function text.

``load(module, qualname)`` re-reads ``$PYVC_REPO/<module path>.py`` from the
working tree on every run, locates the function by qualified name, applies the
rewrite below and compiles it against the live module globals (constants and
regexes are those of the current tree).

What the rewrite changes (complete list; everything else is executed by CPython):
  * annotations, decorators and the docstring of the function are dropped;
  * names of builtins (len, int, bool, bytes, bytearray, isinstance, type, max,
    min, str, repr, hex, abs, divmod, sum, any, all, tuple, list, set, frozenset,
    dict, enumerate, range, zip, sorted, reversed, hash, id, callable) are read
    as ``__vc.b_<name>`` (proxy-aware versions; real values pass through);
  * ``x[i]`` loads -> ``__vc.getitem(x, i)``; ``a in b`` / ``not in`` / ``is`` /
    ``is not`` -> ``__vc.contains / is_``; method calls ``o.m(...)`` ->
    ``__vc.callm(o, 'm', ...)`` (dispatch to proxy models when o or an argument
    is symbolic, else the real method);
  * ``while`` / ``for`` loops are cut: loop_head (assert invariant, havoc the
    variables assigned in the body and the mutable heap, assume invariant), one
    symbolic iteration, loop_back (assert invariant + variant, end of path);
    ``continue`` becomes loop_back;  ``for`` over a concrete sequence of concrete
    length that the unit marks ``unroll`` is left native;
  * ``await e`` -> ``await __vc.suspend(e, site)``;
  * every arm of every ``if`` (an absent ``else`` included) starts with ``__vc.mark("<line>T|F")``: a record of
    which arms of the real text were reached on a feasible explored path (reported in the evidence; no effect on
    the values computed).
"""
from __future__ import annotations

import ast
import hashlib
import importlib
import inspect
import os
import sys
import textwrap

REPO = os.environ.get("PYVC_REPO", "/repo")

BUILTINS = {
    "len", "int", "bool", "bytes", "bytearray", "isinstance", "type", "max", "min", "str", "repr", "hex",
    "abs", "divmod", "sum", "any", "all", "tuple", "list", "set", "frozenset", "dict", "enumerate", "range",
    "zip", "sorted", "reversed", "hash", "id", "callable", "float", "round", "iter", "next", "getattr", "hasattr",
    "ord", "chr",
}


def _ensure_repo_on_path():
    if sys.path[0] != REPO:
        if REPO in sys.path:
            sys.path.remove(REPO)
        sys.path.insert(0, REPO)


class FnInfo:
    def __init__(self):
        self.module = ""
        self.qualname = ""
        self.file = ""
        self.lineno = 0
        self.sha256 = ""
        self.source = ""
        self.n_loops = 0
        self.n_awaits = 0
        self.loops: list[dict] = []  # {index, lineno, kind, assigned}
        self.awaits: list[dict] = []
        self.dropped: list[str] = []
        self.is_async = False
        self.arms: list[str] = []  # "<lineno>T" / "<lineno>F" for every `if` of the function (line numbers of the file)


def find_function(tree: ast.Module, qualname: str):
    parts = qualname.split(".")
    node: ast.AST = tree
    for p in parts:
        found = None
        for ch in ast.iter_child_nodes(node):
            if isinstance(ch, (ast.ClassDef, ast.FunctionDef, ast.AsyncFunctionDef)) and ch.name == p:
                found = ch
        if found is None:
            # search inside If/Try blocks at module level (e.g. "if not NO_EXTENSIONS:")
            cands = [ch for ch in ast.walk(node)
                     if isinstance(ch, (ast.ClassDef, ast.FunctionDef, ast.AsyncFunctionDef)) and ch.name == p]

            def is_stub(fn):
                # a typing-only twin: `def f(...) -> T: ...` under `if TYPE_CHECKING` next to the real definition
                body = [b for b in getattr(fn, "body", []) if not (isinstance(b, ast.Expr) and isinstance(b.value, ast.Constant)
                                                                   and isinstance(b.value.value, str))]
                return all(isinstance(b, ast.Expr) and isinstance(b.value, ast.Constant) and b.value.value is Ellipsis
                           for b in body) if body else True

            real = [c_ for c_ in cands if not is_stub(c_)]
            if real or cands:
                found = (real or cands)[0]
        if found is None:
            raise LookupError(f"{qualname}: '{p}' not found")
        node = found
    return node


def _assigned_names(nodes) -> list[str]:
    """names bound in the statements (not descending into nested function scopes)"""
    out: list[str] = []

    class V(ast.NodeVisitor):
        def visit_FunctionDef(self, n):
            out.append(n.name)

        visit_AsyncFunctionDef = visit_FunctionDef

        def visit_ClassDef(self, n):
            out.append(n.name)

        def visit_Lambda(self, n):
            pass

        def visit_Name(self, n):
            if isinstance(n.ctx, (ast.Store, ast.Del)):
                out.append(n.id)

        def visit_ExceptHandler(self, n):
            if n.name:
                out.append(n.name)
            self.generic_visit(n)

        def visit_ListComp(self, n):
            # comprehension targets are local to the comprehension; walrus inside still binds
            for w in ast.walk(n):
                if isinstance(w, ast.NamedExpr):
                    out.append(w.target.id)

        visit_SetComp = visit_DictComp = visit_GeneratorExp = visit_ListComp

    v = V()
    for s in nodes:
        v.visit(s)
    seen = []
    for n in out:
        if n not in seen:
            seen.append(n)
    return seen


MUTATORS = {"append", "appendleft", "extend", "extendleft", "clear", "pop", "popleft", "popitem", "remove", "insert",
            "add", "discard", "update", "setdefault", "sort", "reverse"}


def _mutated_names(nodes) -> list[str]:
    """local names that are mutated in place in the statements (X.append(...), X[i] = ..., X += ...)"""
    out: list[str] = []
    for s in nodes:
        for n in ast.walk(s):
            if isinstance(n, ast.Call) and isinstance(n.func, ast.Attribute) and isinstance(n.func.value, ast.Name) \
                    and n.func.attr in MUTATORS and n.func.value.id not in ("self",):
                out.append(n.func.value.id)
            elif isinstance(n, ast.Subscript) and isinstance(n.ctx, (ast.Store, ast.Del)) and isinstance(n.value, ast.Name):
                out.append(n.value.id)
    seen = []
    for x in out:
        if x not in seen:
            seen.append(x)
    return seen


class Rewriter(ast.NodeTransformer):
    def __init__(self, info: FnInfo, local_names: set[str]):
        self.info = info
        self.loop_stack: list[int] = []
        self.local_names = local_names
        self.depth = 0
        self.self_name = None

    # -- helpers ----------------------------------------------------------
    def vc(self, name, *args, keywords=None):
        return ast.Call(
            func=ast.Attribute(value=ast.Name(id="__vc", ctx=ast.Load()), attr=name, ctx=ast.Load()),
            args=list(args),
            keywords=keywords or [],
        )

    def locals_call(self):
        return ast.Call(func=ast.Name(id="__vc_locals", ctx=ast.Load()), args=[], keywords=[])

    # -- scopes -------------------------------------------------------------
    def visit_FunctionDef(self, node):
        # nested function: rewrite its body too, loops inside are numbered in the same sequence
        node.returns = None
        for a in node.args.args + node.args.kwonlyargs + node.args.posonlyargs:
            a.annotation = None
        if node.args.vararg:
            node.args.vararg.annotation = None
        if node.args.kwarg:
            node.args.kwarg.annotation = None
        saved = self.loop_stack
        self.loop_stack = []
        self.depth += 1
        node.body = [self.visit(s) for s in node.body]
        node.body = _flatten(node.body)
        self.depth -= 1
        self.loop_stack = saved
        node.decorator_list = [] if self.depth == 0 else [self.visit(d) for d in node.decorator_list]
        return node

    visit_AsyncFunctionDef = visit_FunctionDef

    def visit_Lambda(self, node):
        node.body = self.visit(node.body)
        return node

    def visit_Return(self, node):
        self.generic_visit(node)
        if self.depth == 1:
            node.value = self.vc("ret", node.value or ast.Constant(value=None), self.locals_call())
        return node

    def visit_AnnAssign(self, node):
        if node.value is None:
            return ast.Pass()
        return ast.copy_location(
            ast.Assign(targets=[self.visit(node.target)], value=self.visit(node.value)), node
        )

    # -- expressions ----------------------------------------------------------
    class_name = None

    def visit_Attribute(self, node):
        self.generic_visit(node)
        if self.class_name and node.attr.startswith("__") and not node.attr.endswith("__"):
            node.attr = f"_{self.class_name}{node.attr}"
        return node

    def visit_Name(self, node):
        if isinstance(node.ctx, ast.Load) and node.id in BUILTINS and node.id not in self.local_names:
            return ast.copy_location(
                ast.Attribute(value=ast.Name(id="__vc", ctx=ast.Load()), attr="b_" + node.id, ctx=ast.Load()), node
            )
        return node

    def visit_Subscript(self, node):
        self.generic_visit(node)
        if isinstance(node.ctx, ast.Load):
            idx = node.slice
            if isinstance(idx, ast.Slice):
                none = ast.Constant(value=None)
                idx = self.vc("mkslice", idx.lower or none, idx.upper or none, idx.step or none)
            return ast.copy_location(self.vc("getitem", node.value, idx), node)
        return node

    def visit_Compare(self, node):
        self.generic_visit(node)
        if len(node.ops) == 1:
            op = node.ops[0]
            l, r = node.left, node.comparators[0]
            if isinstance(op, ast.In):
                return ast.copy_location(self.vc("contains", r, l), node)
            if isinstance(op, ast.NotIn):
                return ast.copy_location(self.vc("not_", self.vc("contains", r, l)), node)
            if isinstance(op, ast.Is):
                return ast.copy_location(self.vc("is_", l, r), node)
            if isinstance(op, ast.IsNot):
                return ast.copy_location(self.vc("not_", self.vc("is_", l, r)), node)
        return node

    def visit_Set(self, node):
        self.generic_visit(node)
        if any(isinstance(e, ast.Starred) for e in node.elts):
            return node
        return ast.copy_location(self.vc("mkset", *node.elts), node)

    def visit_UnaryOp(self, node):
        self.generic_visit(node)
        if isinstance(node.op, ast.Not):
            return ast.copy_location(self.vc("not_", node.operand), node)
        return node

    def visit_Call(self, node):
        self.generic_visit(node)
        f = node.func
        if isinstance(f, ast.Name) and f.id == "super" and not node.args and self.self_name:
            # zero-argument super() needs the class cell, which an extracted function does not have
            return ast.copy_location(self.vc("super_", ast.Name(id=self.self_name, ctx=ast.Load())), node)
        if isinstance(f, ast.Attribute) and not (isinstance(f.value, ast.Name) and f.value.id == "__vc"):
            if any(isinstance(a, ast.Starred) for a in node.args) or any(k.arg is None for k in node.keywords):
                return node
            return ast.copy_location(
                self.vc("callm", f.value, ast.Constant(value=f.attr), *node.args, keywords=node.keywords), node
            )
        return node

    def visit_Await(self, node):
        self.generic_visit(node)
        k = self.info.n_awaits
        self.info.n_awaits += 1
        self.info.awaits.append({"index": k, "lineno": node.lineno, "expr": ast.unparse(node.value)[:120]})
        node.value = self.vc("suspend", node.value, ast.Constant(value=k))
        return node

    def visit_JoinedStr(self, node):
        self.generic_visit(node)
        return node

    # -- branch arms (reachability record, no semantic change) -------------------
    def visit_If(self, node):
        node = self.generic_visit(node)
        t, f = f"{node.lineno}T", f"{node.lineno}F"
        self.info.arms += [t, f]
        node.body = [ast.Expr(value=self.vc("mark", ast.Constant(value=t)))] + list(node.body)
        node.orelse = [ast.Expr(value=self.vc("mark", ast.Constant(value=f)))] + list(node.orelse)
        return node

    # -- loops ----------------------------------------------------------------
    def _loop(self, node, kind):
        k = self.info.n_loops
        self.info.n_loops += 1
        assigned = _assigned_names(node.body + node.orelse)
        for nm in _mutated_names(node.body + node.orelse):
            if nm not in assigned:
                assigned.append(nm)
        if kind == "for":
            assigned = _assigned_names([ast.Expr(value=node.target)]) + assigned
        stored_attrs = sorted({n.attr for s in node.body + node.orelse for n in ast.walk(s)
                               if isinstance(n, ast.Attribute) and isinstance(n.ctx, (ast.Store, ast.Del))
                               and isinstance(n.value, ast.Name) and n.value.id == (self.self_name or "self")})
        self.info.loops.append({"index": k, "lineno": node.lineno, "kind": kind, "assigned": assigned,
                                "stored_attrs": stored_attrs,
                                "head": ast.unparse(node.test if kind == "while" else node.iter)[:100]})
        self.loop_stack.append(k)
        body = _flatten([self.visit(s) for s in node.body])
        self.loop_stack.pop()
        orelse = _flatten([self.visit(s) for s in node.orelse])
        kconst = ast.Constant(value=k)
        hname = f"__vc_h{k}"
        pre = [
            ast.Assign(targets=[ast.Name(id=hname, ctx=ast.Store())],
                       value=self.vc("loop_head", kconst, self.locals_call()))
        ]
        for nm in assigned:
            pre.append(
                ast.If(
                    test=ast.Compare(left=ast.Constant(value=nm), ops=[ast.In()],
                                     comparators=[ast.Name(id=hname, ctx=ast.Load())]),
                    body=[ast.Assign(targets=[ast.Name(id=nm, ctx=ast.Store())],
                                     value=ast.Subscript(value=ast.Name(id=hname, ctx=ast.Load()),
                                                         slice=ast.Constant(value=nm), ctx=ast.Load()))],
                    orelse=[],
                )
            )
        back = ast.Expr(value=self.vc("loop_back", kconst, self.locals_call()))
        if kind == "while":
            test = self.visit(node.test)
            new = ast.While(test=test, body=body + [back], orelse=orelse)
            return [ast.copy_location(s, node) for s in pre] + [ast.copy_location(new, node)]
        # for loop:  for T in it: body   ==>  cut on an abstract iterator
        it = self.visit(node.iter)
        itname = f"__vc_it{k}"
        pre.insert(0, ast.Assign(targets=[ast.Name(id=itname, ctx=ast.Store())],
                                 value=self.vc("for_iter", kconst, it)))
        # native loop when the iterable is concrete and the unit asked for unrolling
        native = ast.For(target=node.target, iter=ast.Name(id=itname, ctx=ast.Load()),
                         body=_flatten([NativeLoopBody(k).visit(_copy(s)) for s in body]), orelse=orelse)
        test = self.vc("for_has_next", kconst, ast.Name(id=itname, ctx=ast.Load()), self.locals_call())
        bind = ast.Assign(targets=[node.target],
                          value=self.vc("for_next", kconst, ast.Name(id=itname, ctx=ast.Load())))
        cut = ast.While(test=test, body=[bind] + body + [back], orelse=orelse)
        sel = ast.If(test=self.vc("for_native", kconst, ast.Name(id=itname, ctx=ast.Load())),
                     body=[native], orelse=pre[1:] + [cut])
        return [ast.copy_location(pre[0], node), ast.copy_location(sel, node)]

    def visit_While(self, node):
        return self._loop(node, "while")

    def visit_For(self, node):
        return self._loop(node, "for")

    def visit_Continue(self, node):
        if not self.loop_stack:
            return node
        k = self.loop_stack[-1]
        # cut mode: loop_continue checks the invariant and ends the path; unrolled mode: it returns and the
        # native `continue` takes effect
        return [
            ast.copy_location(
                ast.Expr(value=self.vc("loop_continue", ast.Constant(value=k), self.locals_call())), node
            ),
            ast.copy_location(ast.Continue(), node),
        ]

    def generic_visit(self, node):
        # statements lists may receive lists from _loop
        for field, old in ast.iter_fields(node):
            if isinstance(old, list):
                new = []
                for v in old:
                    if isinstance(v, ast.AST):
                        r = self.visit(v)
                        if r is None:
                            continue
                        if isinstance(r, list):
                            new.extend(r)
                        else:
                            new.append(r)
                    else:
                        new.append(v)
                old[:] = new
            elif isinstance(old, ast.AST):
                r = self.visit(old)
                if r is None:
                    delattr(node, field)
                else:
                    setattr(node, field, r)
        return node


class HoistListComps(ast.NodeTransformer):
    """[elt for T in it if c] inside a simple statement  ==>  explicit loop before the statement:
           __vc_lcN = []
           for T in it:
               if c: __vc_lcN.append(elt)
    (so that the loop can be cut like any other).  Differences from CPython: the loop target leaks into
    the function scope and the comprehension is evaluated before the other sub-expressions of the
    statement; only applied to single-generator, non-async list comprehensions."""

    def __init__(self):
        self.n = 0

    def _hoist(self, stmt):
        found = []
        outer = self

        class R(ast.NodeTransformer):
            def visit_Lambda(self, n):
                return n

            def visit_FunctionDef(self, n):
                return n

            visit_AsyncFunctionDef = visit_FunctionDef

            def visit_ListComp(self, n):
                if len(n.generators) != 1 or n.generators[0].is_async:
                    return n
                self.generic_visit(n)
                name = f"__vc_lc{outer.n}"
                outer.n += 1
                found.append((name, n))
                return ast.copy_location(ast.Name(id=name, ctx=ast.Load()), n)

        new = R().visit(stmt)
        pre = []
        for name, comp in found:
            g = comp.generators[0]
            body = ast.Expr(value=ast.Call(func=ast.Attribute(value=ast.Name(id=name, ctx=ast.Load()), attr="append",
                                                             ctx=ast.Load()), args=[comp.elt], keywords=[]))
            for cond in reversed(g.ifs):
                body = ast.If(test=cond, body=[body], orelse=[])
            pre.append(ast.Assign(targets=[ast.Name(id=name, ctx=ast.Store())], value=ast.List(elts=[], ctx=ast.Load())))
            pre.append(ast.For(target=g.target, iter=g.iter, body=[body], orelse=[]))
        return [ast.copy_location(p, stmt) for p in pre] + [new]

    def visit_Return(self, node):
        return self._hoist(node)

    visit_Assign = visit_AugAssign = visit_Expr = visit_Return


class NativeLoopBody(ast.NodeTransformer):
    """inside a natively executed (concrete) for loop the cut calls must be inert:
    loop_continue(k) -> continue, trailing loop_back(k) removed"""

    def __init__(self, k):
        self.k = k

    def _is(self, node, names):
        return (
            isinstance(node, ast.Expr) and isinstance(node.value, ast.Call)
            and isinstance(node.value.func, ast.Attribute) and node.value.func.attr in names
            and isinstance(node.value.func.value, ast.Name) and node.value.func.value.id == "__vc"
            and node.value.args and isinstance(node.value.args[0], ast.Constant) and node.value.args[0].value == self.k
        )

    def visit_Expr(self, node):
        if self._is(node, ("loop_continue",)):
            return ast.copy_location(ast.Continue(), node)
        if self._is(node, ("loop_back",)):
            return ast.copy_location(ast.Pass(), node)
        return node


def _copy(n):
    import copy

    return copy.deepcopy(n)


def _flatten(xs):
    out = []
    for x in xs:
        if x is None:
            continue
        if isinstance(x, list):
            out.extend(_flatten(x))
        else:
            out.append(x)
    return out


_CACHE: dict = {}


def load(module: str, qualname: str, extra_globals: dict | None = None, *, vc=None, block: tuple | None = None):
    """returns (python function object [unbound], FnInfo).

    ``block=(start_marker, end_marker)`` is reserved for statement-range extraction."""
    from . import runtime

    _ensure_repo_on_path()
    path = os.path.join(REPO, *module.split(".")) + ".py"
    src = open(path, encoding="utf-8").read()
    tree = ast.parse(src, filename=path)
    node = find_function(tree, qualname)
    seg = ast.get_source_segment(src, node) or ""
    info = FnInfo()
    info.module, info.qualname, info.file, info.lineno = module, qualname, path, node.lineno
    info.source = seg
    info.sha256 = hashlib.sha256(seg.encode()).hexdigest()
    info.is_async = isinstance(node, ast.AsyncFunctionDef)
    info.dropped = ["type annotations", "decorators: " + ", ".join(ast.unparse(d) for d in node.decorator_list)
                    if node.decorator_list else "decorators: none", "docstring"]
    fn = _copy(node)
    # drop docstring
    if fn.body and isinstance(fn.body[0], ast.Expr) and isinstance(getattr(fn.body[0], "value", None), ast.Constant) \
            and isinstance(fn.body[0].value.value, str):
        fn.body = fn.body[1:] or [ast.Pass()]
    fn = HoistListComps().visit(fn)
    ast.fix_missing_locations(fn)
    local_names = set(_assigned_names(fn.body)) | {a.arg for a in fn.args.args + fn.args.kwonlyargs + fn.args.posonlyargs}
    rw = Rewriter(info, local_names)
    if fn.args.args:
        rw.self_name = fn.args.args[0].arg
    if "." in qualname:
        # private names (self.__x) are mangled by the compiler inside a class body; the extracted function is compiled
        # outside of it, so the mangling is applied here
        rw.class_name = qualname.split(".")[-2].lstrip("_")
    fn = rw.visit(fn)
    fn.decorator_list = []
    fn.body.append(ast.Expr(value=rw.vc("ret", ast.Constant(value=None), rw.locals_call())))
    mod = ast.Module(body=[fn], type_ignores=[])
    ast.fix_missing_locations(mod)
    code = compile(mod, f"<pyvc:{module}:{qualname}>", "exec")
    realmod = importlib.import_module(module)
    if not os.path.abspath(realmod.__file__).startswith(os.path.abspath(REPO) + os.sep):
        raise ImportError(f"{module} imported from {realmod.__file__}, not from {REPO}")
    g = dict(realmod.__dict__)
    # module-level bound methods of struct.Struct objects (PACK_* / UNPACK_*) are replaced by the
    # struct model built from the LIVE format string
    import struct as _struct
    from . import stubs as _stubs

    for k_, v_ in list(g.items()):
        s_ = getattr(v_, "__self__", None)
        if isinstance(s_, _struct.Struct):
            mk = {"unpack_from": _stubs.struct_unpack_from, "unpack": _stubs.struct_unpack,
                  "pack": _stubs.struct_pack}.get(getattr(v_, "__name__", ""))
            if mk is not None:
                g[k_] = mk(s_.format)
    g["__vc"] = vc or runtime.VC
    g["__vc_locals"] = locals_snapshot
    if extra_globals:
        g.update(extra_globals)
    ns: dict = {}
    try:
        exec(code, g, ns)
    except NameError:
        # a default argument that names a class-level attribute (`def read_chunk(self, size=chunk_size)`): evaluated in
        # the class body at definition time, it is not a global.  Take the default VALUES from the live function object.
        live_obj = realmod
        for part in qualname.split("."):
            live_obj = inspect.getattr_static(live_obj, part) if not isinstance(live_obj, type(realmod)) else getattr(live_obj, part)
        live_fn = getattr(live_obj, "__func__", live_obj)
        live_fn = getattr(live_fn, "fget", live_fn)
        fn.args.defaults = [ast.Constant(value=None) for _ in fn.args.defaults]
        fn.args.kw_defaults = [None if d is None else ast.Constant(value=None) for d in fn.args.kw_defaults]
        ast.fix_missing_locations(mod)
        code = compile(mod, f"<pyvc:{module}:{qualname}>", "exec")
        ns = {}
        exec(code, g, ns)
        ns[fn.name].__defaults__ = live_fn.__defaults__
        ns[fn.name].__kwdefaults__ = live_fn.__kwdefaults__
    f = ns[fn.name]
    # make the function see its own globals (exec with separate locals keeps g as globals)
    return f, info


def locals_snapshot():
    """locals() of the caller frame (the instrumented function)"""
    fr = sys._getframe(1)
    return dict(fr.f_locals)


def instrumented_source(module: str, qualname: str) -> str:
    """for debugging / evidence: the text that is executed"""
    path = os.path.join(REPO, *module.split(".")) + ".py"
    src = open(path, encoding="utf-8").read()
    tree = ast.parse(src)
    node = _copy(find_function(tree, qualname))
    info = FnInfo()
    local_names = set(_assigned_names(node.body))
    fn = Rewriter(info, local_names).visit(node)
    ast.fix_missing_locations(fn)
    return ast.unparse(fn)
