"""Abstract domain for path-like texts: a text is known through its length and, per tracked character, an
uninterpreted predicate "the character at index i is ch".  Values are prefixes text[:n].  All reasoning is linear integer
arithmetic + uninterpreted predicates; the quantified facts the string operations produce ("no '/' between j and n") are
kept as interval facts and instantiated for every index the unit registers as interesting (ghost indices) and for every
index the operations themselves introduce.

Modelled operations (ASSUMED str semantics): truthiness, len, == with '' / a 1-char tracked constant / another prefix of
the same text, `ch in x`, startswith/endswith(ch), partition(ch)[0], rpartition(ch)[0], rstrip(ch)."""
from __future__ import annotations

import z3

from . import stubs
from .core import Unsupported, ctx
from .values import mk_bool, mk_int, tint


class PText:
    def __init__(self, name, tracked=("/",), preds=None):
        c = ctx()
        self.name = c.fresh_name(name)
        self.N = z3.Int(self.name + ".len")
        c.add(self.N >= 0)
        self.preds = {}
        for ch in tracked:
            f = z3.Function(f"{self.name}.is[{ch}]", z3.IntSort(), z3.BoolSort())
            self.preds[ch] = (lambda i, f=f: f(i))
        if preds:
            self.preds.update(preds)
        self.indices = []
        self.facts = []  # (ch, lo, hi, positive)
        stubs.used("prefix domain: str.partition / rpartition / rstrip / in / startswith / endswith on a text known by "
                   "its length and per-character index predicates")
        # two tracked characters never occupy the same index
        self._exclusive_done = set()

    def pred(self, ch):
        if ch not in self.preds:
            raise Unsupported(f"character {ch!r} is not tracked for text {self.name}")
        return self.preds[ch]

    def whole(self):
        return Pref(self, self.N)

    def register(self, idx):
        """instantiate every interval fact (and character exclusivity) at index idx"""
        t = tint(idx)
        self.indices.append(t)
        for f in self.facts:
            self._inst(f, t)
        self._exclusive(t)

    def _exclusive(self, t):
        chs = list(self.preds)
        c = ctx()
        for a in range(len(chs)):
            for b in range(a + 1, len(chs)):
                c.add(z3.Not(z3.And(self.preds[chs[a]](t), self.preds[chs[b]](t))))

    def add_fact(self, ch, lo, hi, positive):
        f = (ch, lo, hi, positive)
        self.facts.append(f)
        for t in self.indices:
            self._inst(f, t)

    def _inst(self, f, t):
        ch, lo, hi, positive = f
        p = self.pred(ch)(t)
        ctx().add(z3.Implies(z3.And(lo <= t, t < hi), p if positive else z3.Not(p)))

    def fresh_index(self, tag):
        c = ctx()
        v = z3.Int(c.fresh_name(f"{self.name}.{tag}"))
        return v


class Pref:
    """text[:n]"""

    _pyvc_sym = True

    def __init__(self, text: PText, n):
        self.text = text
        self.n = n if isinstance(n, z3.ExprRef) else z3.IntVal(n)

    # -- basics
    def sym_len(self):
        return mk_int(self.n)

    def __bool__(self):
        return ctx().branch(self.n > 0, "pref.nonempty")

    def __hash__(self):
        return id(self)

    def __repr__(self):
        return f"Pref({self.text.name})"

    def sym_type(self):
        return str

    def sym_isinstance(self, ts):
        return str in ts or object in ts

    def __eq__(self, o):
        if isinstance(o, Pref):
            if o.text is not self.text:
                raise Unsupported("== between prefixes of different texts")
            return mk_bool(self.n == o.n)
        if isinstance(o, str):
            if o == "":
                return mk_bool(self.n == 0)
            if len(o) == 1 and o in self.text.preds:
                return mk_bool(z3.And(self.n == 1, self.text.pred(o)(z3.IntVal(0))))
            raise Unsupported(f"Pref == {o!r}")
        return False

    def __ne__(self, o):
        from .values import Not

        r = self.__eq__(o)
        return (not r) if isinstance(r, bool) else Not(r)

    def startswith(self, ch):
        return mk_bool(z3.And(self.n >= 1, self.text.pred(ch)(z3.IntVal(0))))

    def endswith(self, ch):
        return mk_bool(z3.And(self.n >= 1, self.text.pred(ch)(self.n - 1)))

    def _first(self, ch):
        """(exists, b): b = index of the first ch in self, when one exists"""
        memo = self.__dict__.setdefault("_first_memo", {})
        if ch in memo:
            return memo[ch]
        c = ctx()
        T = self.text
        e = z3.Bool(c.fresh_name(f"{T.name}.has[{ch}]"))
        b = T.fresh_index(f"first[{ch}]")
        c.add(z3.Implies(e, z3.And(0 <= b, b < self.n, T.pred(ch)(b))))
        T.register(b)
        # exists: nothing before b; not exists: nothing at all
        T.add_fact(ch, z3.IntVal(0), z3.If(e, b, self.n), False)
        memo[ch] = (e, b)
        return memo[ch]

    def sym_contains(self, ch):
        if not (isinstance(ch, str) and len(ch) == 1):
            raise Unsupported(f"{ch!r} in Pref")
        return mk_bool(self._first(ch)[0])

    def partition(self, ch):
        e, b = self._first(ch)
        if ctx().branch(e, "partition.has_sep"):
            return Pref(self.text, b), ch, _Opaque("partition tail")
        return self, "", ""

    def rpartition(self, ch):
        c = ctx()
        T = self.text
        e, _ = self._first(ch)
        if not c.branch(e, "rpartition.has_sep"):
            return "", "", self
        j = T.fresh_index(f"last[{ch}]")
        c.add(z3.And(0 <= j, j < self.n, T.pred(ch)(j)))
        T.register(j)
        T.add_fact(ch, j + 1, self.n, False)
        return Pref(T, j), ch, _Opaque("rpartition tail")

    def rstrip(self, ch):
        if not (isinstance(ch, str) and len(ch) == 1):
            raise Unsupported("rstrip of more than one character")
        c = ctx()
        T = self.text
        m = T.fresh_index(f"rstrip[{ch}]")
        c.add(z3.And(0 <= m, m <= self.n))
        T.register(m)
        T.register(m - 1)
        T.add_fact(ch, m, self.n, True)
        c.add(z3.Or(m == 0, z3.Not(T.pred(ch)(m - 1))))
        return Pref(T, m)

    def concretize(self, m):
        return {"prefix_len": str(m.eval(self.n, model_completion=True))}


class _Opaque:
    def __init__(self, what):
        self.what = what

    def __getattr__(self, name):
        raise Unsupported(f"operation {name} on the {self.what}")
