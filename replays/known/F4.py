"""F4a / F4b (C02 framing agreement, client side).  exit 1 = defect reproduces.
  a: session.post(url, data=b"hello", chunked=False): header says Content-Length: 5 but the body is chunk-framed
     (ClientRequest._create_writer enables chunking when `chunked is not None`)
  b: caller header Transfer-Encoding: chunked with data=b"hello": the request carries TE: chunked AND Content-Length: 5
     and the body is not chunk-framed
  d: session.get(url, chunked=True): no Transfer-Encoding header, yet the writer emits the terminating chunk "0\\r\\n\\r\\n"
  e: session.get(url, headers={"Transfer-Encoding": "chunked"}): announces chunked framing, sends no terminating chunk"""
import asyncio, sys
import aiohttp

async def grab(kw):
    got = []
    async def handle(reader, writer):
        data = b""
        try:
            while True:
                c = await asyncio.wait_for(reader.read(4096), 0.3)
                if not c:
                    break
                data += c
        except asyncio.TimeoutError:
            pass
        got.append(data)
        writer.write(b"HTTP/1.1 200 OK\r\nContent-Length: 0\r\nConnection: close\r\n\r\n")
        await writer.drain(); writer.close()
    srv = await asyncio.start_server(handle, "127.0.0.1", 0)
    port = srv.sockets[0].getsockname()[1]
    async with aiohttp.ClientSession() as s:
        try:
            meth = s.get if kw.pop("method_get", False) else s.post
            async with meth(f"http://127.0.0.1:{port}/", **kw) as r:
                await r.read()
        except Exception as e:
            got.append(repr(e).encode())
    srv.close()
    return got[0] if got else b""

async def main(which):
    if which == "a":
        raw = await grab(dict(data=b"hello", chunked=False))
    elif which == "b":
        raw = await grab(dict(data=b"hello", headers={"Transfer-Encoding": "chunked"}))
    elif which == "d":
        # bodiless request whose writer is in chunked mode but whose headers do not say so: a stray "0\r\n\r\n"
        raw = await grab(dict(chunked=True, method_get=True))
    else:
        # bodiless request that announces chunked framing but sends no terminating chunk
        raw = await grab(dict(headers={"Transfer-Encoding": "chunked"}, method_get=True))
    head, _, body = raw.partition(b"\r\n\r\n")
    h = head.lower()
    cl, te = b"content-length:" in h, b"transfer-encoding: chunked" in h
    chunk_framed = body.startswith(b"5\r\nhello")
    print("aiohttp from", aiohttp.__file__, "CL header:", cl, "TE chunked header:", te, "body:", body)
    terminated = body.endswith(b"0\r\n\r\n")
    bad = (cl and te) or (cl and chunk_framed) or (te and not (chunk_framed or terminated)) or (terminated and not te)
    return 1 if bad else 0

sys.exit(asyncio.run(main(sys.argv[1])))
